#!/bin/sh
# usage: tools/try_seed.sh <patch.diff> <check id> [more ids]   -- apply a seeded change to /repo, run checks, undo
p="$1"; shift
git -C /repo apply "$p" || exit 3
for id in "$@"; do
  echo "=== $id with $(basename $(dirname $p))/$(basename $p)"
  /verif/check "$id" 2>&1 | grep -v "^WARNING" | grep -E "VIOLATION|KNOWN-FINDING|MACHINERY|^C[0-9]+ (quick|thorough)" | head -6
done
git -C /repo checkout -- .
git -C /repo status --short | head -3
