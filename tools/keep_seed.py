#!/venv/bin/python
"""Confirm a seeded change in a scratch worktree and keep it under /verif/seeded/<name>/.

usage: keep_seed.py <source dir with patch.diff demo.py notes.md> <name> <property id>
Confirms: patch applies to a clean checkout of /repo HEAD; the pinned suite still passes with it; the demo fails with it
and passes without it.  Writes meta.json.  The scratch worktree is removed afterwards."""
import json, os, shutil, subprocess, sys, tempfile

src, name, prop = sys.argv[1:4]
wt = tempfile.mkdtemp(prefix="seedverify_")
os.rmdir(wt)
def sh(cmd, **kw):
    return subprocess.run(cmd, shell=True, stdout=subprocess.PIPE, stderr=subprocess.STDOUT, text=True, **kw)
ran = []
try:
    r = sh(f"git -C /repo worktree add -q --detach {wt} HEAD"); assert r.returncode == 0, r.stdout
    env = dict(os.environ, PYTHONPATH=wt)
    demo = os.path.join(src, "demo.py")
    r0 = sh(f"/venv/bin/python {demo}", env=env, cwd=wt); ran.append(("demo on clean tree", r0.returncode))
    r = sh(f"git -C {wt} apply {os.path.abspath(src)}/patch.diff"); assert r.returncode == 0, r.stdout
    rb = sh(f"/verif/tools/baseline_check.py {wt}"); ran.append(("pinned suite with change", rb.returncode, rb.stdout.strip().splitlines()[-1]))
    r1 = sh(f"/venv/bin/python {demo}", env=env, cwd=wt); ran.append(("demo with change", r1.returncode))
    ok = r0.returncode == 0 and rb.returncode == 0 and r1.returncode != 0
finally:
    sh(f"git -C /repo worktree remove --force {wt}")
    shutil.rmtree(wt, ignore_errors=True)
print(name, "CONFIRMED" if ok else "REJECTED", ran)
if ok:
    dst = f"/verif/seeded/{name}"
    os.makedirs(dst, exist_ok=True)
    for f in ("patch.diff", "demo.py", "notes.md"):
        shutil.copy(os.path.join(src, f), dst)
    notes = open(os.path.join(src, "notes.md")).read()
    meta = {"property": prop, "name": name, "origin": "independent sub-agent given only the property text and a scratch worktree",
            "needs_to_manifest": "see notes.md", "confirmed": [list(x) for x in ran],
            "how_to_run": f"git -C /repo apply /verif/seeded/{name}/patch.diff; /verif/check {prop}; git -C /repo checkout -- .",
            "detected_by": []}
    json.dump(meta, open(os.path.join(dst, "meta.json"), "w"), indent=1)
sys.exit(0 if ok else 1)
