#!/venv/bin/python
"""Run the repository's pinned test-suite in DIR (default /repo) and check that every test in
BASELINE.json's stable_pass list still passes.  Exit 0 iff all 1212 pass.  Used to validate seeded
changes and fix: commits; not part of any registered check."""
import json, os, subprocess, sys, tempfile
import xml.etree.ElementTree as ET

d = sys.argv[1] if len(sys.argv) > 1 else "/repo"
base = json.load(open("/root/.vp/BASELINE.json"))
want = set(base["stable_pass"])
with tempfile.TemporaryDirectory() as t:
    x = os.path.join(t, "j.xml")
    env = dict(os.environ)
    env.pop("CEOS_ALOS2_VERIF", None)
    env["PYTHONPATH"] = d
    env["XDG_CACHE_HOME"] = os.path.join(t, "cache")
    p = subprocess.run(["/venv/bin/python", "-m", "pytest", "-q", "-p", "no:cacheprovider", "--timeout=900",
                        "--continue-on-collection-errors", f"--junitxml={x}"], cwd=d, env=env,
                       stdout=subprocess.PIPE, stderr=subprocess.STDOUT, text=True)
    ok = set()
    for tc in ET.parse(x).getroot().iter("testcase"):
        if not any(c.tag in ("failure", "error", "skipped") for c in tc):
            ok.add(f"{tc.get('classname')}::{tc.get('name')}")
missing = sorted(want - ok)
print(f"baseline: {len(want & ok)}/{len(want)} stable tests pass in {d}")
for m in missing[:20]:
    print("  NOT PASSING:", m)
sys.exit(0 if not missing else 1)
