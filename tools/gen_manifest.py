#!/venv/bin/python
"""(Re)write /verif/MANIFEST.json from the table below (built checks) and properties.jsonl (not yet built -> not_applicable)."""
import json, os

V = "/verif"
BUILT = {
 "C01": dict(tech="TLA+ Design model of the image metadata pass + loads (TLC exhaustive over geometries x rpc x selections), spec-generated cases replayed on 4 filesystems with bit-exact pixel comparison, recorded I/O traces validated by TLC",
             text="TLC decides the offset arithmetic (RangesExact, CellsExact, OrderKept) for every (n<=6,p<=2,prefix,bps,rpc<=8); every enumerated geometry plus seeded random geometries far outside the bound are synthesised, opened through open_alos2 and compared bit for bit; each vtrace execution is trace-validated against the Envelope.",
             note="trusts TLC, the frozen Layout.tla table (anchored on CEOS record sizes), NumPy/xarray/fsspec as libraries, the harness decode of raw words", ref="6 C01"),
 "C02": dict(tech="TLA+ function of Python/NumPy one-axis index semantics enumerated exhaustively by TLC (with algebraic invariants); every enumerated point replayed as implementation tests on both axes against the spec, an in-memory twin and a reference lazy backend",
             text="TLC evaluates PyIndex on every int / slice(start,stop,step) / small integer array / boolean mask for axis lengths 1..4 (1..5 thorough) and checks seven invariants; each point is applied through isel and [] on rows and columns of lazily opened images (both sample types, several rpc) and must be identical (shape, dims, coords, bits) to the spec's positions and to the in-memory twin; outer / vectorised / label selections are compared lazy-vs-twin.",
             note="operations that xarray's own lazy indexing of a reference BASIC backend does not support (e.g. empty negative-step slices in this xarray version) are outside 'any operation xarray accepts' and counted as skipped; PyIndex is cross-checked against NumPy on every run", ref="6 C02"),
 "C03": dict(tech="frozen TLA+ field tables (Layout/OutMap) walked by a TLC-checked state machine (Fields.tla) + value plans replayed through open_alos2 with leaf-by-leaf comparison",
             text="TLC checks Contiguous/EndsAtLength/KindWidth/Classified/UnitsAreOnVariables/WellTypedSlots over every record; 12 rotation plans put every token class (0, 1, max, every enum code, leap-year stamps ...) into every line-prefix field of every line, plus optional-header blank/zero/filled, midnight-crossing lines, several images per process; every mapped leaf of /imagery/<name> is compared.",
             note="Layout.tla/OutMap.tla are frozen transcriptions bootstrapped once from the pinned commit (change detectors anchored on CEOS record sizes); placement of level-1.1 nested structs is free", ref="6 C03"),
 "C04": dict(tech="frozen TLA+ field tables + TLC-checked table walk (Fields.tla) + value plans over all ~900 leader fields replayed through open_alos2",
             text="Every leader field receives tokens of rotating classes (F/E/e notation, signs, left/right padding, zero padding, 1e+-300, subnormal, -0.0, every code) across 1/2/136 attitude points, 1/8/16 channels, projection absent/UTM/UPS/LCC/MER; every leaf under /metadata is compared (value within 4 ulp of the exact scaled rational or the double product, unit, name, dims, path).",
             note="same provenance limits as C03; Python's float()/int() digit parsing is trusted", ref="6 C04"),
 "C07": dict(tech="TLA+ cache life-cycle model (TLC exhaustive over histories) + producer x location x filesystem x rpc matrix driven on real products with tree identity, tracefs source observation and poisoned-index controls",
             text="Cache.tla: ResultIdeal/NoConsultWhenDisabled over all bounded histories; on real 1.1/1.5 products on 4 filesystems each producer (option, CLI adjacent, both, CLI into the user cache dir) is followed by a cached open with another rpc (identical tree, pixels through the cached array, no line-record reads, index read), a use_cache=False open over a poisoned index (no effect, no index read) and a cache-less open.",
             note="lookup order between the two locations is not prescribed; CLI for non-local products runs on a local twin", ref="6 C07"),
 "C08": dict(tech="TLA+ codec algebra (tuple tagging, nesting, datetime reference/offset with NaT, shapes) checked exhaustively by TLC + extreme concrete representatives per class decoded in a fresh process with bit-level comparison",
             text="TLC checks Decode(Encode(v)) = v on every abstract value of the bounded family (and that the reference-first-element variant loses values); ~60 extreme representatives per dtype kind/shape/NaT class/attr nesting/backend array/hierarchy plus every image group produced under rotating value plans are encoded, handed as text to a fresh process, decoded and compared bit for bit.",
             note="digit exactness is decided by the byte comparison on representatives (the spec decides structure); complex is outside the property's kind list", ref="6 C08"),
 "C09": dict(tech="TLA+ cache model with Crash at every pc, block-grain torn cells, two processes (TLC exhaustive, liveness under fairness) + byte-grain planted prefixes of the real index + real interrupted writers (RLIMIT_FSIZE, SIGKILL, strace-held writer, racing writers)",
             text="MC_Cache_crash/hist/live hold and MC_Cache_bug fails as required; every prefix length (quick: structural boundaries +-1 + evenly spaced; thorough: every byte) of each image's real index document is planted in local/adjacent/both on 4 filesystems and followed by default open, create_cache, use_cache (always the uncached tree; local cache complete afterwards); real crashes leave kernel-cut files that are then opened.",
             note="crash model = prefixes (truncate then write front to back); holes only between writers of identical documents", ref="6 C09"),
 "C10": dict(tech="TLA+ cache model explored breadth-first over all bounded operation histories + TLC-simulated behaviours replayed macro-step by macro-step on real products with tree / directory / option-dict comparison after every step",
             text="MC_Cache_hist checks ResultIdeal, NoConsultWhenDisabled, CacheWritesOnlyWhenAsked, RepairAfterCreate over every history of {open x uc x cc x rpc, CLI, delete, tear} on two images; simulated 7-step behaviours are executed on level 1.1/1.5 products on 4 filesystems: identical tree to a fresh uncached open after each step, product dir touched only by the CLI (+<image>.index), cache dir only when asked, options/defaults unmutated.",
             note="cross-product aliasing of the cache key (same root string on another filesystem) is outside the property (same product)", ref="6 C10"),
 "C12": dict(tech="TLA+ dtype-kind table (Fields.tla WellTypedSlots, TLC) + walk of every variable/attribute of real trees (declared vs loaded dtype/shape, repr/nbytes, selections)",
             text="TLC checks that every exposed field has kind in biufcMmU and that all fields feeding a variable agree; trees of 1.1/1.5/3.1 products (1-4 images, three designators, value plans) are walked: numpy dtype advertised before loading, declared == loaded shape/dtype, plain attribute types, repr/str/nbytes of tree and datasets, 11 selections keep declared == loaded.",
             note="numpy scalars count as plain scalars; None/dict/ndarray attributes do not", ref="6 C12"),
 "C13": dict(tech="TLA+ pipeline model (OpenCall.tla) over an enumerated product family, TLC exhaustive + every exported product synthesised with per-file salts and opened twice",
             text="TLC checks ExactlyKGroups, GroupOwnsItsFile, MetaMatchesLeader, NoTrailerAccess over 1170 products (sequences of 1..3 distinct (pol, scan) x map projection) and GroupNameInjective; the products are synthesised with distinct pixels and line numbers per file and opened twice in one process: node set/order, names, which file each group serves, /metadata children, root attributes, coordinate promotion.",
             note="quick replays a deterministic third of the family plus random 4..8-image products in unsorted listing order", ref="6 C13"),
 "C14": dict(tech="TLA+ summary grammar (abstract lines, Parse, numbered file roles) checked by TLC over all permutations / corruption subsets + generated texts and corruptions replayed through open_alos2",
             text="TLC checks OrderIndependent and ErrorSetExact on every summary up to 3 lines x every permutation; the exported conversion table drives the oracle for ~40-entry generated texts (3 ordering modes, LF/CRLF, blanks/=/quotes/non-ASCII in values, 3..10 files, 1..8 shapes) and 11 corruption kinds on 1..12 lines: exact error-group line numbers required.",
             note="error line numbers are 0-based as the pinned suite fixes them; keys unique per section", ref="6 C14"),
 "C15": dict(tech="TLA+ identifier grammar over the code tables, enumerated exhaustively by TLC (3600 product ids + structural near-misses) with expected decodings exported; every point decoded by the real decoders, plus all dates, file-name sample, end-to-end products",
             text="TLC checks TenCharacters, DecodingTotal, NearMissInvalid, GroupNameInjective and exports each id with its table meaning; all are decoded by the implementation together with a scene id for every date 2014-2049, all scan suffixes, 20 000 composed file names (3.8e5 thorough), malformed strings (must raise ValueError) and 40 products NAMED with sampled ids opened through open_alos2.",
             note="decoder functions are a fast path (non-public import), confirmed end to end on a stratified sample", ref="6 C15"),
 "C17": dict(tech="TLA+ calendar arithmetic (two routes to a day number) checked by TLC over boundary instants, each exported instant written into all time-bearing fields of one product and read back",
             text="TLC checks AllDecodersAgree/LeapDay/LastDay/DayInMonth over 7 years x days {1,2,59,60,61,365,366} x 4 times x 3 us remainders (552 instants); each instant (+ random ones) is written simultaneously into image line ms/us stamps, attitude points, platform-position first point, scene centre, volume creation and 9 read-back points are compared at stored resolution.",
             note="one KNOWN FINDING (attitude times one day late) is listed in KNOWN_FINDINGS.txt because the pinned tests fix that convention", ref="6 C17"),
 "C19": dict(tech="TLA+ model of concurrent loads (threads x handles x lock; TLC all interleavings incl. required counterexample for the shared-handle variant) + deterministic scheduler replaying TLC behaviours on real trees + TLC validation of every realised schedule",
             text="TLC: ServedIsWanted, ResultsSequential, MutualExclusion, Termination for 5 design configs and the mandatory violation for shared handle without lock; a scheduler owning the vtrace yield points replays all 70 interleavings of two one-chunk loads and TLC-simulated behaviours for same-variable / two-variable / pickled-copy / three-thread scenarios; realised event orders are validated by Trace_Loads.",
             note="lock acquisition is not a yield point (blocked threads are skipped); pickled copies live in the same process", ref="6 C19"),
 "C16": dict(tech="frozen TLA+ field tables + Framing/Fields models (TLC) + value plans over the volume directory with 0..12 file pointers replayed through open_alos2",
             text="Every text field of the volume descriptor and text record holds tokens of rotating classes (full width, inner/leading blanks, quotes, punctuation, blank) with 5 boundary creation timestamps and every pointer count 0..12; root attributes compared (stripped text, creation time as an instant).",
             note="same provenance limits as C03", ref="6 C16"),
 "C20": dict(tech="TLA+ role table (nullable / required / spare, Fields.tla, TLC) + one product per nullable field blanked, random blank subsets, spare areas overwritten with random content of their class, (thorough) byte-wise influence map",
             text="All ~800 nullable fields are blanked individually (and in subsets, and all at once): the product opens and every mapped leaf has the expected value (NaN/-1/''/absent); all spare/blank/reserved areas are overwritten (printable text, numbers, arbitrary bytes) and the complete tree incl. pixels must be identical; thorough adds one open per byte of leader/volume/descriptor/prefixes.",
             note="nullable = ASCII field of role value in Layout.tla", ref="6 C20"),
 "C05": dict(tech="TLA+ writer/reader framing state machine (TLC exhaustive over declared counts/lengths) + replay of every enumerated instance into the real reader",
             text="TLC checks CursorAligned/InadmissibleRejected/EndsAtTotal for attitude 1..136 points (incl. non-standard record lengths), channels 1..16, facility lengths^4, 0/1 map projection, 0..12 file pointers, 0..7 low-res images; every admissible instance is synthesised from the TLC-placed layout and every leaf behind the variable-length record is compared.",
             note="trusts TLC, the frozen Layout.tla; the leader cross product is covered one dimension at a time plus the full facility-length cross (additivity of framing)", ref="6 C05"),
 "C06": dict(tech="TLA+ ImageIO model (rpc-free byte ranges, advertised chunk = min(rpc,n)) + pairwise whole-tree comparison over rpc values + TLC-validated open traces",
             text="TLC shows the located byte ranges do not depend on rpc for every geometry in the bound; the real trees for 12-20 rpc values per product (1, divisors, non-divisors, n-1, n, n+1, default, 10^6, 10^12, maxsize) are compared leaf by leaf including pixels; only preferred_chunksizes may differ and must equal min(rpc,n).",
             note="trusts TLC, xarray identity of projected trees (NaN/-0.0 normalised)", ref="6 C06"),
 "C11": dict(tech="TLA+ Envelope of permitted I/O (the property verbatim) with TLC-checked refinement Design => Envelope, and TLC trace validation of every recorded open/load on an instrumented filesystem",
             text="ImageIOEnv.tla states the property; TLC proves the Design stays inside it for the bounded family; every open and load executed through open_alos2/isel on vtrace:// is validated event by event (with arguments) against the Envelope, four corrupted-trace negative controls must be rejected on every run.",
             note="rpc above the line count is clamped to n+1 in trace headers; over-long open-time requests served short are DRIFT, not violations (statement fixes count and order only)", ref="6 C11"),
 "C18": dict(tech="TLA+ pipeline model with fault states (missing / truncated component files) + ImageIO FailStop, TLC exhaustive; every enumerated fault injected into real products (really damaged files and short reads), outcome class compared, traces validated",
             text="TLC checks FailStopFiles, MissingIsOSError, NoTrailerAccess, Terminates (OpenCall) and FailStop (ImageIO: every cut x rpc); each fault state is applied to synthesised products on local disk and vtrace:// with default and explicit rpc below/at/above n; a returned tree for a damaged product or a non-OSError for a missing file is a violation.",
             note="scope is the property's quantifier (no pre-existing cache); leader/volume cuts at record boundaries +-1, images at every cut of the family (every byte in the thorough tier)", ref="6 C18"),
}
SESSION = ["C01", "C02", "C03", "C04", "C06", "C07", "C08", "C09", "C10", "C12", "C13", "C14", "C16", "C18", "C19"]
for i in SESSION:
    BUILT[i]["tech"] += ("; composed TLA+ specification Alos2.tla (the reader as one session: opens, loads, in-place modification, copies, CLI, redelivery, damage, index "
                         "cells torn / deleted / blocked / purged, unusable cache directory): TLC-simulated behaviours replayed step by step in one process against fresh-process "
                         "references, and recorded random sessions validated line by line by TLC (Trace_Alos2.tla)")
    BUILT[i]["text"] += (" Session part: Alos2.tla behaviours (selected by history patterns) replayed in one process and 16 (160) recorded 40 (60)-step sessions validated by TLC; "
                         "the finding classes this property owns are reported.")
EXTRA = {
 "C01": "; TLAPS proofs of the unbounded chunk arithmetic (ChunkProofs.tla); rpc up to 2^63-1 on four filesystems; transient-fault filesystem (raise or right)",
 "C02": "; TLAPS proofs that every slice position lies on the axis for all n, start, stop, step (IndexProofs.tla); selections over up to 1100 request groups from plain / asyncio / deep-stack / thread callers of a fresh interpreter",
 "C04": "; declared-but-informational values (FileFormat!Informational) varied; first-point date/time text styles; other declared record lengths; interpreters -O/-OO/-X dev, path spellings, calling contexts",
 "C05": "; declared-but-informational values varied; concurrent opens of different products (1 us switch interval)",
 "C06": "; TLAPS proofs (ChunkProofs.tla); size family with chunks across 2^26 and 2^31 bytes (sparse 2.2 GB file); jitter; shared option dict; partial-read sequences; NumPy integer request sizes; the same product opened with different request sizes at once by threads and by forked workers",
 "C07": "; filesystem where a missing object is PermissionError; CacheAtomic.tla: TLC-checked equivalence of the step-grain open (Cache.tla) with the atomic Open of Alos2.tla through the shared CacheRule.tla",
 "C08": "; index files exchanged between processes with different locale encodings",
 "C09": "; crash at every system-call boundary of the strace-recorded writers with the call sequence validated by TLC (Trace_CacheSys.tla); persisting faults; concurrent default openers with delayed unlink/rename",
 "C10": "; exhaustive BFS of Alos2.tla; concurrent opens; CacheAtomic.tla (step-grain open = atomic Open for one process, TLC-checked)",
 "C11": "; TLAPS proofs (ChunkProofs.tla); size family; transient faults (a failed request is not a read, delivered groups are not requested again); index-opened and copied trees; pointwise selections; loads with the caller's process under an address-space limit (RLIMIT_AS 4 GiB, 99 MB groups)",
 "C16": "; 800 (6000) seconds x hundredths stamps; transient fault while VOL/LED/summary is fetched; each text field blank on its own; NUL padding",
 "C17": "; text encodings of dates in Calendar.tla with a must-fail greedy decoder; process time zones with and without DST; trees parsed / parsed while indexed / served from the index; two lines of one request across midnight / new year (Calendar!Later, Rollover); ambient decimal precision / NumPy error state of the caller",
 "C19": "; LockOf (copies share the lock), filesystem with one file object per path (memory:// semantics), two separately opened trees, same line as integer and as block, 12 MB loads with jitter; a request stalled for 12-65 s with the lock held; crowds of 4-64 free-running loaders (four-thread model MC_Loads_four); TLAPS proofs over Loads.tla for any number of threads (LoadsProofs.tla, LoadsLockProofs.tla: 564 obligations); line-grain schedules (a load parked before every source line inside the package after histories of 16-256 selections while a new selection is loaded): binds LoadsPlan.tla (planning phase: thread-local or atomic memo safe, check-then-act on a full memo must fail)",
 "C20": "; complex fields with one half blank; whole state vectors blank jointly under every declared count",
 "C13": "; Hierarchy.tla (the group tree as a state machine): every TLC-exported history replayed on real Group objects and DataTrees; informational summary entries varied; interpreters / path spellings / calling contexts",
 "C03": "; lines of one request straddling midnight / new year (Calendar!Later); interpreters / path spellings / calling contexts",
 "C12": "; interpreters -O/-OO/-X dev, path spellings, calling contexts; level-1.0 (CI*2) products: refused = not judged, returned = held to the property",
}
for i, t in EXTRA.items():
    BUILT[i]["tech"] += t
props = [json.loads(l) for l in open(f"{V}/properties.jsonl")]
checks, na = [], []
for p in props:
    i = p["id"]
    if i in BUILT and os.path.exists(f"{V}/checks/{i}.py"):
        b = BUILT[i]
        checks.append({"property_id": i, "quick_cmd": f"./check {i} --tier quick", "thorough_cmd": f"./check {i} --tier thorough",
                       "evidence_file": f"/verif/evidence/{i}.json", "replay_cmd_template": f"./check {i} --replay {{path}}",
                       "engine": "tlc+harness",
                       "level_claimed": {"category": "model_checking", "text": b["text"], "design_ref": f"DESIGN.md section {b['ref']}"},
                       "level_note": b["note"], "technique": b["tech"]})
    else:
        na.append({"property_id": i, "reason": "check not built yet (work in progress; DESIGN.md section 12 build order)"})
m = {"version": 1,
     "setup_cmd": "cd /verif && /venv/bin/python -W ignore tools/setup.py",
     "hooks": {"guard": "CEOS_ALOS2_VERIF", "enable": "no source hooks are used: checks import ceos_alos2 from /repo's working tree (editable install) in fresh worker processes with a private XDG_CACHE_HOME", "baseline_off_cmd": "cd /repo && /venv/bin/python -m pytest -ra -q -p no:cacheprovider --timeout=900 --continue-on-collection-errors", "source_commits": [], "add_only": True},
     "engines": [{"name": "tlc+harness", "path": "/verif/check", "serves_properties": [c["property_id"] for c in checks],
                  "kind_free_text": "explicit TLA+ specifications under /verif/spec checked by TLC; spec-generated cases replayed into the real code and recorded traces validated by TLC (harness/, checks/)"}],
     "checks": checks, "notes": "see DESIGN.md; known findings in KNOWN_FINDINGS.txt; seeded changes in seeded/", "not_applicable": na}
json.dump(m, open(f"{V}/MANIFEST.json", "w"), indent=1)
print("checks:", [c["property_id"] for c in checks], "n/a:", len(na))
