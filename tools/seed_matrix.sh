#!/bin/sh
# run, for every kept seeded change, the check of its own property (and optional extra ids) and record which checks detect it
# usage: tools/seed_matrix.sh [extra check ids...]   -> /verif/seeded/MATRIX.txt and meta.json detected_by
out=/verif/seeded/MATRIX.txt
: > $out
for d in /verif/seeded/*/; do
  n=$(basename $d)
  prop=$(/venv/bin/python -c "import json;print(json.load(open('$d/meta.json'))['property'])" 2>/dev/null | tail -1)
  det=""
  if ! git -C /repo apply --check $d/patch.diff 2>/dev/null; then echo "$n NOAPPLY" >> $out; continue; fi
  git -C /repo apply $d/patch.diff
  for id in $prop "$@"; do
    /verif/check $id > /tmp/matrix_$id.out 2>&1
    rc=$?
    if [ $rc -eq 1 ] && grep -q "^VIOLATION property=$id" /tmp/matrix_$id.out; then det="$det $id"; fi
    if [ $rc -eq 2 ]; then det="$det $id(machinery!)"; fi
  done
  git -C /repo checkout -- .
  echo "$n property=$prop detected_by:$det" >> $out
  /venv/bin/python - "$d/meta.json" "$det" <<'PY' 2>/dev/null
import json, sys
m = json.load(open(sys.argv[1])); m["detected_by"] = sys.argv[2].split(); json.dump(m, open(sys.argv[1], "w"), indent=1)
PY
done
cat $out
