#!/venv/bin/python
"""After a fix: commit in /repo, re-run every kept seed's demonstration on the new HEAD with the seeded change applied.  A seed whose
demonstration now PASSES with the change is neutralised by the fix (the hole it used is closed); it is marked in its meta.json."""
import json, os, subprocess, sys, tempfile, shutil
from concurrent.futures import ThreadPoolExecutor
SEED = "/verif/seeded"
head = subprocess.run("git -C /repo rev-parse --short HEAD", shell=True, stdout=subprocess.PIPE, text=True).stdout.strip()
def one(n):
    wt = tempfile.mkdtemp(prefix=f"rc_{n}_"); os.rmdir(wt)
    try:
        if subprocess.run(f"git -C /repo worktree add -q --detach {wt} HEAD", shell=True).returncode: return n, "worktree-failed"
        if subprocess.run(f"git -C {wt} apply {SEED}/{n}/patch.diff", shell=True).returncode: return n, "noapply"
        env = dict(os.environ, PYTHONPATH=wt)
        p = subprocess.run(f"/venv/bin/python {SEED}/{n}/demo.py", shell=True, cwd=wt, env=env, stdout=subprocess.PIPE, stderr=subprocess.STDOUT, text=True, timeout=1800)
        return n, "still-breaks" if p.returncode != 0 else "neutralised"
    except subprocess.TimeoutExpired:
        return n, "timeout"
    finally:
        subprocess.run(f"git -C /repo worktree remove --force {wt}", shell=True); shutil.rmtree(wt, ignore_errors=True)
names = sorted(n for n in os.listdir(SEED) if os.path.isdir(f"{SEED}/{n}"))
with ThreadPoolExecutor(8) as ex:
    for n, st in ex.map(one, names):
        m = json.load(open(f"{SEED}/{n}/meta.json"))
        m.setdefault("rechecked", {})[head] = st
        json.dump(m, open(f"{SEED}/{n}/meta.json", "w"), indent=1)
        if st != "still-breaks": print(n, st, flush=True)
print("done", head)
