#!/venv/bin/python
"""ONE-TIME bootstrap of spec/OutMap.tla: where does each file field surface in the tree?

Builds synthetic products whose fields all hold distinct values (three seeds), opens them with the pinned
reader, and records for every layout leaf the unique tree location whose value equals the documented
conversion of what was written.  The result was reviewed by hand and is FROZEN; checks never run this."""
import os
import sys
import tempfile

os.environ["XDG_CACHE_HOME"] = tempfile.mkdtemp()
sys.path.insert(0, "/verif")
import ceos_alos2  # noqa: E402

from harness import layout as L  # noqa: E402
from harness import product, project  # noqa: E402
from harness.synth import exact_float  # noqa: E402

tables = L.tables()


def candidates(leaf, v):
    """tagged values this token may surface as -> [(tag, tagged value)]"""
    k, e, t = leaf["k"], leaf["e"], leaf["t"]
    out = []
    if v is None:
        return out
    if t:
        lab = [lab for lab, code in tables[t] if str(code) == str(v)]
        if lab:
            out.append(("enum", ("U", lab[0])))
        return out
    if k == "ai":
        out.append(("", ("i", int(v))))
        out.append(("bool", ("b", bool(int(v)))))
    elif k == "af":
        out.append(("", ("f", exact_float(v, e))))
    elif k == "ac":
        out.append(("", ("c", (exact_float(v[0]), exact_float(v[1])))))
    elif k == "s":
        out.append(("", ("U", v.strip())))
    elif k in ("u8", "u16", "u32", "u64"):
        if e:
            out.append(("", ("f", float(v) * 10.0**e)))
        else:
            out.append(("", ("i", int(v))))
    elif k == "flag":
        out.append(("", ("b", bool(v))))
    return out


def locations(proj, tagged, ulp=4):
    """all (node, name, kind, dims, flat index) where the tagged value occurs"""
    hits = []
    for node, g in proj.items():
        for name, val in g["attrs"].items():
            if project.same_value(val, tagged, ulp):
                hits.append((node, name, "attr", (), None))
        for name, leaf in g["vars"].items():
            if "values" not in leaf:
                continue
            for i, x in enumerate(leaf["values"]):
                if project.same_value(x, tagged, ulp):
                    hits.append((node, name, "var", tuple(leaf["dims"]), i))
    return hits


def probe(level, seed, leader=None, ctx=None):
    b = product.build_product(level=level, images=(("HH", None, 3, 2),), seed=seed, leader=leader, ctx=ctx)
    d = b.write(tempfile.mkdtemp())
    tree = ceos_alos2.open_alos2(d, backend_options=dict(records_per_chunk=2, use_cache=False))
    return b, project.project_tree(tree)


def main():
    results = {}  # (filekind, recname, leafpath(with [] for arrays)) -> set of (tr, node, name, kind, dims, ixpattern)
    configs = [("1.5", None, None), ("1.1", None, None)]
    for des in ("UPS-PROJECTION", "LCC-PROJECTION", "MER-PROJECTION"):
        configs.append(("1.5", None, dict(designator=des)))
    for level, leader, ctx in configs:
        per_seed = []
        for seed in (1, 2, 3):
            b, proj = probe(level, seed, leader, ctx)
            found = {}
            for fkey, fb in b.builders.items():
                if fkey == "TRL":
                    continue
                fk = "IMG" if fkey.startswith("IMG") else fkey
                for r, rec in enumerate(fb.inst["records"]):
                    for path, (off, leaf, arr) in fb.index[r].items():
                        if leaf["r"] in ("preamble", "pixels", "spare"):
                            continue
                        lines = range(rec.get("count", 1))
                        for line in lines:
                            v = fb.truth.get((r, path, line))
                            if isinstance(v, (bytes, bytearray)):
                                continue
                            if arr is not None:
                                key = (fk, rec["name"], arr[0] + "[]" + ("." + arr[3] if arr[3] else ""))
                                aidx = arr[2]
                            else:
                                key = (fk, rec["name"], path)
                                aidx = None
                            if fk == "IMG" and rec["name"] == "line":
                                aidx = line
                            locs = set()
                            if fk == "VOL":
                                prefix = "/"
                            elif fk == "LED":
                                prefix = "/metadata/" + {"facility_related_data_5": "transformations"}.get(rec["name"], rec["name"])
                            else:
                                prefix = "/imagery/HH"
                            for tr, tagged in candidates(leaf, v):
                                for node, name, kind, dims, fi in locations(proj, tagged):
                                    if fk == "VOL" and node != "/":
                                        continue
                                    if fk != "VOL" and not (node == prefix or node.startswith(prefix + "/")):
                                        continue
                                    node_ = node.replace("/imagery/HH", "/imagery/<image>")
                                    locs.add((tr, node_, name, kind, dims, fi, aidx))
                            found.setdefault(key, []).append(locs)
            per_seed.append(found)
        # intersect over seeds / array indices / lines
        for key in per_seed[0]:
            common = None
            for found in per_seed:
                for locs in found.get(key, []):
                    ids = set()
                    for tr, node, name, kind, dims, fi, aidx in locs:
                        if tr == "bool":
                            base = key[2].split(".")[-1]
                            if not (name == base or (base, name) in (("occurrence_flag_of_a_leap_second", "leap_second"),
                                                                     ("prf_switching_flag", "prf_switching"))):
                                continue
                        if kind == "var":
                            if aidx is not None:
                                if fi != aidx:
                                    continue
                                ix = -1
                            else:
                                ix = fi
                        else:
                            ix = -2
                        ids.add((tr, node, name, kind, dims, ix))
                    common = ids if common is None else (common & ids)
            results.setdefault(key, {})[(level, (ctx or {}).get("designator", "UTM-PROJECTION" if level != "1.1" else ""))] = common or set()
    out = []
    for key in sorted(results):
        per_cfg = results[key]
        allc = set()
        for c in per_cfg.values():
            allc |= c
        if len(allc) > 1:
            comps = [c.replace("[]", "") for c in key[2].split(".")]
            named = {c for c in allc if all(x in c[1].split("/") or x == c[2] or x in ("data_points",) for x in comps)}
            if len(named) >= 1:
                allc = named
        cfgs = sorted(cfg for cfg, c in per_cfg.items() if c & allc)
        out.append((key, sorted(allc), cfgs, sorted(per_cfg)))
    import json

    json.dump([[list(k), [list(c) for c in v], cf, al] for k, v, cf, al in out], open("/tmp/outmap_probe.json", "w"), indent=0)
    print("leaves", len(out), "unmatched", sum(1 for _, v, _, _ in out if not v), "ambiguous", sum(1 for _, v, _, _ in out if len(v) > 1))
    for k, v, cf, al in out:
        if len(v) > 1:
            print(k, v[:4])
        if v and cf != al:
            print("COND", k, cf)


if __name__ == "__main__" and len(sys.argv) == 1:
    main()


def emit():
    """second stage: /tmp/outmap_probe.json -> spec/OutMap.tla (plus the hand-written special entries)"""
    import json

    rows = json.load(open("/tmp/outmap_probe.json"))

    def q(s):
        return '"' + s + '"'

    def seq(xs):
        return "<<" + ", ".join(q(x) for x in xs) + ">>"

    lines = []
    for (f, r, p), locs, cfgs, allcfg in rows:
        if not locs:
            continue
        (tr, node, name, kind, dims, ix) = locs[0]
        cond = ""
        if cfgs != allcfg:
            des = {c[1].split("-")[0].lower() for c in cfgs}
            cond = "nsp" if des == {"lcc", "mer"} else des.pop()
        lines.append(
            f'  [f |-> {q(f)}, r |-> {q(r)}, p |-> {q(p)}, g |-> {q(node)}, n |-> {q(name)}, k |-> {q(kind)}, '
            f'd |-> {seq(dims)}, ix |-> {ix}, tr |-> {q(tr)}, c |-> {q(cond)}]'
        )
    special = [
        ("IMG", "line", "sensor_acquisition_date", "/imagery/<image>", "sensor_acquisition_date", "var", ["rows"], -1, "ydms", ""),
        ("IMG", "line", "sensor_acquisition_date_microseconds", "/imagery/<image>", "sensor_acquisition_date_microseconds", "var", ["rows"], -1, "ydus", ""),
        ("IMG", "file_descriptor", "prefix_suffix_data_locators.maximum_data_range_of_pixel", "/imagery/<image>", "valid_range", "attr", [], -2, "range0", ""),
        ("VOL", "volume_descriptor", "logical_volume_creation_datetime", "/", "creation_datetime", "attr", [], -2, "iso", ""),
        ("LED", "dataset_summary", "scene_center_time", "/metadata/dataset_summary", "scene_center_time", "attr", [], -2, "iso", ""),
        ("LED", "platform_position", "datetime_of_first_point.date", "/metadata/platform_position", "datetime_of_first_point", "attr", [], -2, "pp_datetime", ""),
        ("LED", "platform_position", "datetime_of_first_point.seconds_of_day", "/metadata/platform_position", "datetime_of_first_point", "attr", [], -2, "pp_datetime", ""),
        ("LED", "attitude", "data_points[].time.day_of_year", "/metadata/attitude/attitude", "time", "var", ["points"], -1, "att_time", ""),
        ("LED", "attitude", "data_points[].time.millisecond_of_day", "/metadata/attitude/attitude", "time", "var", ["points"], -1, "att_time", ""),
    ]
    for a, b in (("electronic", "mechanic"),):
        pass
    nested = {
        "elevation_angle_at_nadir_of_antenna": ["electronic", "mechanic"],
        "antenna_squint_angle": ["electronic", "mechanic"],
        "platform_velocity": ["x", "y", "z"],
        "platform_acceleration": ["x", "y", "z"],
        "platform_attitude": ["pitch", "roll", "yaw"],
    }
    for outer, inner in nested.items():
        for i in inner:
            special.append(("IMG", "line", f"{outer}.{i}", "/imagery/<image>", f"{outer}.{i}", "var", ["rows"], -1, "nested", ""))
    for f, r, p, g, n, k, d, ix, tr, c in special:
        lines.append(
            f'  [f |-> {q(f)}, r |-> {q(r)}, p |-> {q(p)}, g |-> {q(g)}, n |-> {q(n)}, k |-> {q(k)}, '
            f'd |-> {seq(d)}, ix |-> {ix}, tr |-> {q(tr)}, c |-> {q(c)}]'
        )
    mapped = {(f, r, p) for f, r, p, *_ in special} | {tuple(k) for k, locs, _, _ in rows if locs}
    ign = sorted({tuple(k) for k, locs, _, _ in rows if not locs} - mapped)
    ign_txt = "Ignored == {\n" + ",\n".join(f"  <<{q(f)}, {q(r)}, {q(p)}>>" for f, r, p in ign) + "\n}\n\n"
    head = open("/verif/tools/outmap_head.tla").read()
    with open("/verif/spec/OutMap.tla", "w") as fh:
        fh.write(head + "OutMap == <<\n" + ",\n".join(lines) + "\n>>\n\n" + ign_txt + open("/verif/tools/outmap_tail.tla").read())
    print("entries", len(lines))


if __name__ == "__main__" and len(sys.argv) > 1 and sys.argv[1] == "emit":
    emit()
