#!/venv/bin/python
"""ONE-TIME bootstrap of spec/Layout.tla from the construct declarations of the pinned commit.

Provenance tool only: no registered check runs it and no check ever imports a construct Struct from /repo to
build an expectation.  After generation the table was reviewed by hand and is FROZEN (see DESIGN.md 4.2); the
anchors that TLC re-checks at every start-up are the fixed CEOS record sizes (ASSUMEs in Layout.tla).

usage: bootstrap_layout.py > spec/Layout.tla
"""
import math
import re
import sys

import construct as C

from ceos_alos2 import datatypes as D
from ceos_alos2.sar_image import enums as E
from ceos_alos2.sar_image.file_descriptor import file_descriptor_record as img_fd
from ceos_alos2.sar_image.processed_data import processed_data_record
from ceos_alos2.sar_image.signal_data import signal_data_record
from ceos_alos2.sar_leader.attitude import attitude_record
from ceos_alos2.sar_leader.data_quality_summary import data_quality_summary_record
from ceos_alos2.sar_leader.dataset_summary import dataset_summary_record
from ceos_alos2.sar_leader.facility_related_data import (
    facility_related_data_5_record,
    facility_related_data_record,
)
from ceos_alos2.sar_leader.file_descriptor import file_descriptor_record as led_fd
from ceos_alos2.sar_leader.map_projection import map_projection_record
from ceos_alos2.sar_leader.platform_position import platform_position_record
from ceos_alos2.sar_leader.radiometric_data import radiometric_data_record
from ceos_alos2.sar_trailer.file_descriptor import file_descriptor_record as trl_fd
from ceos_alos2.volume_directory import structure as V

FMT = {">B": ("u8", 1), ">H": ("u16", 2), ">L": ("u32", 4), ">Q": ("u64", 8)}

# symbolic counts / widths, by field name (hand table; the TLA+ parameter that stands for each)
SYMBOLIC_COUNT = {
    "data_points": "np",
    "nominal_relative_radiometric_calibration_uncertainty": "nch",
    "relative_misregistration_error": "nch",
    "file_descriptors": "nfp",
    "low_resolution_image_sizes": "nlow",
}
ARRAY_DIM = {
    "data_points": "points",
    "nominal_relative_radiometric_calibration_uncertainty": "channel",
    "relative_misregistration_error": "channel",
    "positions": "positions",
    "annotations": "annotation",
    "file_descriptors": "file_pointer",
    "low_resolution_image_sizes": "low_res_image",
    "a": "coeff",
    "b": "coeff",
    "c": "coeff",
    "d": "coeff",
}

# roles (hand table, reviewed): which filled-in columns the format REQUIRES (not nullable), which are spare
REQUIRED = {
    # counts / lengths
    "number_of_points": "count", "number_of_channels": "count", "number_of_file_pointer_records": "count",
    "number_of_low_resolution_images": "count", "number_of_records": "count", "record_length": "length",
    "number_of_sar_data_records": "count", "sar_data_record_length": "length",
    "number_of_lines_per_dataset": "count", "number_of_data_groups_per_line": "count",
    "number_of_data_points": "count",
    # code / flag columns
    "sar_data_format_type_code": "code", "map_projection_designator": "code", "motion_compensation_indicator": "code",
    "base_band_conversion_flag": "code", "range_compression_flag": "code", "echo_tracker_status": "code",
    "weighting_function_in_azimuth": "code", "weighting_function_in_range": "code",
    "clutter_lock_applied_flag": "code", "auto_focusing_applied_flag": "code",
    "orbital_elements_designator": "code", "calibration_mode_data_location_flag": "code",
    "occurrence_flag_of_a_leap_second": "code", "prf_switching_flag": "code",
    "pitch_error": "code", "roll_error": "code", "yaw_error": "code",
    "record_sequence_number": "code",
    # date-time texts
    "scene_center_time": "datetime", "logical_volume_creation_datetime": "datetime", "date": "datetime",
    "seconds_of_day": "datetime", "day_of_year": "datetime", "millisecond_of_day": "datetime",
}
SPARE_RE = re.compile(r"^(spare|blanks|reserved)\d*$")
SPARE_EXTRA = {"local_use_segment", "system_reserve", "spare"}


def role_of(name, kind):
    if SPARE_RE.match(name) or name in SPARE_EXTRA:
        return "spare"
    if name in REQUIRED:
        return REQUIRED[name]
    return "value"


def q(s):
    return '"' + s.replace("\\", "\\\\").replace('"', '\\"') + '"'


def unwrap(c):
    while isinstance(c, C.Renamed):
        c = c.subcon
    return c


def fixed_len(c):
    """length of a PaddedString_ base (StringEncoded(FixedSized(n, ...)))"""
    c = unwrap(c)
    while not isinstance(c, C.FixedSized):
        c = c.subcon
    return c.length


enum_tables = {}


def enum_table(c, name):
    items = sorted(c.encmapping.items(), key=lambda kv: str(kv[1]))
    key = name
    enum_tables.setdefault(key, items)
    if enum_tables[key] != items:
        raise SystemExit(f"enum table clash for {name}")
    return key


def walk(c, name):
    """-> TLA+ expression text for the field `name` declared by construct `c`"""
    c = unwrap(c)
    attrs = {}
    factor = None
    # peel Metadata / Factor
    while True:
        if isinstance(c, D.Metadata):
            attrs.update(c.attrs)
            c = unwrap(c.subcon)
        elif isinstance(c, D.Factor):
            factor = c.factor
            c = unwrap(c.subcon)
        else:
            break
    units = attrs.get("units", "")
    e = 0 if factor is None else round(math.log10(factor))
    if factor is not None and 10.0**e != factor:
        raise SystemExit(f"non power-of-ten factor on {name}")

    def leaf(width, kind, table=""):
        w = width if isinstance(width, str) else str(width)
        return f"F({q(name)}, {w}, {q(kind)}, {q(units)}, {e}, {q(table)}, {q(role_of(name, kind))})"

    if isinstance(c, C.Struct):
        body = walk_struct(c)
        consts = {k: v for k, v in attrs.items() if k != "units"}
        # constant attributes on a Metadata(Struct) are output constants: they live in OutMap, not here
        return f"S({q(name)}, <<\n{body}\n>>)"
    if isinstance(c, C.Array):
        cnt = c.count if isinstance(c.count, int) else SYMBOLIC_COUNT[name]
        el = walk(c.subcon, "el")
        return f"A({q(name)}, {cnt}, {q(ARRAY_DIM[name])}, {el})"
    if isinstance(c, C.FormatField):
        k, w = FMT[c.fmtstr]
        return leaf(w, k)
    if isinstance(c, C.Enum):
        base = unwrap(c.subcon)
        t = enum_table(c, name)
        if isinstance(base, C.FormatField):
            k, w = FMT[base.fmtstr]
            return leaf(w, k, t)
        if isinstance(base, D.AsciiInteger):
            return leaf(fixed_len(base), "ai", t)
        if isinstance(base, D.PaddedString):
            return leaf(fixed_len(base), "s", t)
        raise SystemExit(f"enum base {base}")
    if isinstance(c, E.Flag):
        k, w = FMT[unwrap(c.subcon).fmtstr]
        return leaf(w, "flag")
    if isinstance(c, D.AsciiInteger):
        return leaf(fixed_len(c), "ai")
    if isinstance(c, D.AsciiFloat):
        return leaf(fixed_len(c), "af")
    if isinstance(c, D.AsciiComplex):
        half = fixed_len(unwrap(c.subcon).subcons[0])
        return leaf(2 * half, "ac")
    if isinstance(c, D.PaddedString):
        n = fixed_len(c)
        if not isinstance(n, int):
            n = "PAD"  # data-dependent width: the writer pads the enclosing block to its declared size
        return leaf(n, "s")
    if isinstance(c, D.StripNullBytes):
        return leaf(unwrap(c.subcon).length, "bytes")
    if isinstance(c, D.DatetimeYdms):
        return leaf(12, "ydms")
    if isinstance(c, D.DatetimeYdus):
        return leaf(8, "ydus")
    raise SystemExit(f"unhandled construct {type(c).__name__} for {name}")


def walk_struct(c):
    out = []
    for sc in c.subcons:
        name = sc.name
        u = unwrap(sc)
        if isinstance(u, (type(C.Tell),)) or u is C.Tell:
            continue  # record_start: zero width
        if name == "data" and isinstance(u, C.Struct) and any(unwrap(x) is C.Tell for x in u.subcons):
            out.append(f'F("data", PAD, "pixels", "", 0, "", "pixels")')
            continue
        if name == "preamble":
            out.append("Preamble")
            continue
        out.append(walk(sc, name))
    return ",\n".join("  " + line for item in out for line in [item.replace("\n", "\n  ")])


PAD_EXPR = {  # writer-side: pad the block to its declared size
    ("Attitude", "blanks"): "len - 16 - 120 * np",
    ("DataQuality", "blanks", 0): "512 - 32 * nch",
    ("DataQuality", "blanks", 1): "790 - 32 * nch",
    ("Facility", "raw_file_data"): "len - 66",
    ("SignalLine", "data"): "ndata",
    ("ProcessedLine", "data"): "ndata",
    ("TrailerDescriptor", "blanks"): "224 - 26 * nlow",
}

RECORDS = [
    ("VolumeDescriptor", "", V.volume_descriptor),
    ("FilePointer", "", V.file_descriptor),
    ("TextRecord", "", V.text_record),
    ("LeaderDescriptor", "", led_fd),
    ("DatasetSummary", "", dataset_summary_record),
    ("MapProjection", "", map_projection_record),
    ("PlatformPosition", "", platform_position_record),
    ("Attitude", "(np, len)", attitude_record),
    ("Radiometric", "", radiometric_data_record),
    ("DataQuality", "(nch)", data_quality_summary_record),
    ("Facility", "(len)", facility_related_data_record),
    ("Facility5", "", facility_related_data_5_record),
    ("ImageDescriptor", "", img_fd),
    ("SignalLine", "(ndata)", signal_data_record),
    ("ProcessedLine", "(ndata)", processed_data_record),
    ("TrailerDescriptor", "(nlow)", trl_fd),
]


def main():
    parts = []
    for name, params, rec in RECORDS:
        body = walk_struct(rec)
        k = 0
        def sub(m):
            nonlocal k
            fname = m.group(1)
            key = (name, fname) if (name, fname) in PAD_EXPR else (name, fname, k)
            k += 1
            return f'F("{fname}", {PAD_EXPR[key]},'
        body = re.sub(r'F\("(\w+)", PAD,', sub, body)
        parts.append(f"{name}Fields{params} == <<\n{body}\n>>\n")
    tables = []
    for k, items in enum_tables.items():
        rows = ", ".join(f"<<{q(str(label))}, {q(str(code))}>>" for label, code in items)
        tables.append(f"  {q(k)} :> << {rows} >>")
    print("\\* ---- generated once by tools/bootstrap_layout.py from the pinned commit, then frozen ----")
    print("EnumTables ==\n" + " @@\n".join(tables) + "\n")
    print("\n".join(parts))


if __name__ == "__main__":
    main()
