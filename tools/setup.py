"""setup_cmd: parse every specification, evaluate the ASSUMEs of the function libraries, pre-export the standard
layout instances through TLC (build/ is git-ignored and rebuilt here)."""
import os, subprocess, sys
sys.path.insert(0, "/verif")
from harness import tlc, layout as L
for mod in ("Layout", "OutMap"):
    r = tlc.run_ok(mod, mod)
    print(mod, "assumptions ok")
specs = sorted(f[:-4] for f in os.listdir(tlc.SPEC_DIR) if f.endswith(".tla"))
proofs = [s for s in specs if "EXTENDS" in open(os.path.join(tlc.SPEC_DIR, s + ".tla")).read() and ", TLAPS" in open(os.path.join(tlc.SPEC_DIR, s + ".tla")).read()]
for s in proofs:  # proof modules (EXTENDS TLAPS) are checked by the proof manager, not by SANY alone
    from harness import tlaps
    p = tlaps._tlapm(s, tlc.SPEC_DIR)   # (own process group: back-end provers that outlive their time-out are killed afterwards)
    if "obligations proved" not in p.stdout:
        print(p.stdout[-2000:]); sys.exit(f"tlapm failed on {s}")
    print(s, p.stdout.strip().splitlines()[-1])
for s in [x for x in specs if x not in proofs]:
    p = subprocess.run(["tla-sany", s + ".tla"], cwd=tlc.SPEC_DIR, stdout=subprocess.PIPE, stderr=subprocess.STDOUT, text=True)
    if "Semantic errors" in p.stdout or "Parse Error" in p.stdout or p.returncode != 0:
        print(p.stdout[-2000:]); sys.exit(f"SANY failed on {s}")
print("parsed", len(specs), "modules")
L.tables()
L.instances([dict(L.SMALL_LEADER), dict(L.SMALL_LEADER, nmap=0), dict(L.DEFAULT_LEADER), dict(file="trailer", nlow=0, lens=[])]
            + [dict(file="volume", nfp=k) for k in range(0, 13)])
print("layout service ok")
