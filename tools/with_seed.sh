#!/bin/sh
# usage: tools/with_seed.sh <seed name> <command ...>   -- run a command with a scratch worktree of /repo + the seeded change first on PYTHONPATH
n="$1"; shift
wt=$(mktemp -d /tmp/ws_${n}_XXXX); rmdir $wt
git -C /repo worktree add -q --detach $wt HEAD || exit 3
git -C $wt apply /verif/seeded/$n/patch.diff || { git -C /repo worktree remove --force $wt; exit 3; }
VERIF_OUT=/tmp/ws_out VERIF_REPO=$wt PYTHONPATH=$wt:/verif "$@"
rc=$?
git -C /repo worktree remove --force $wt
exit $rc
