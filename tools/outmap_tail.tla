\* Ignored: value fields the reader deliberately does not expose (bootstrapped with the map, reviewed against the
\* transformers' `ignored` lists)
Keys == { <<OutMap[i].f, OutMap[i].r, OutMap[i].p>> : i \in 1..Len(OutMap) }

\* no field is mapped twice; no two fields of one record claim the same scalar leaf slot
ASSUME Cardinality(Keys) = Len(OutMap)
ASSUME \A i, j \in 1..Len(OutMap) :
          (i # j /\ OutMap[i].g = OutMap[j].g /\ OutMap[i].n = OutMap[j].n /\ OutMap[i].ix = OutMap[j].ix
           /\ OutMap[i].c = OutMap[j].c /\ OutMap[i].f = OutMap[j].f)
          => OutMap[i].tr \in {"pp_datetime", "att_time"}
\* a field is either exposed or deliberately not exposed, never both
ASSUME Keys \cap Ignored = {}
=============================================================================
