#!/venv/bin/python
"""Self-validation: run every kept seeded change against the check of its own property (and optional extra ids), in
parallel, each in its own scratch worktree of /repo (VERIF_REPO / VERIF_OUT keep the runs apart; /repo itself and
/verif/evidence are never touched).  Writes seeded/MATRIX.txt and each meta.json's detected_by.

usage: tools/seed_matrix.py [-j N] [--only REGEX] [--extra C06,C11] [--tier quick]"""
import argparse, json, os, re, shutil, subprocess, sys, tempfile
from concurrent.futures import ThreadPoolExecutor

ap = argparse.ArgumentParser()
ap.add_argument("-j", type=int, default=4)
ap.add_argument("--only", default=".")
ap.add_argument("--extra", default="")
ap.add_argument("--tier", default="quick")
a = ap.parse_args()
ROOT = os.path.dirname(os.path.dirname(os.path.abspath(__file__)))
SEED = "/verif/seeded"   # results are always recorded in /verif/seeded; the checks run from ROOT (maybe a snapshot copy)
names = sorted(n for n in os.listdir(SEED) if os.path.isdir(f"{SEED}/{n}") and re.search(a.only, n))


def sh(cmd, **kw):
    return subprocess.run(cmd, shell=True, stdout=subprocess.PIPE, stderr=subprocess.STDOUT, text=True, **kw)


def one(n):
    meta = json.load(open(f"{SEED}/{n}/meta.json"))
    prop = meta["property"]
    if "neutralised" in (meta.get("rechecked") or {}).values():
        # a later fix: commit in /repo closed the hole this change used: its own demonstration passes with the change applied
        return n, prop, ["NEUTRALISED-BY-FIX"], ""
    wt = tempfile.mkdtemp(prefix=f"mx_{n}_"); os.rmdir(wt)
    out = tempfile.mkdtemp(prefix=f"mxout_{n}_")
    det, lines = [], []
    try:
        r = sh(f"git -C /repo worktree add -q --detach {wt} HEAD")
        if r.returncode: return n, prop, ["WORKTREE-FAILED"], r.stdout
        r = sh(f"git -C {wt} apply {SEED}/{n}/patch.diff")
        if r.returncode: return n, prop, ["NOAPPLY"], r.stdout
        for cid in [prop] + [x for x in a.extra.split(",") if x and x != prop]:
            env = dict(os.environ, VERIF_REPO=wt, VERIF_OUT=out, TMPDIR=out)
            r = sh(f"{ROOT}/check {cid} --tier {a.tier}", env=env)
            v = [ln for ln in r.stdout.splitlines() if ln.startswith("VIOLATION property=")]
            if r.returncode == 1 and v:
                det.append(cid)
                lines += r.stdout.splitlines()[-6:]
            elif r.returncode == 2:
                det.append(cid + "(machinery!)")
                lines += r.stdout.splitlines()[-15:]
            elif r.returncode != 0:
                det.append(cid + f"(rc={r.returncode})")
    finally:
        sh(f"git -C /repo worktree remove --force {wt}")
        shutil.rmtree(wt, ignore_errors=True)
        shutil.rmtree(out, ignore_errors=True)
    meta["detected_by"] = det
    json.dump(meta, open(f"{SEED}/{n}/meta.json", "w"), indent=1)
    return n, prop, det, "\n".join(lines)


res = {}
with ThreadPoolExecutor(a.j) as ex:
    for n, prop, det, log in ex.map(one, names):
        print(f"{n} property={prop} detected_by: {' '.join(det)}", flush=True)
        if not det or any("(" in d for d in det):
            print("   " + log.replace("\n", "\n   ")[-1500:], flush=True)
        res[n] = (prop, det)
# merge into MATRIX.txt
mx = {}
p = f"{SEED}/MATRIX.txt"
if os.path.exists(p):
    for ln in open(p):
        if ln.strip():
            mx[ln.split()[0]] = ln.rstrip("\n")
for n, (prop, det) in res.items():
    mx[n] = f"{n} property={prop} detected_by: {' '.join(det)}".rstrip()
open(p, "w").write("\n".join(mx[k] for k in sorted(mx)) + "\n")
missed = [n for n, (p_, d) in res.items() if not any(x == p_ for x in d) and d != ["NEUTRALISED-BY-FIX"]]
print(f"{len(res) - len(missed)}/{len(res)} detected by own property's check; missed: {missed}")
