"""C11 -- reads are bounded and grouped: one request per touched chunk, none outside.

spec    ImageIOEnv.tla is the property (open-time: descriptor first, front to back, <= ceil(n/rpc) requests; load-time:
        <= 1 read per group of rpc lines, only groups overlapping the selected span, confined to the group and the file,
        no foreign file, no leaked handle); TLC checks  ImageIO (Design) => ImageIOEnv  (invariant EnvAccepts).
bind    every open and load is executed on the instrumented vtrace:// filesystem through open_alos2 / DataArray.isel and
        the recorded events are validated by TLC (Trace_ImageIO) against the Envelope; Design mismatches are DRIFT."""
import json
import os
import random

from harness import checklib

IO_CLAUSES = ("descriptor-first", "front-to-back", "meta-request-count", "inside-file", "confined-to-group",
              "group-outside-span", "one-read-per-group", "foreign-file-on-load", "handle-leak")


def adversarial(n, rpc, rnd):
    g = max(1, min(rpc, n))
    sels = [("all",), ("slice", 0, 0, 1), ("list", [0, n - 1]), ("slice", 0, n, g), ("slice", g - 1, n, g),
            ("slice", None, None, -1), ("slice", n - 1, None, -max(1, g - 1)), ("int", 0), ("int", n - 1), ("int", -1),
            ("slice", max(0, g - 1), min(n, g + 1), 1), ("list", sorted(rnd.sample(range(n), min(n, 3)))),
            ("list", [n // 2]), ("slice", 1, n - 1, 2)]
    return sels


def cached_case(case):
    """loads through trees opened FROM AN INDEX with several records_per_chunk values in one process: the grouping must follow the rpc of
    the call that opened the tree (not the one of an earlier open of the same index)"""
    import glob
    import os as _os

    import ceos_alos2

    from harness import imgrun, oracle, product, tracefs

    for f in glob.glob(_os.path.join(_os.environ["XDG_CACHE_HOME"], "**", "*.index"), recursive=True):
        _os.remove(f)
    b = product.build_product(level=case["level"], images=case["images"], seed=case["seed"], pixel_special=False)
    url = imgrun.put_on_fs(b, "vtrace", f"c11c_{case['seed']}")
    out = {"case": case, "loads": []}
    try:
        ceos_alos2.open_alos2(url, backend_options={"create_cache": True, "use_cache": False, "records_per_chunk": case["rpc_w"]})
        for rpc in case["rpcs"]:
            tracefs.take_log()
            tree = ceos_alos2.open_alos2(url, backend_options={"use_cache": True, "records_per_chunk": rpc})
            oev = tracefs.take_log()
            for im in b.images:
                da = tree[f"imagery/{im['group']}/data"]
                for sel in case["sels"]:
                    key, kind, rows = imgrun.rows_of(sel, im["n"])
                    tracefs.take_log()
                    try:
                        vals = da.isel(rows=key).values
                        msg = oracle.pixels_match(vals.reshape(1, -1) if kind == "int" else vals, im, rows=rows)
                        outcome = "equal" if msg is None else "differ"
                    except BaseException as e:  # noqa: B902
                        outcome = "error"
                    out["loads"].append(dict(rpc=rpc, im={k: im[k] for k in ("name", "n", "p", "prefix", "bps")}, rows=rows, kind=kind, outcome=outcome,
                                             events=tracefs.take_log(), reparsed=any(e["e"] == "read" and e["f"] == im["name"] for e in oev)))
    finally:
        imgrun.drop_from_fs(url, "vtrace")
    return out


def body(chk):
    from harness import imgrun, iotrace, tlc
    from harness import layout as L

    gf = os.path.join(chk.scratch, "geoms.json")
    cfg = "MC_ImageIO_quick" if chk.tier == "quick" else "MC_ImageIO_thorough"
    r = tlc.run_ok("MC_ImageIO", cfg, workers=16, env={"GEOMS_FILE": gf}, timeout=3000, coverage=True)
    chk.tlc_stats(r)
    for v in r.violated:
        chk.violation(f"model:{v}", f"TLC: {v} violated: the Design leaves the Envelope", {"tlc": r.out[-3000:]})
    fam = json.load(open(gf))
    rnd = random.Random(chk.seed)
    cases = []
    from checks.C01 import to_sel

    for i, f in enumerate(fam):
        q = f["geom"]
        if q["bps"] == 8 and chk.tier == "quick" and i % 2:
            continue
        kind = "signal" if q["prefix"] == 544 else "processed"
        sample = "C*8" if q["bps"] == 8 else "IU2"
        k = 4 if chk.tier == "quick" else len(f["sels"])
        sels = [to_sel(s) for s in rnd.sample(f["sels"], min(k, len(f["sels"])))] + [("int", 0), ("list", [0, q["n"] - 1])]
        cases.append(dict(kind=kind, sample=sample, images=[("HH", None, q["n"], q["p"])], rpc=q["rpc"], seed=chk.seed + i,
                          fss=["vtrace"], sels=sels, origin="tlc", special=False))
    geoms = [(40, 3), (17, 5)] if chk.tier == "quick" else [(40, 3), (17, 5), (64, 2), (100, 1), (1, 9), (7, 7)]
    for n, p in geoms:
        rpcs = sorted({1, 2, 3, 7, 8, 13, n - 1, n, n + 1, 1000, 33, 64} - {0}) if chk.tier == "quick" else list(range(1, n + 2)) + [10**6]
        for rpc in rpcs:
            for lvl in (("processed", "IU2"), ("signal", "C*8")):
                cases.append(dict(kind=lvl[0], sample=lvl[1], images=[("HV", "B2", n, p)], rpc=rpc, seed=chk.seed + 500 + rpc,
                                  fss=["vtrace"], sels=adversarial(n, rpc, rnd), origin="adversarial", special=False))
    # several images in one product: loading one must not touch the others (nor LED / VOL / summary)
    for rpc in (1, 3, 1024):
        cases.append(dict(level="1.5", images=[("HH", None, 6, 3), ("HV", None, 6, 3), ("VV", "F1", 4, 2)], rpc=rpc,
                          seed=chk.seed + 900 + rpc, fss=["vtrace"], sels=[("all",), ("slice", 1, 5, 2)], origin="multi", special=False))
    # ScanSAR: one image per scan, every scan with its own number of lines (fewer AND more than the request size, in any order): the
    # request size of one image is not what an earlier image of the product was clipped to
    for j, rpc in enumerate((4, 8, 1024)):
        cases.append(dict(level="1.1", images=[("HH", "F1", 3, 2), ("HH", "F2", 9, 2), ("HH", "F3", 5, 2), ("HH", "F4", 14, 2)], rpc=rpc,
                          seed=chk.seed + 940 + j, fss=["vtrace"], sels=[("all",), ("slice", 0, 8, 1), ("slice", 1, 5, 2)], origin="scansar-geometries", special=False))
    for j, rpc in enumerate((4, 3, 1024)):
        cases.append(dict(level=("1.5", "1.1")[j % 2], images=[("HH", None, 12, 5), ("HV", None, 15, 4)], rpc=rpc, seed=chk.seed + 920 + j, fss=["vtrace"], close_first=True,
                          sels=[("slice", 4, 8, 1), ("all",), ("int", 2), ("slice", 0, 12, 5)], origin="loads-after-tree.close()", special=False))
    # request sizes given as BYTE sizes ("600 B", "40 kB", "auto"): refused by an implementation that only takes line counts -- but one that
    # takes them has fixed a number of lines per group (it advertises it), and opening / loading keep to THAT number
    for j, (n, p, size) in enumerate(((14, 5, "600 B"), (14, 5, "70 B"), (30, 2000, "40 kB"), (30, 2000, "42 kB"), (12, 3, "auto"), (30, 2000, "1 MiB"))):
        cases.append(dict(level="1.5", images=[("HH", None, n, p)], rpc=size, seed=chk.seed + 930 + j, fss=["vtrace"], sels=[("all",), ("slice", 0, 8, 1), ("int", 3)],
                          origin="byte-size-request", special=False, may_reject=True))
    cases.append(dict(level="1.1", images=[("HH", "F1", 5, 2), ("HH", "F2", 5, 2)], rpc=None, seed=chk.seed + 950, fss=["vtrace"],
                      sels=[("all",)], origin="default-options", special=False))
    # pointwise (vectorised) selections: several points on lines of the SAME group are still one request for that group; and trees
    # that reach the loading code through a copy keep the grouping they were opened with
    for j, rpc in enumerate((4, 3, 1024)):
        cases.append(dict(level="1.5", images=[("HH", None, 12, 4)], rpc=rpc, seed=chk.seed + 860 + j, fss=["vtrace"], origin="pointwise", special=False,
                          sels=[("points", [0, 1, 2, 9], [0, 3, 1, 2]), ("points", [5, 5, 6], [1, 2, 0]), ("points", [11, 0], [0, 0]), ("points", [2, 3, 2, 3], [0, 1, 2, 3])]))
    for j, how in enumerate(("pickle", "deepcopy", "tree.copy")):
        cases.append(dict(level=("1.5", "1.1")[j % 2], images=[("HH", None, 12, 3), ("HV", None, 7, 2)], rpc=(4, 3, 2)[j], seed=chk.seed + 870 + j, fss=["vtrace"],
                          origin=f"via-{how}", special=False, via_copy=how, sels=[("slice", 2, 7, 1), ("all",), ("list", [0, 6]), ("int", 5)]))
    # a block-by-block walk over one opened variable (each load starts where the previous one stopped, on group boundaries and off them):
    # every load is judged on its own -- nothing is fetched for the NEXT load
    for j, (n, rpc, step) in enumerate(((22, 4, 4), (22, 4, 2), (17, 3, 6), (22, 1024, 5))):
        cases.append(dict(level=("1.5", "1.1")[j % 2], images=[("HH", None, n, 3)], rpc=rpc, seed=chk.seed + 880 + j, fss=["vtrace"], origin="block-walk", special=False,
                          sels=[("slice", a, min(n, a + step), 1) for a in range(0, n, step)] + [("slice", 0, step, 1)]))
    # transient faults (a read that fails once with an I/O error, with or without having moved the position): the load may raise or
    # must be right, and groups already delivered are not requested again
    for j, (nth, consume) in enumerate([(1, 0.0), (1, 0.5), (2, 0.5), (3, 0.0), (3, 0.5), (4, 1.0)]):
        for lvl in (("processed", "IU2"), ("signal", "C*8")):
            cases.append(dict(kind=lvl[0], sample=lvl[1], images=[("HV", "B2", 17, 5)], rpc=3, seed=chk.seed + 800 + j, fss=["vtrace"],
                              sels=[("all",), ("slice", 2, 14, 1), ("slice", 0, 17, 4), ("list", [1, 8, 16])], origin="transient-fault", special=False,
                              flaky_load=dict(nth=nth, consume=consume)))
    # size relations: a group of records_per_chunk lines is ONE request however many bytes that is (2^24 .. 2^28 here): line records
    # of ~1 MB, default / exact / small rpc (the arithmetic of the spec is over unbounded integers; this binds it at the sizes where
    # an implementation's request-size assumptions bite)
    big = [(18, 494904, None), (70, 494904, None), (70, 494904, 70), (70, 494904, 7)]
    if chk.tier == "thorough":
        big += [(140, 494904, None), (280, 494904, 1024), (280, 494904, 100)]
    for j, (n, p, rpc) in enumerate(big):
        cases.append(dict(level="1.5", big=True, images=[("HH", None, n, p)], rpc=rpc, seed=chk.seed + 970 + j, fss=["vtrace"],
                          sels=[("slice", 3, 5, 1), ("int", 0), ("list", [0, n - 1]), ("slice", 0, n, max(1, n // 3))], origin="big-records", special=False))
    # the CALLER's process runs under an address-space limit (`ulimit -v 4194304`): no request fails, nothing about the product or the
    # options differs -- a group of lines is still one request (ImageIOEnv has no process state: the envelope is a function of geometry,
    # rpc and selection alone)
    for j, (n, p, rpc) in enumerate([(100, 494904, None), (100, 494904, 50)] + ([(140, 494904, 1024)] if chk.tier == "thorough" else [])):
        cases.append(dict(level="1.5", big=True, images=[("HH", None, n, p)], rpc=rpc, seed=chk.seed + 980 + j, fss=["vtrace"], as_limit=4 << 30,
                          sels=[("slice", 3, 5, 1), ("int", 0), ("list", [0, n - 1]), ("slice", 0, n, max(1, n // 3))], origin="address-space-limit", special=False))
    L.tables()
    want = [dict(L.SMALL_LEADER), dict(L.SMALL_LEADER, nmap=0), dict(file="volume", nfp=3), dict(file="volume", nfp=5),
            dict(file="volume", nfp=4), dict(file="trailer", nlow=0, lens=[])]
    want.append(dict(file="image", kind="processed", n=1, ndata=2, bps=2))
    for c in cases:
        for (_, _, n, p) in c["images"]:
            smp = c.get("sample") or ("C*8" if c.get("level") == "1.1" else "IU2")
            knd = c.get("kind") or ("signal" if c.get("level") == "1.1" else "processed")
            bps = 8 if smp == "C*8" else 2
            want.append(dict(file="image", kind=knd, n=n, ndata=p * bps, bps=bps))
    L.instances(want)
    results = checklib.pmap(imgrun.exercise, cases, chk.scratch, chunksize=2)
    batch = iotrace.TraceBatch(os.path.join(chk.scratch, "c11.ndjson"))
    tid_case = {}
    nloads = 0
    for res in results:
        c = res["case"]
        if c.get("as_limit") and not res.get("as_limit_applied"):
            chk.note(f"address-space limit of {c['as_limit']} bytes NOT applied for seed {c['seed']} (the worker's address space left no head room): the case ran unlimited")
        if c.get("may_reject"):   # spellings of the request size that an implementation may refuse: nothing to judge then
            res["runs"] = [run for run in res["runs"] if run["open"] == "ok"]
        for run in res["runs"]:
            if run["open"] != "ok":
                raise checklib.Machinery(f"well-formed product did not open in the C11 driver: {run['open']} {run.get('open_msg')}")
            for im in run["images"]:
                for ld in im["loads"]:
                    nloads += 1
                    chk.count(1, f"{im['n']}x{im['p']}:{c.get('rpc')}:{ld['sel']}")
        for tid in imgrun.add_traces(batch, res):
            tid_case[tid] = c
    ccases = [dict(level=lv, images=[("HH", None, 12, 3), ("HV", None, 9, 2)], seed=chk.seed + 990 + i, rpc_w=rw, rpcs=rpcs,
                   sels=[("slice", 6, 12, 1), ("all",), ("list", [0, 8]), ("int", 5)])
              for i, (lv, rw, rpcs) in enumerate([("1.5", 4, [4, 6, 3, 12]), ("1.1", 1024, [5, 2, 1024, 4]), ("1.5", 2, [7, 2])])]
    cached_tids = set()
    for cres in checklib.pmap(cached_case, ccases, chk.scratch):
        for ld in cres["loads"]:
            im = ld["im"]
            tid = batch.start(iotrace.geom_of(im, min(int(ld["rpc"]), im["n"] + 1)), meta=None)
            cached_tids.add(tid)
            tid_case[tid] = dict(cres["case"], origin="opened-from-index", rpc=ld["rpc"])
            batch.mark(tid, e="begin_load", rows=ld["rows"], kind=ld["kind"], brows=iotrace.backend_rows(ld["kind"], ld["rows"], im["n"]))
            for ev in ld["events"]:
                batch.event(tid, ev, im["name"])
            batch.mark(tid, e="loaded", outcome=ld["outcome"])
            nloads += 1
            chk.count(1, f"cached:{im['n']}x{im['p']}:{ld['rpc']}:{ld['rows']}")
    verdicts, tr = batch.validate()
    chk.tlc_stats(tr)
    chk.traces(len(verdicts))
    drift = 0
    for tid, v in verdicts.items():
        c = tid_case[tid]
        if v["drift"] and tid not in cached_tids:  # (the Design models an uncached open: load-only traces are judged by the Envelope alone)
            drift += 1
        if v["status"] == "rejected" and v["clause"].startswith(IO_CLAUSES):
            lines = batch.lines[tid]
            ev = lines[v["line"] - sum(len(batch.lines[t]) for t in batch.lines if t < tid) - 1] if True else None
            chk.violation(f"io:{v['clause']}:{c['origin']}:{[i[2:] for i in c['images']]}:rpc={c.get('rpc')}",
                          f"trace rejected, clause {v['clause']} at event {ev}", {"case": c, "trace": lines, "verdict": v})
    for tid in list(verdicts)[:3]:
        chk.sample({"geometry": batch.lines[tid][0], "events": batch.lines[tid][1:14], "verdict": verdicts[tid]})
    if drift:
        chk.note(f"DRIFT: {drift} of {len(verdicts)} traces contain an event the Design model cannot explain "
                 "(the code's request pattern changed shape but stays inside the property's envelope)")
    # binding demonstrations: corrupted traces must be rejected with the right clause
    base_tid = next(t for t in batch.lines if sum(1 for e in batch.lines[t] if e.get("e") == "read") >= 4)
    base = batch.lines[base_tid]

    def mutate(fn):
        nb = iotrace.TraceBatch(os.path.join(chk.scratch, "neg.ndjson"))
        t = nb.start({k: base[0][k] for k in ("n", "p", "prefix", "bps", "rpc", "flen")})
        for ev in fn([dict(e) for e in base[1:]]):
            nb._w(t, ev)
        v, _ = nb.validate()
        return v[1]

    def dup_load_read(evs):
        out, done, loading = [], False, False
        for e in evs:
            out.append(e)
            loading = loading or e["e"] == "begin_load"
            if loading and e["e"] == "read" and not done:
                out.append(dict(e))
                done = True
        return out

    def foreign(evs):
        out, loading = [], False
        for e in evs:
            loading = loading or e["e"] == "begin_load"
            if loading and e["e"] == "fopen":
                out.append({"e": "cat", "f": "LED-x", "got": 10})
            out.append(e)
        return out

    def drop_close(evs):
        idx = max(i for i, e in enumerate(evs) if e["e"] == "fclose")
        return evs[:idx] + evs[idx + 1:]

    def shift_read(evs):
        loading = False
        for e in evs:
            loading = loading or e["e"] == "begin_load"
            if loading and e["e"] == "read":
                e["req"] += 10**6
                break
        return evs

    controls = {"one-read-per-group": dup_load_read, "foreign-file-on-load": foreign, "handle-leak": drop_close,
                "inside-file": shift_read}
    for want_clause, fn in controls.items():
        v = mutate(fn)
        if v["status"] != "rejected" or not any(v["clause"].startswith(w) for w in want_clause.split("|")):
            raise checklib.Machinery(f"negative control for {want_clause} not rejected as expected: {v}")
    chk.assumptions += [
        "records_per_chunk above the line count is clamped to n+1 in the trace header (same groups: one group = the file)",
        "an open-time REQUEST that extends past the end of the file (served short) is not a violation of the statement "
        "as written (count and order are what it fixes); such a pattern surfaces as DRIFT",
        "xarray's decomposition of array / negative-step indexers into backend slices is exercised, not modelled",
    ]
    from harness import tlaps

    tlaps.prove(chk)
    chk.finish(
        rule="traces = one per (image, open + its loads) on vtrace://; selections: TLC-enumerated row progressions, first+last "
             "row, one row per group, strides across group borders, empty, full, reversed, integers, arrays; rpc from 1 to "
             "beyond the line count; distinct = distinct (geometry, rpc, selection); non-trivial = all (each issues I/O or "
             "must issue none)",
        exhaustive=False,
        extra={"loads": nloads, "controls_rejected": len(controls), "drift": drift},
    )


if __name__ == "__main__":
    checklib.main(body, "C11")
