"""C08 -- cache codec exactness: every value survives the JSON index bit-exactly.

spec    Codec.tla: the index as an algebra (tuple tagging through the JSON object hook, nested attribute lists / tuples,
        datetime arrays as reference + offsets with NaT, shapes 0-d..2-d); TLC enumerates every abstract value of the bounded
        family and checks RoundTrip and TuplesStayTuples; MC_Codec_bug (reference = first element, 1-d only) must FAIL.
bind    (i) per value class, concrete EXTREME representatives (int64 min/max, uint64 > 2^53, float NaN / +-inf / -0.0 / subnormal /
        float32, bool, datetime64[ns] with sub-microsecond digits and far-apart elements, NaT, timedelta64, non-ASCII unit
        strings, nested tuples in lists in attrs, 0-d / empty / 1-d / 2-d, list-typed data as the reader produces it, backend
        arrays with byte ranges) are encoded in one process; the TEXT is handed to a FRESH process, decoded there and compared
        bit for bit (dtype incl. unit, shape, bytes, tuples stay tuples, variable order, group paths, byte ranges / shape / type
        code of the image array); the document must be self-contained text (json.loads succeeds, pure ASCII/UTF-8);
        (ii) every image group the reader produces for products under the value plans of C03 (all field values pushed to
        extremes) is round-tripped the same way and compared at the xarray level too."""
import json
import os
import subprocess
import sys
import tempfile

from harness import checklib


def representatives(seed):
    import numpy as np

    from ceos_alos2.array import Array
    from ceos_alos2.hierarchy import Group, Variable
    from fsspec.implementations.dirfs import DirFileSystem
    import fsspec

    V = Variable
    out = {}
    dt = lambda s, u="ns": np.array(s, dtype=f"datetime64[{u}]")  # noqa: E731
    arrs = {
        "b-1d": np.array([True, False, True]), "b-0d": np.array(True), "b-2d": np.array([[True], [False]]), "b-empty": np.array([], dtype=bool),
        # lengths around the byte / word sizes a packed encoding would use
        **{f"b-len{n}": (np.arange(n) % 3 == 0) for n in (7, 8, 9, 15, 16, 17, 24, 64, 65)}, "b-len8-alltrue": np.ones(8, dtype=bool), "b-2d-4x4": (np.arange(16).reshape(4, 4) % 2 == 0),
        "i8-1d": np.array([-128, 127], dtype="int8"), "i64-ext": np.array([-2**63, 2**63 - 1, 0], dtype="int64"), "i-0d": np.array(-7),
        "i-2d": np.arange(6, dtype="int32").reshape(2, 3), "i-empty": np.array([], dtype="int64"),
        "u64-ext": np.array([2**64 - 1, 2**53 + 1, 0], dtype="uint64"), "u16": np.array([0, 65535], dtype="uint16"), "u-0d": np.array(4294967295, dtype="uint32"),
        "f-special": np.array([np.nan, np.inf, -np.inf, -0.0, 5e-324, 1.7976931348623157e308, 0.1]), "f32": np.array([np.nan, 1e-45, 3.4028235e38, -0.0, 0.1], dtype="float32"),
        "f16": np.array([0.5, -2.0], dtype="float16"), "f-0d": np.array(1.5), "f-2d": np.array([[0.1, 0.2], [np.nan, -0.0]]), "f-empty": np.array([], dtype="float64"),
        "M-ns": dt(["2020-02-29T23:59:59.123456789", "2014-01-01T00:00:00.000000001", "2049-12-31T23:59:59.999999999"]),
        "M-far": dt(["1970-01-01", "2262-04-11T23:47:16.854775807", "1677-09-22"]), "M-us": dt(["2020-01-01T00:00:00.000001", "2049-12-31T23:59:59.999999"], "us"),
        "M-s": dt(["1997-05-27T00:00:00", "1997-05-27T00:02:00"], "s"), "M-D": dt(["2020-02-29", "2020-03-01"], "D"),
        "M-0d": dt("2020-02-29T23:59:59.123456789"), "M-empty": np.array([], dtype="datetime64[ns]"),
        "M-2d": dt([["2020-01-01", "2021-01-01"], ["1999-01-01", "2030-06-30"]]), "M-one": dt(["2016-12-31T23:59:59.999"]),
        "M-nat-first": dt(["NaT", "2020-01-01"]), "M-nat-later": dt(["2020-01-01", "NaT", "2020-01-02"]), "M-all-nat": dt(["NaT", "NaT"]),
        "m-ns": np.array([1, -5, 2**62, 0], dtype="timedelta64[ns]"), "m-s": np.array([86399, 0], dtype="timedelta64[s]"), "m-0d": np.array(5, dtype="timedelta64[ms]"),
        "m-2d": np.array([[1, 2], [3, 4]], dtype="timedelta64[us]"), "m-empty": np.array([], dtype="timedelta64[ns]"), "m-nat": np.array(["NaT", 3], dtype="timedelta64[ns]"),
        "U-nonascii": np.array(["µs", "φ", "", "a b", "Hz/µs^2", "σ⁰"]), "U-0d": np.array("deg"), "U-2d": np.array([["a", "bc"], ["", "d"]]), "U-empty": np.array([], dtype="<U1"),
    }
    # per-line columns as long as the images of real scenes (thousands of lines: an encoder may treat long columns differently), around the
    # sizes 2^8 / 2^12 / 2^16: times running backwards from the first line (all offsets negative) and forwards, NaT inside, integers
    # with a negative minimum and a small maximum, wide integers, floats, booleans
    t0 = np.datetime64("2019-07-01T10:20:30.123456789", "ns")
    for n in (255, 256, 257, 4095, 4096, 4097, 5000, 65536, 65537):
        k_ = np.arange(n, dtype="int64")
        arrs[f"M-backwards-{n}"] = t0 - (k_ * 400123).astype("timedelta64[ns]")
        arrs[f"M-forwards-{n}"] = t0 + (k_ * 400123).astype("timedelta64[ns]")
        zig = t0 + ((k_ % 7 - 3) * 1000000007).astype("timedelta64[ns]")
        zig[n // 2] = np.datetime64("NaT")
        arrs[f"M-zigzag-nat-{n}"] = zig
        arrs[f"i-neg-smallmax-{n}"] = -(k_ % 300)
        arrs[f"i-wide-{n}"] = (k_ - n // 2) * (2**40 + 1)
        arrs[f"u-byte-{n}"] = (k_ % 256).astype("uint16")
        arrs[f"f-{n}"] = np.where(k_ % 5 == 0, np.nan, (k_ - 7) / 3.0)
        arrs[f"b-{n}"] = (k_ % 3 == 0)
        arrs[f"m-neg-{n}"] = (-(k_ % 129) * 7).astype("timedelta64[ns]")
    # long columns with few runs (an encoder may store runs): zeros whose SIGN changes between runs, NaN runs, equal-comparing ints of bool
    for n in (64, 96, 300):
        k_ = np.arange(n)
        arrs[f"f-signed-zero-runs-{n}"] = np.where((k_ // 10) % 2 == 0, 0.0, -0.0)
        arrs[f"f-nan-runs-{n}"] = np.where((k_ // 7) % 3 == 0, np.nan, 1.5)
        arrs[f"f-zero-one-{n}"] = np.where((k_ // 9) % 2 == 0, -0.0, 1.0)
    # dtypes whose unit carries a multiplier (timedelta64[500us], datetime64[10ms])
    arrs["m-500us"] = np.array([1, 2, 3, 7], dtype="timedelta64[500us]")
    arrs["m-25ns-nat"] = np.array([5, "NaT", -3], dtype="timedelta64[25ns]")
    # a regular grid of times (a PRF of exactly 1 kHz / 1 MHz / 1 Hz: every difference a multiple of a coarser unit) whose FIRST time is not
    for n in (16, 17, 300):
        k_ = np.arange(n, dtype="int64")
        for unit, step in (("ms", 10**6), ("us", 10**3), ("s", 10**9), ("2ms", 2 * 10**6)):
            arrs[f"M-grid-{unit}-{n}"] = t0 + (k_ * step).astype("timedelta64[ns]")
            arrs[f"m-grid-{unit}-{n}"] = (137 + k_ * step).astype("timedelta64[ns]")
    for k, a in arrs.items():
        dims = ["x", "y"][: a.ndim]
        out[f"array:{k}"] = V(dims, a, {"units": "µs"})
    lists = {"list-int": [1, 2, 3], "list-float": [0.1, float("nan"), -0.0], "list-str": ["horizontal", "vertical"], "list-bool": [True, False],
             "list-2d": [[1 + 0, 2], [3, 4]], "list-big": [2**40, -2**40],
             # the type of a list is decided by ALL its entries: a narrower first entry / first row must not decide it
             "list-int-then-float": [1, 1.25, 1.5, 2, 2.75, 3], "list-bool-then-int": [True, 2, 3], "list-2d-int-row-then-float-row": [[1, 2], [3.5, 4.25]],
             "list-small-then-big": [1, 2**40], "list-int-then-nan": [1, float("nan")]}
    for k, l in lists.items():
        out[f"listdata:{k}"] = V(["x", "y"][: np.asarray(l).ndim], l, {})
    attrs = {
        "scalars": {"i": 5, "big": 2**70, "neg": -2**63, "f": 0.1, "nan": float("nan"), "inf": float("inf"), "ninf": float("-inf"), "nz": -0.0, "t": True, "fl": False,
                    "s": "plain", "u": "µ φ σ⁰ ²", "e": ""},
        "nested": {"l": [1, [2, [3, [4]]], "x"], "t": (1, 2), "tt": ((1, 2), (3,), ()), "lt": [(1, 2), [3, (4, (5,))]], "el": [], "et": (), "mixed": [1.5, "a", True, (None,)]},
        "valid_range": {"valid_range": [0, 65535], "coordinates": ["rows", "prf"], "formula": "θ = a0 + a1*R", "none": None},
    }
    for k, a in attrs.items():
        out[f"attrs:{k}"] = V(["x"], np.array([1]), a)
    fs = DirFileSystem(fs=fsspec.filesystem("memory"), path="/prod")
    for k, (shape, dtype, tc, ranges) in {"iu2": ((3, 4), "uint16", "IU2", [(912, 920), (1112, 1120), (1312, 1320)]),
                                           "c8": ((2, 1), "complex64", "C*8", [(1264, 1272), (1816, 1824)]),
                                           "big": ((2, 3), "uint16", "IU2", [(2**40, 2**40 + 6), (2**41, 2**41 + 6)])}.items():
        out[f"backend:{k}"] = V(["rows", "columns"], Array(fs=fs, url="IMG-HH-X", byte_ranges=ranges, shape=shape, dtype=dtype, type_code=tc, records_per_chunk=2), {})
    # hierarchies: nesting, order, paths
    g = Group(path="/", url="memory:///prod", data={
        "z": out["array:M-ns"], "a": out["array:f-special"], "sub": Group(path=None, url=None, data={"y": out["array:U-nonascii"], "x": out["listdata:list-int"],
                                                                                                    "deep": Group(path=None, url=None, data={}, attrs={"t": (1, (2,))})},
                                                                      attrs={"k": [1, (2, 3)]}),
        "data": out["backend:iu2"]}, attrs={"coordinates": ["z", "a"], "scan_id": 4294967295})
    out["hierarchy:nested"] = g
    out["hierarchy:empty"] = Group(path="HH_scan1", url=None, data={}, attrs={})
    return out


def roundtrip(items, rpc=2):
    """items: {name: object} -> {name: (status, message)}: encode here, decode in a FRESH process, compare canonical forms"""
    import tempfile

    from ceos_alos2.hierarchy import Group
    from ceos_alos2.sar_image import caching

    from harness import codeccanon

    res = {}
    docs = []
    want = {}
    for name, obj in items.items():
        g = obj if isinstance(obj, Group) else Group(path="/", url=None, data={"v": obj}, attrs={})
        try:
            text = caching.encode(g)
        except BaseException as e:  # noqa: B902
            res[name] = ("encode-raises", f"{type(e).__name__}: {str(e)[:160]}")
            continue
        try:
            json.loads(text)
            text.encode("utf-8")
        except Exception as e:
            res[name] = ("not-self-contained", f"{type(e).__name__}: {e}")
            continue
        docs.append([name, text, rpc])
        c = codeccanon.canon(g)
        # the decoded backend array is rebuilt with the reading call's rpc; compare modulo that
        want[name] = c
    d = tempfile.mkdtemp(dir=checklib.worker_dir())
    fin, fout = os.path.join(d, "in.json"), os.path.join(d, "out.json")
    json.dump(docs, open(fin, "w"))
    env = dict(os.environ, PYTHONWARNINGS="ignore")
    p = subprocess.run([sys.executable, "-W", "ignore", "-c", codeccanon.DECODE_CHILD, fin, fout], env=env, stdout=subprocess.PIPE, stderr=subprocess.STDOUT, text=True)
    if p.returncode != 0:
        raise checklib.Machinery("decode child failed:\n" + p.stdout[-1500:])
    for name, status, got in json.load(open(fout)):
        if status != "ok":
            res[name] = ("decode-raises", got)
            continue
        w = json.loads(json.dumps(want[name]))
        diffs = codeccanon.differences(w, got)
        res[name] = ("ok", "") if not diffs else ("differs", "; ".join(diffs[:3]))
    return res


def rep_task(task):
    return roundtrip(representatives(task["seed"]))


def group_task(case):
    """image groups the real reader produces under a value plan -> round trip + xarray-level identity"""
    import ceos_alos2  # noqa: F401
    import fsspec

    from ceos_alos2 import sar_image
    from ceos_alos2.sar_image import caching
    from ceos_alos2.xarray import to_dataset

    from harness import imgrun, plans, product, project
    from harness import layout as L

    plan = plans.make_plan(case["k"], case["seed"], L.tables()) if case.get("k") is not None else None
    b = product.build_product(level=case["level"], images=case["images"], seed=case["seed"], plan=plan, drift=case.get("drift", 0))
    url = imgrun.put_on_fs(b, "local", f"c08_{case['seed']}_{case['k']}")
    out = {"case": case, "res": {}}
    try:
        mapper = fsspec.get_mapper(url)
        items = {}
        for im in b.images:
            g = sar_image.open_image(mapper, im["name"], use_cache=False, records_per_chunk=2)
            items[im["group"]] = g
        rt = roundtrip(items)
        for im in b.images:
            st, msg = rt[im["group"]]
            if st == "ok":
                # xarray level: identical datasets
                g = items[im["group"]]
                d2 = caching.decode(caching.encode(g), records_per_chunk=2)
                d2 = sar_image.with_filesystem(d2, g["data"].data.fs) if hasattr(sar_image, "with_filesystem") else d2
                import xarray as xr

                class _T:
                    pass

                a = xr.DataTree.from_dict({"/": to_dataset(g)})
                bb = xr.DataTree.from_dict({"/": to_dataset(d2)})
                dd = project.diff(project.fingerprint(a), project.fingerprint(bb))
                if dd:
                    st, msg = "xarray-differs", "; ".join(dd[:3])
            out["res"][f"{case['level']}:{im['group']}"] = (st, msg)
    finally:
        imgrun.drop_from_fs(url, "local")
    return out


TRANSPORT_CHILD = r"""
import json, sys
import ceos_alos2
from harness import project
mode, url, out = sys.argv[1:4]
try:
    if mode == "write":
        ceos_alos2.open_alos2(url, backend_options={"create_cache": True, "use_cache": False, "records_per_chunk": 3})
        res = ["ok", None]
    elif mode == "cli":
        import os
        from harness import cacherun
        rcs = [cacherun.run_cli(os.path.join(url, n), 5) for n in sorted(os.listdir(url)) if n.startswith("IMG-") and not n.endswith(".index")]
        res = ["ok" if all(rc == 0 for rc in rcs) else "error", str(rcs)]
    else:
        opts = {"use_cache": mode == "read", "records_per_chunk": 2}
        res = ["ok", project.fingerprint(ceos_alos2.open_alos2(url, backend_options=opts))]
except BaseException as e:
    res = ["error", f"{type(e).__name__}: {str(e)[:200]}"]
json.dump(res, open(out, "w"))
"""
LOCALES = {"utf8": {"PYTHONUTF8": "1"}, "C": {"LC_ALL": "C", "LANG": "C", "PYTHONUTF8": "0", "PYTHONCOERCECLOCALE": "0"}}


def transport_task(task):
    """the index as a FILE between processes whose locale encodings differ: written by one process (create_cache=True or the CLI),
    read by a fresh one (default options) -- "self-contained text that a fresh process can decode" """
    from harness import imgrun, product

    b = product.build_product(level="1.1", images=(("HH", "F1", 3, 2), ("HH", "F2", 2, 2)), seed=task["seed"])  # carries the units Hz/µs
    url = imgrun.put_on_fs(b, "local", f"c08t_{task['seed']}")
    d = tempfile.mkdtemp(dir=checklib.worker_dir())
    xdg = os.path.join(d, "xdg")
    os.makedirs(xdg)

    def child(mode, loc):
        out = os.path.join(d, f"{mode}.json")
        env = {k: v for k, v in checklib.worker_env(xdg).items() if k not in ("LC_ALL", "LC_CTYPE", "LANG", "LANGUAGE", "PYTHONUTF8", "PYTHONCOERCECLOCALE", "PYTHONIOENCODING")}
        env.update(LOCALES[loc])
        p = subprocess.run([sys.executable, "-W", "ignore", "-c", TRANSPORT_CHILD, mode, url, out], env=env, stdout=subprocess.PIPE, stderr=subprocess.STDOUT, text=True)
        if not os.path.exists(out):
            raise checklib.Machinery(f"transport child {mode}/{loc} died:\n" + p.stdout[-1500:])
        return json.load(open(out))

    res = {"task": task, "bad": []}
    try:
        ref = child("reference", "utf8")
        if ref[0] != "ok":
            raise checklib.Machinery(f"reference open failed: {ref[1]}")
        w = child(task["producer"], task["writer"])
        if w[0] != "ok":
            res["bad"].append(("write-failed", f"{task['producer']} under locale {task['writer']}: {w[1]}"))
            return res
        r = child("read", task["reader"])
        if r[0] != "ok":
            res["bad"].append(("read-failed", f"index written under locale {task['writer']} ({task['producer']}), default open under locale {task['reader']}: {r[1]}"))
            return res
        from harness import project

        dd = project.diff(ref[1], r[1])
        if dd:
            res["bad"].append(("differs", f"index written under {task['writer']}, read under {task['reader']}: {dd[:3]}"))
    finally:
        imgrun.drop_from_fs(url, "local")
    return res


def body(chk):
    from checks import _layoutcommon as lc
    from harness import plans, tlc

    r = tlc.run_ok("Codec", "MC_Codec", workers=16, coverage=True)
    chk.tlc_stats(r)
    for v in r.violated:
        chk.violation(f"model:{v}", f"TLC: {v} violated in Codec", {"tlc": r.out[-3000:]})
    rb = tlc.run("Codec", "MC_Codec_bug", workers=8)
    if "RoundTrip" not in rb.violated:
        raise checklib.Machinery("non-vacuity: the Codec model with reference = first element should lose NaT-first / 0-d / empty arrays")
    reps = checklib.pmap(rep_task, [dict(seed=chk.seed)], chk.scratch, procs=1)[0]
    for name, (st, msg) in sorted(reps.items()):
        chk.count(1, name)
        if st != "ok":
            cls = name.split(":")[0] + ":" + name.split(":")[1].split("-")[0]
            chk.violation(f"codec:{st}:{name}", f"{name}: {st}: {msg}", {"representative": name})
    cases = []
    K = len(plans.CLASSES)
    for k in (range(K) if chk.tier == "thorough" else (0, 3, 6, 9)):
        for level in ("1.5", "1.1"):
            cases.append(dict(level=level, images=(("HH", None, 3, 2), ("HV", "F1", 1, 1)), seed=chk.seed + k, k=k))
    for k, imgs in ((1, (("HH", None, 8, 1), ("HV", "F1", 16, 2))), (2, (("VV", None, 24, 1), ("VH", None, 7, 1)))):  # line counts at byte / word boundaries
        cases.append(dict(level="1.1", images=imgs, seed=chk.seed + 30 + k, k=k))
    # per-line columns an index might be tempted to compress: constant, slow ramp, plateaus that return to an earlier value, a ramp
    # regular except at one line -- every entry must come back as written
    for d in (1, 2, 3, 4):
        cases.append(dict(level=("1.5", "1.1")[d % 2], images=(("HH", None, 20, 1), ("HV", None, 12, 1)), seed=chk.seed + 60 + d, k=None, drift=d))
    lc.prepare_layouts(cases)
    gres = checklib.pmap(group_task, cases, chk.scratch)
    ng = 0
    for res in gres:
        for name, (st, msg) in res["res"].items():
            ng += 1
            chk.count(1, f"group:{name}:plan{res['case']['k']}")
            if st != "ok":
                chk.violation(f"codec-group:{st}:{name.split(':')[0]}", f"image group {name} under plan {res['case']['k']}: {st}: {msg}", {"case": res["case"]})
    ttasks = [dict(seed=chk.seed + 40 + i, producer=pr, writer=w, reader=rd) for i, (pr, w, rd) in enumerate(
        (pr, w, rd) for pr in ("write", "cli") for w in ("utf8", "C") for rd in ("utf8", "C"))]
    lc.prepare_layouts([dict(level="1.1", images=(("HH", "F1", 3, 2), ("HH", "F2", 2, 2)))])
    for res in checklib.pmap(transport_task, ttasks, chk.scratch):
        t = res["task"]
        chk.count(1, f"transport:{t['producer']}:{t['writer']}->{t['reader']}")
        for what, msg in res["bad"]:
            chk.violation(f"transport:{what}:{t['producer']}:{t['writer']}->{t['reader']}", msg, {"task": t})
    chk.traces(len(reps) + ng + len(ttasks))
    chk.sample({"representatives": sorted(reps)[:10], "outcomes": {k: v[0] for k, v in list(sorted(reps.items()))[:10]}})
    chk.assumptions += ["supported dtype kinds are b, i, u, f, M, m, U (complex is not in the property's list)",
                        "the decoded image array is rebuilt with the reading call's records_per_chunk and filesystem; everything else must be bit-identical",
                        "transport: the index file written by one process and read by a fresh one under UTF-8 and plain C (ASCII) locale encodings, both producers",
                        "the spec decides the structural cases (tagging, nesting, reference/offset arithmetic with NaT, shapes); digit exactness is decided by "
                        "the byte-level comparison on extreme representatives"]
    from harness import sessioncheck

    sessioncheck.standard(chk)
    chk.finish(rule="representatives = one or more extreme concrete values per (dtype kind, shape class, NaT class) + nested attribute shapes + backend "
                    "arrays + nested hierarchies, decoded in a fresh process; + every image group of products under rotating value plans; distinct = names",
               exhaustive=False, extra={"representatives": len(reps), "image_groups": ng})


if __name__ == "__main__":
    checklib.main(body, "C08")
