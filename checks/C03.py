"""C03 -- per-line and header image metadata equal what each file record encodes.

spec    Layout.tla (image descriptor, 544-byte signal and 192-byte processed line prefixes: offsets, kinds, 1e-6 / 1e-3 scale
        factors, units, enumerated codes), OutMap.tla (per-line variable with dim rows | per-file constant as group attribute |
        header-derived attribute present iff non-blank); Fields.tla invariants checked by TLC.
bind    value plans rotate token classes (0, 1, max 2^32-1, ..., every enumerated code, leap-year / last-millisecond stamps)
        over every prefix field and every line; N in {1, 2, 5}; several images per product acquired on different days; lines
        crossing midnight; each optional header field blank / filled / zero individually -> open_alos2(...)['imagery/<name>']
        compared leaf by leaf (one entry per line in file order, unit attribute, constants once as attributes)."""
from checks import _layoutcommon as lc
from harness import checklib

HDR = "prefix_suffix_data_locators."
OPTIONAL = ["sar_related_data_in_the_record.interleaving_id", HDR + "maximum_data_range_of_pixel", HDR + "number_of_burst_data",
            HDR + "number_of_lines_per_burst", "scansar_burst_data_information.number_of_overlap_lines_with_adjacent_bursts"]


def body(chk):
    from harness import plans, product

    lc.run_tables_model(chk)
    cases = []
    K = len(plans.CLASSES)
    for k in range(K):
        for level, n in (("1.5", 5), ("1.1", 5), ("1.5", 1), ("1.1", 2), ("3.1", 2)):
            if chk.tier == "quick" and n != 5 and (k % 3):
                continue
            cases.append(dict(level=level, seed=chk.seed + k, k=k, files=("IMG",), images=(("HH", None, n, 2), ("HV", "F2", max(1, n - 1), 1)),
                              fs="vtrace" if k % 2 else "local", rpc=2 + (k % 3), tag=f"plan{k}"))
    # optional header fields: each blank / zero / filled individually, all blank, none blank
    for level in ("1.5", "1.1"):
        name = product.image_filename("HH", "ALOS2014410740-140829", {"1.1": "WWDR1.1__D", "1.5": "WBDR1.5RUD"}[level])
        for fi, f in enumerate(OPTIONAL):
            cases.append(dict(level=level, seed=chk.seed + 40 + fi, k=0, files=("IMG",), images=(("HH", None, 2, 2),), fs="local",
                              blank=[(name, "file_descriptor", 0, f)], tag=f"blank:{f.split('.')[-1]}"))
            if "interleaving" not in f:
                cases.append(dict(level=level, seed=chk.seed + 60 + fi, k=0, files=("IMG",), images=(("HH", None, 2, 2),), fs="local",
                                  overrides={(name, "file_descriptor", 0, f): "0"}, tag=f"zero:{f.split('.')[-1]}"))
        cases.append(dict(level=level, seed=chk.seed + 80, k=0, files=("IMG",), images=(("HH", None, 2, 2),), fs="local",
                          blank=[(name, "file_descriptor", 0, f) for f in OPTIONAL], tag="blank:all"))
    # lines that cross midnight and a year boundary (per-line day must follow each line's own stamp)
    for level in ("1.1", "1.5"):
        lo = {}
        stamps = [(2019, 365, 86399998), (2019, 365, 86399999), (2020, 1, 0), (2020, 60, 86399999), (2020, 61, 0), (2020, 366, 86399999)]
        for ln, st in enumerate(stamps):
            lo[(0, ln, "sensor_acquisition_date")] = st
            if level == "1.1":
                lo[(0, ln, "sensor_acquisition_date_microseconds")] = st[2] * 1000 + (7 * ln) % 1000
        for rpc in (2, 3, 4, 1024):  # midnight on a boundary between groups of records_per_chunk lines, and inside a group
            cases.append(dict(level=level, seed=chk.seed + 90, k=None, files=("IMG",), images=(("HH", None, 6, 1), ("HV", None, 2, 1)), fs="local",
                              line_overrides=lo, tag=f"midnight-rpc{rpc}", rpc=rpc))
    # line numbers as they come: consecutive, with a repeat followed by a skip (still non-decreasing, last - first + 1 = count), gaps only,
    # repeats only, constant, decreasing, starting at 0 / at a large number: one entry per line holding the value written
    for j, nums in enumerate(([1, 2, 3, 3, 5, 6], [10, 12, 12, 13], [1, 2, 4, 5, 7], [1, 1, 2, 2], [7, 7, 7], [6, 5, 4, 3, 2, 1], [0, 1, 2], [65534, 65535, 65536, 65536, 65538],
                              [3, 3, 5], [1, 3, 3, 4, 5, 5, 7])):
        lo = {(0, ln, "sar_image_data_line_number"): v for ln, v in enumerate(nums)}
        cases.append(dict(level=("1.5", "1.1")[j % 2], seed=chk.seed + 97 + j, k=None, files=("IMG",), images=(("HH", None, len(nums), 2), ("HV", None, 2, 1)), fs="local",
                          line_overrides=lo, tag=f"line-numbers:{'-'.join(map(str, nums))}", rpc=(2, 1024, 3)[j % 3]))
    # the product inside an archive (zip / tar members are plain stream objects) with line counts that are not a multiple of the request size
    for j, (fsn, n, rpc) in enumerate((("zip", 5, 2), ("tar", 7, 3), ("zip", 10, 4), ("tar", 5, 1024), ("zip", 7, 7), ("tar", 9, 5))):
        cases.append(dict(level=("1.1", "1.5")[j % 2], seed=chk.seed + 110 + j, k=j, files=("IMG",), images=(("HH", None, n, 2), ("HV", None, max(1, n - 2), 1)), fs=fsn, rpc=rpc,
                          tag=f"{fsn}:{n}-lines:rpc{rpc}"))
    # an object-store style file system (files are AbstractBufferedFile objects: one range request per read) with several request groups, the last
    # one shorter: entries stay in file order whatever finishes first
    for j, (n, rpc) in enumerate(((7, 3), (300, 128), (10, 4), (5, 1), (260, 256))):
        cases.append(dict(level=("1.1", "1.5")[j % 2], seed=chk.seed + 120 + j, k=j, files=("IMG",), images=(("HH", None, n, 2), ("HV", None, max(1, n - 2), 1)), fs="vtrace-buffered", rpc=rpc,
                          tag=f"buffered:{n}-lines:rpc{rpc}"))
    n_rand = 24 if chk.tier == "quick" else 800
    for j in range(n_rand):
        level = ("1.5", "1.1", "3.1")[j % 3]
        cases.append(dict(level=level, seed=chk.seed + 3000 + j, k=j, random_classes=True, files=("IMG",),
                          images=(("VV", None, 1 + j % 7, 1 + j % 3),), fs="local", rpc=1 + j % 5, tag=f"random{j}"))
    # an image whose per-file fields (update flags, channel ids, ...) CHANGE along its lines -- the reader surfaces the first line's value --
    # followed, in the same product and in the same process, by ordinary images: their constants still appear once, as attributes.
    # (interleaved so that every worker process meets such an image before ordinary ones)
    vary = [dict(level=("1.1", "1.5")[j % 2], seed=chk.seed + 95 + j, k=None, files=("IMG",), images=(("HH", None, 4, 2), ("HV", None, 3, 1)), fs="local", vary_first=True,
                 tag=f"varying-constants{j}") for j in range(8)]
    step = max(1, len(cases) // len(vary))
    for j, v in enumerate(vary):
        cases.insert(j * (step + 1), v)
    results, total = lc.replay(chk, cases, "image", lambda c: f"{c['level']}:{c['tag']}")
    ok = next(r for r in results if r["open"] == "ok")
    chk.sample({"level": ok["case"]["level"], "case": ok["case"]["tag"], "image_fields_compared": ok["n"], "mismatches": ok["bad"][:2]})
    chk.assumptions += ["units are pinned to the frozen Layout.tla table", "level-1.1 nested per-line structs (platform_velocity.x ...): "
                        "placement free, but a numeric per-line variable whose qualified name contains both components must exist",
                        "a blank text header field may surface as absent or as the empty string"]
    from harness import sessioncheck

    sessioncheck.standard(chk)
    from harness import envrun

    envrun.run(chk, {"line_meta", "image_attrs", "spurious_error"})
    chk.finish(rule="a case = one product (1-2 images) with every line-prefix field of every line holding a token of a rotating "
                    "class; + optional-header blank/zero/filled cases, midnight / year-crossing lines, random class assignments; "
                    "evaluations = leaves compared; distinct = (level, case tag)", exhaustive=False, extra={"leaves_compared": total})


if __name__ == "__main__":
    checklib.main(body, "C03")
