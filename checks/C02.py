"""C02 -- indexing equivalence: any lazy selection equals NumPy on the full image.

spec    PyIndex.tla (MC_PyIndex): the semantics of one-axis index expressions (ints, slices incl. None / negative /
        out-of-range start, stop, step, integer arrays, boolean masks) as a function TLC evaluates on EVERY expression of
        the bounded family (axis length 1..4 quick, 1..5 thorough) and checks algebraic invariants on (InRange,
        Progression, NegEquiv, Reverse, MaskIsArray, Compose, DropOnlyInt).
bind    every enumerated point becomes implementation tests: the expression is applied through DataArray.isel and [...] on
        the rows axis of a lazily opened n x 3 image and on the columns axis of a 3 x n image (both sample types, several
        rpc), and the result must be identical -- shape, dims, coords, values bit for bit -- to (i) the positions the SPEC
        computed applied to the synthesised matrix and (ii) the same operation on an in-memory twin DataArray.  The
        twin-vs-spec comparison validates PyIndex against NumPy on every run (disagreement = machinery failure).
        Two-axis outer / vectorised / label-based selections are compared lazy-vs-twin."""
import json
import os
import random

from harness import checklib


def key_of(ex):
    import numpy as np

    k = ex["kind"]
    if k == "int":
        return ex["i"]
    if k == "slice":
        g = lambda o: None if o == [] else o[0]  # noqa: E731
        return slice(g(ex["a"]), g(ex["b"]), g(ex["s"]))
    if k == "array":
        return np.array(ex["xs"], dtype="int64")
    if k == "mask":
        return np.array(ex["m"], dtype=bool)
    raise ValueError(k)


def raw_view(a):
    import numpy as np

    a = np.ascontiguousarray(a)
    if a.dtype.kind == "c":
        return a.astype(np.complex64).view(np.uint32)
    return a


def same_da(x, y):
    """identical DataArrays incl. NaN payload bits -> None or message"""
    import numpy as np

    if x.dims != y.dims:
        return f"dims {x.dims} vs {y.dims}"
    if x.shape != y.shape:
        return f"shape {x.shape} vs {y.shape}"
    if not np.array_equal(raw_view(x.values), raw_view(y.values)):
        return "values differ"
    if set(x.coords) != set(y.coords):
        return f"coords {sorted(x.coords)} vs {sorted(y.coords)}"
    for c in x.coords:
        a, b = x.coords[c], y.coords[c]
        if a.dims != b.dims or a.shape != b.shape:
            return f"coord {c}: dims/shape {a.dims}{a.shape} vs {b.dims}{b.shape}"
        av, bv = a.values, b.values
        if av.dtype.kind == "f":
            if not np.array_equal(av, bv, equal_nan=True):
                return f"coord {c} values differ"
        elif not np.array_equal(av, bv):
            return f"coord {c} values differ"
    return None


def ref_lazy(full, like):
    """a REFERENCE lazily indexed DataArray: a trivially correct BASIC backend (NumPy indexing) behind xarray's own lazy
    indexing machinery.  Where it disagrees with the in-memory twin, xarray itself does not support the operation on lazy
    BASIC backends (e.g. empty negative-step slices), so the operation is outside 'any indexing operation xarray accepts'."""
    import xarray as xr
    from xarray.backends import BackendArray
    from xarray.core import indexing

    class Ref(BackendArray):
        def __init__(self, arr):
            self.arr, self.shape, self.dtype = arr, arr.shape, arr.dtype

        def __getitem__(self, key):
            return indexing.explicit_indexing_adapter(key, self.shape, indexing.IndexingSupport.BASIC, lambda k: self.arr[k])

    var = xr.Variable(like.dims, indexing.LazilyIndexedArray(Ref(full.copy())), dict(like.attrs))
    return xr.DataArray(var, coords={k: (v.dims, v.values.copy(), dict(v.attrs)) for k, v in like.coords.items()}, name=like.name)


def run_group(task):
    import numpy as np
    import xarray as xr

    import ceos_alos2

    from harness import imgrun, oracle, product

    n, sample, rpc, points, seed, pairs = task["n"], task["sample"], task["rpc"], task["points"], task["seed"], task["pairs"]
    kind = "signal" if sample == "C*8" else "processed"
    b = product.build_product(level="1.1" if sample == "C*8" else "1.5", images=[("HH", None, n, 3), ("HV", None, 3, n)],
                              seed=seed, pixel_special=(sample == "C*8"))
    url = imgrun.put_on_fs(b, task["fs"], f"c02_{n}_{sample}_{rpc}")
    out = {"task": {k: task[k] for k in ("n", "sample", "rpc", "fs")}, "bad": [], "machinery": [], "n_ops": 0, "n_err": 0}
    try:
        tree = ceos_alos2.open_alos2(url, backend_options=dict(records_per_chunk=rpc, use_cache=False))
        lazies, twins, raws, refs = {}, {}, {}, {}
        for im, axis in ((b.images[0], "rows"), (b.images[1], "columns")):
            lazy = tree[f"imagery/{im['group']}/data"]
            full = tree[f"imagery/{im['group']}/data"].values  # C01 establishes this is the file content
            msg = oracle.pixels_match(full, im)
            if msg:
                out["bad"].append(("full-load", f"{im['group']}: {msg}"))
                return out
            twin = xr.DataArray(full.copy(), dims=lazy.dims, coords={k: (v.dims, v.values.copy(), dict(v.attrs)) for k, v in lazy.coords.items()},
                                attrs=dict(lazy.attrs), name=lazy.name)
            lazies[axis], twins[axis], raws[axis] = lazy, twin, full
            refs[axis] = ref_lazy(full, lazy)
        for pt in points:
            ex, res = pt["ex"], pt["res"]
            key = key_of(ex)
            for axis in ("rows", "columns"):
                lazy, twin, full = lazies[axis], twins[axis], raws[axis]
                ax = 0 if axis == "rows" else 1
                for op in ("isel", "getitem"):
                    out["n_ops"] += 1

                    def apply(da):
                        if op == "isel":
                            return da.isel({axis: key})
                        return da[key] if ax == 0 else da[:, key]

                    # (ii) the twin: NumPy/xarray semantics
                    try:
                        t = apply(twin)
                        terr = None
                    except Exception as e:
                        t, terr = None, type(e).__name__
                    # (i) the spec
                    if res["err"]:
                        if terr is None:
                            out["machinery"].append((ex, axis, op, f"spec says {res['err']} but the twin accepted"))
                            continue
                    else:
                        if terr is not None:
                            out["machinery"].append((ex, axis, op, f"spec gives rows {res['rows']} but the twin raised {terr}"))
                            continue
                        want = np.take(full, res["rows"], axis=ax) if res["rows"] else np.take(full, [], axis=ax)
                        if res["drop"]:
                            want = want.reshape([s for i, s in enumerate(want.shape) if i != ax])
                        if t.shape != want.shape or not np.array_equal(raw_view(t.values), raw_view(want)):
                            out["machinery"].append((ex, axis, op, f"spec rows {res['rows']} drop={res['drop']} disagree with NumPy twin shape {t.shape}"))
                            continue
                    # the reference lazy backend: is the operation supported by xarray on lazy BASIC backends at all?
                    try:
                        rr = apply(refs[axis]).load()
                        rerr = None
                    except Exception as e:
                        rr, rerr = None, type(e).__name__
                    if (rerr is None) != (terr is None) or (rerr is None and same_da(rr, t)):
                        out["skipped"] = out.get("skipped", 0) + 1
                        continue
                    # the implementation
                    try:
                        got = apply(lazy)
                        got_loaded = got.load() if hasattr(got, "load") else got
                        lerr = None
                    except Exception as e:
                        got_loaded, lerr = None, f"{type(e).__name__}: {str(e)[:120]}"
                    if terr is not None:
                        out["n_err"] += 1
                        if lerr is None:
                            out["bad"].append((json.dumps(ex), f"{axis}/{op}: twin raises {terr}, lazy image returned shape {got_loaded.shape}"))
                        elif not lerr.startswith(terr):
                            out["bad"].append((json.dumps(ex), f"{axis}/{op}: twin raises {terr}, lazy image raises {lerr}"))
                        continue
                    if lerr is not None:
                        out["bad"].append((json.dumps(ex), f"{axis}/{op}: lazy image raised {lerr}; expected rows {res['rows']} drop={res['drop']}"))
                        continue
                    msg = same_da(got_loaded, t)
                    if msg:
                        out["bad"].append((json.dumps(ex), f"{axis}/{op}: lazy vs in-memory: {msg} (expected positions {res['rows']}, drop={res['drop']})"))
        # two-axis combinations: outer, vectorised, label based -- lazy vs twin
        lazy, twin, ref = lazies["rows"], twins["rows"], refs["rows"]
        for (kr, kc, mode) in pairs:
            out["n_ops"] += 1

            def apply2(da):
                if mode == "outer":
                    return da.isel({"rows": key_of(kr), "columns": key_of(kc)})
                if mode == "vectorised":
                    a, c = key_of(kr), key_of(kc)
                    m = min(len(a), len(c))
                    return da.isel({"rows": xr.DataArray(a[:m], dims="z"), "columns": xr.DataArray(c[:m], dims="z")})
                labels = twin["rows"].values[key_of(kr)]  # label based on the rows coordinate
                return da.sel(rows=labels)

            outs = []
            for da in (twin, ref, lazy):
                try:
                    outs.append((apply2(da).load(), None))
                except Exception as e:
                    outs.append((None, f"{type(e).__name__}: {str(e)[:100]}"))
            (t, terr), (rr, rerr), (g, lerr) = outs
            if (rerr is None) != (terr is None) or (rerr is None and same_da(rr, t)):
                out["skipped"] = out.get("skipped", 0) + 1
                continue
            name = f"{mode}:{json.dumps(kr)}x{json.dumps(kc)}"
            if terr is not None:
                if lerr is None:
                    out["bad"].append((name, f"twin raises {terr}, lazy image returned shape {g.shape}"))
                continue
            if lerr is not None:
                out["bad"].append((name, f"lazy image raised {lerr}"))
                continue
            msg = same_da(g, t)
            if msg:
                out["bad"].append((name, f"lazy vs in-memory: {msg}"))
    finally:
        imgrun.drop_from_fs(url, task["fs"])
    return out


def body(chk):
    from harness import tlc
    from harness import layout as L

    pf = os.path.join(chk.scratch, "points.json")
    cfg = "MC_PyIndex_quick" if chk.tier == "quick" else "MC_PyIndex_thorough"
    sf = os.path.join(chk.scratch, "strides.json")
    r = tlc.run_ok("MC_PyIndex", cfg, workers=16, env={"POINTS_FILE": pf, "STRIDES_FILE": sf}, timeout=3000, coverage=True)
    chk.tlc_stats(r)
    for v in r.violated:
        chk.violation(f"model:{v}", f"TLC: {v} violated in PyIndex", {"tlc": r.out[-3000:]})
    # the image backend contract on the rows axis (ints drop the axis with one read, empty selections read nothing)
    r2 = tlc.run_ok("MC_ImageIO", "MC_ImageIO_quick", workers=16, timeout=3000)
    chk.tlc_stats(r2)
    points = json.load(open(pf))
    by_n = {}
    for p in points:
        by_n.setdefault(p["n"], []).append(p)
    rnd = random.Random(chk.seed)
    tasks = []
    for n, pts in sorted(by_n.items()):
        rpcs = sorted({1, 2, n, n + 1}) if chk.tier == "thorough" else [1 + (n % 2), n + 1]
        for sample in ("IU2", "C*8"):
            for rpc in rpcs:
                # each (sample, rpc) group takes every point in the thorough tier and a deterministic half in quick
                sub = pts if chk.tier == "thorough" or n <= 3 else [p for i, p in enumerate(pts) if (i + rpc + len(sample)) % 2 == 0]
                small = [p for p in pts if p["ex"]["kind"] != "mask" or True]
                pairs = []
                cols = [p for p in by_n.get(3, []) if not p["res"]["err"]]
                for _ in range(150 if chk.tier == "quick" else 600):
                    a, c = rnd.choice(small), rnd.choice(cols)
                    if a["res"]["err"]:
                        continue
                    mode = rnd.choice(["outer", "outer", "vectorised", "label"])
                    if mode == "vectorised" and not (a["ex"]["kind"] == "array" and c["ex"]["kind"] == "array"):
                        mode = "outer"
                    if mode == "label" and a["ex"]["kind"] == "int":
                        mode = "outer"
                    pairs.append((a["ex"], c["ex"], mode))
                # integer x integer (0-d results) and empty-rows x column-window combinations, explicitly
                for i in range(-n, n):
                    for j in (0, -1, 2):
                        pairs.append(({"kind": "int", "i": i}, {"kind": "int", "i": j}, "outer"))
                for cs in ([1], [0], []):
                    pairs.append(({"kind": "slice", "a": [0], "b": [0], "s": []}, {"kind": "slice", "a": cs, "b": [2], "s": []}, "outer"))
                    pairs.append(({"kind": "slice", "a": [n], "b": [], "s": []}, {"kind": "int", "i": 1}, "outer"))
                tasks.append(dict(n=n, sample=sample, rpc=rpc, points=sub, seed=chk.seed + n, pairs=pairs, fs="vtrace" if rpc % 2 else "local"))
    strides = json.load(open(sf))
    for j, rpc in enumerate((2, 3, 4, 5) if chk.tier == "quick" else (2, 3, 4, 5, 6, 7, 12, 13, 14)):
        for sample in (("IU2", "C*8")[j % 2],) if chk.tier == "quick" else ("IU2", "C*8"):
            tasks.append(dict(n=13, sample=sample, rpc=rpc, points=strides, seed=chk.seed + 13, pairs=[], fs="vtrace" if rpc % 2 else "local"))
    # random larger images: 40 x 17, Hypothesis-style random expressions judged by the twin (and the spec's formulas in Python form are not used)
    L.tables()
    want = [dict(L.SMALL_LEADER), dict(L.SMALL_LEADER, nmap=0), dict(file="volume", nfp=4), dict(file="trailer", nlow=0, lens=[])]
    for t in tasks:
        bps = 8 if t["sample"] == "C*8" else 2
        knd = "signal" if t["sample"] == "C*8" else "processed"
        want += [dict(file="image", kind=knd, n=t["n"], ndata=3 * bps, bps=bps), dict(file="image", kind=knd, n=3, ndata=t["n"] * bps, bps=bps)]
    L.instances(want)
    results = checklib.pmap(run_group, tasks, chk.scratch)
    ops = 0
    skipped = 0
    for res in results:
        skipped += res.get("skipped", 0)
        t = res["task"]
        ops += res["n_ops"]
        if res["machinery"]:
            raise checklib.Machinery(f"PyIndex.tla disagrees with NumPy/xarray on the in-memory twin: {res['machinery'][:3]}")
        for exs, msg in res["bad"]:
            try:
                kind = json.loads(exs)["kind"]
            except Exception:
                kind = exs.split(":")[0]
            what = "int-keeps-axis" if (kind == "int" and "shape" in msg) else kind
            chk.violation(f"index:{what}:{t['sample']}:n={t['n']}:rpc={t['rpc']}:{exs}"[:160], f"{msg}", {"task": t, "expr": exs})
    chk.count(ops)
    distinct = set()
    for p in points:
        distinct.add(json.dumps(p["ex"], sort_keys=True) + str(p["n"]))
    chk.cov["distinct_nontrivial"] = len(distinct)
    chk.traces(ops)
    for p in points[:: max(1, len(points) // 5)][:5]:
        chk.sample({"axis_length": p["n"], "expression": p["ex"], "spec_result": p["res"]})
    chk.assumptions += ["the in-memory twin (NumPy/xarray on the fully loaded array) is the reference for two-axis outer / vectorised / "
                        "label selections; one-axis expressions are judged by the TLA+ function, which the twin cross-checks every run",
                        "full-image loads equal the file content (C01)"]
    # selections whose load meets a transient I/O fault: the result is an exception or exactly NumPy's (never extra / missing lines)
    from harness import imgrun

    fcases = []
    for j, (nth, consume) in enumerate([(2, 0.0), (2, 0.5), (3, 0.5), (4, 0.0)]):
        fcases.append(dict(kind=("processed", "signal")[j % 2], sample=("IU2", "C*8")[j % 2], images=[("HH", None, 8, 5)], rpc=2, seed=chk.seed + 4000 + j, fss=["vtrace"],
                           sels=[("all",), ("slice", 0, 8, 3), ("slice", 7, None, -2), ("list", [0, 3, 6]), ("slice", 2, 7, 1)], origin="transient-fault",
                           flaky_load=dict(nth=nth, consume=consume)))
    L.instances([dict(file="image", kind="processed", n=8, ndata=10, bps=2), dict(file="image", kind="signal", n=8, ndata=40, bps=8), dict(file="volume", nfp=3)])
    for res in checklib.pmap(imgrun.exercise, fcases, chk.scratch):
        for run in res["runs"]:
            for ld in run["images"][0]["loads"]:
                chk.count(1, f"fault:{res['case']['flaky_load']}:{ld['sel']}")
                if ld["outcome"] == "equal" or (ld["outcome"] == "error" and ld.get("fault_fired")):
                    continue
                chk.violation(f"index:fault:{ld['outcome']}", f"selection {ld['sel']} with a transient fault on read #{res['case']['flaky_load']['nth']}: {ld['outcome']}: {ld['msg']}",
                              {"case": res["case"], "sel": ld["sel"]})
    from harness import ctxindex, sessioncheck

    ctxindex.run(chk)
    sessioncheck.standard(chk)
    from harness import tlaps

    tlaps.prove(chk, "IndexProofs")
    chk.finish(
        rule="points = every one-axis expression of Exprs(n), n=1..MaxLen (ints -n-1..n, slices with start/stop in {None} U "
             "-n-2..n+2 and step in {None} U +-1..+-(n+1), integer arrays up to MaxArr entries, all boolean masks) as "
             "enumerated and evaluated by TLC; each applied on both axes through isel and [] for both sample types and "
             "several rpc; distinct = distinct (n, expression); evaluations = individual indexing operations executed",
        exhaustive=(chk.tier == "thorough"),
        extra={"skipped_unsupported_by_xarray_lazy_indexing": skipped, "points": len(points), "pair_ops": sum(len(t["pairs"]) for t in tasks)},
    )


if __name__ == "__main__":
    checklib.main(body, "C02")
