"""C20 -- blank fields mean 'missing' and padding never influences the result.

spec    Layout.tla roles: every ASCII field of role "value" is nullable (blank -> NaN / -1 / ""; header-derived attributes
        absent), roles count / length / code / datetime are the columns the format requires to be filled, role "spare" marks
        the spare / blank / reserved areas with their character class (text, numeric, binary); Fields.tla ties roles, kinds and
        the output map together (TLC).
bind    (a) every nullable field of every record blanked INDIVIDUALLY (one product each) and in random subsets -> the product
        opens and every mapped leaf has the expected value (the blanked ones NaN / -1 / "" / absent, all others unchanged);
        (b) every spare area overwritten with random content of its class -> the complete tree (pixels included) is identical
        to the tree of the untouched product; (c) thorough: byte-by-byte influence map of the leader, volume directory, image
        descriptor and one line prefix of each type -- changing byte k may change exactly the leaf of the field covering k."""
import random

from checks import _layoutcommon as lc
from harness import checklib

ASCII = ("ai", "af", "ac", "s")


def nullable_fields(level):
    """[(filekey, recname, nth, path)] of every nullable leaf of a default product of the level (arrays: first + last element)"""
    from harness import product

    b = product.build_product(level=level, images=(("HH", None, 2, 2),), seed=0)
    out = []
    for fkey, fb in b.builders.items():
        if fkey == "TRL":
            continue
        counts = {}
        for r, rec in enumerate(fb.inst["records"]):
            nth = counts.get(rec["name"], 0)
            counts[rec["name"]] = nth + 1
            if fkey.startswith("IMG") and rec["name"] == "line":
                continue  # binary prefixes have no blank concept
            arrays = {}
            for path, (off, leaf, arr) in fb.index[r].items():
                if leaf["r"] != "value" or leaf["k"] not in ASCII:
                    continue
                if arr is not None:
                    arrays.setdefault((arr[0], arr[3]), []).append(path)
                    continue
                out.append((fkey, rec["name"], nth, path))
            for paths in arrays.values():
                out.append((fkey, rec["name"], nth, paths[0]))
                if len(paths) > 1:
                    out.append((fkey, rec["name"], nth, paths[-1]))
    return out


def spare_case(case):
    """worker: overwrite every spare area with random content of its class; the tree must not change at all"""
    import ceos_alos2

    from harness import imgrun, product, project

    rnd = random.Random(case["seed"])
    b = product.build_product(level=case["level"], images=case["images"], seed=case["seed"], leader=case.get("leader"), ctx=case.get("ctx"))
    res = {"case": case, "bad": [], "n": 0}

    def fp_of(files):
        b2 = product.Built()
        b2.files = files
        url = imgrun.put_on_fs(b2, case["fs"], f"sp_{case['seed']}_{rnd.random()}")
        try:
            return project.fingerprint(ceos_alos2.open_alos2(url, backend_options=dict(use_cache=False, records_per_chunk=3)))
        finally:
            imgrun.drop_from_fs(url, case["fs"])

    base = fp_of(dict(b.files))
    printable = "".join(chr(c) for c in range(33, 127))
    files = {}
    touched = []
    for fkey, fb in b.builders.items():
        if fkey == "TRL":
            continue
        buf = bytearray(fb.buf)
        for r, rec in enumerate(fb.inst["records"]):
            for line in range(rec.get("count", 1)):
                for path, (off, leaf, arr) in fb.index[r].items():
                    if leaf["r"] != "spare" or leaf["w"] == 0:
                        continue
                    if case.get("only") and (fkey, rec["name"], path) != tuple(case["only"]):
                        continue
                    pos = rec["off"] + line * rec["len"] + off
                    w = leaf["w"]
                    if leaf["k"] == "s":
                        style = rnd.randrange(4)
                        if style == 0:
                            data = "".join(rnd.choice(printable) for _ in range(w))
                        elif style == 1:
                            data = ("".join(rnd.choice(printable + "   ") for _ in range(w)))
                        elif style == 2:
                            data = str(rnd.randrange(10 ** min(w, 9))).rjust(w)
                        else:
                            data = ("-1.5E+03" * w)[:w]
                        data = data.encode("ascii")
                    elif leaf["k"] in ("af", "ai"):
                        # "any number": ordinary ones, and numbers far outside what a double holds (they read as inf / 0.0: still numbers)
                        if leaf["k"] == "af":
                            num = (f"{rnd.uniform(-1e5, 1e5):.4f}", "1.0E+999", "-2.5E+400", "1E309", "4.9E-999", "-0.0", "+7", "1e5")[rnd.randrange(8)]
                        else:
                            num = str(rnd.randrange(10 ** min(w - 1, 8)))
                        data = num[:w].rjust(w).encode()
                    else:  # binary spare: any bytes
                        data = bytes(rnd.randrange(256) for _ in range(w))
                    buf[pos:pos + w] = data
                    touched.append((fkey, rec["name"], path))
        files[fkey] = bytes(buf)
    new = dict(b.files)
    new[b.names["vol"]] = files["VOL"]
    new[b.names["led"]] = files["LED"]
    for im in b.images:
        new[im["name"]] = files[im["name"]]
    res["n"] = len(touched)
    try:
        got = fp_of(new)
    except BaseException as e:  # noqa: B902
        res["bad"].append(("exception", f"{type(e).__name__}: {str(e)[:200]}"))
        return res
    d = project.diff(base, got)
    if d:
        res["bad"].append(("tree-changed", d[:4]))
    return res


def twin_case(case):
    """a product with ONE numeric field filled with a value of consequence (very large / zero / negative), and its twin with that field blank:
    the two trees differ at the leaf of that field only -- nothing else is derived from it, blank or filled"""
    import ceos_alos2

    from harness import imgrun, product, project
    from harness import layout as L

    f = tuple(case["field"])
    out = {"case": case, "bad": [], "n": 0}
    fps = []
    b0 = product.build_product(level=case["level"], images=(("HH", None, 2, 2),), seed=case["seed"], ctx=case.get("ctx"))
    fb0 = b0.builders[f[0]]
    leaf = next(lf for r, rec in enumerate(fb0.inst["records"]) if rec["name"] == f[1] for pth, (off, lf, arr) in fb0.index[r].items() if pth == f[3])
    w = leaf["w"]
    if leaf["k"] == "af" and w >= 12:
        case["filled"] = {"big": "10000000.000", "zero": "0.000", "neg": "-7500000.500"}[case["filled_class"]]
    elif leaf["k"] == "af":
        case["filled"] = {"big": "9" * (w - 2) + ".", "zero": "0.", "neg": "-" + "9" * (w - 3) + "."}[case["filled_class"]]
    else:
        case["filled"] = {"big": "9" * (w - 1), "zero": "0", "neg": "-" + "9" * max(1, w - 2)}[case["filled_class"]]
    # the other fields of the block hold ordinary, mutually consistent values (a UTM zone that exists, ...)
    usual = {("LED", "map_projection", 0, "utm_projection.zone_number"): "54", ("LED", "map_projection", 0, "utm_projection.map_origin.false_easting"): "500000.000",
             ("LED", "map_projection", 0, "utm_projection.map_origin.false_northing"): "10000000.000"}
    usual.pop(f, None)
    for blank in (False, True):
        b = product.build_product(level=case["level"], images=(("HH", None, 2, 2),), seed=case["seed"], ctx=case.get("ctx"),
                                  overrides=dict(usual) if blank else {**usual, f: case["filled"]}, blank=[f] if blank else None)
        url = imgrun.put_on_fs(b, "local", f"c20tw_{case['seed']}_{int(blank)}")
        try:
            fps.append(project.fingerprint(ceos_alos2.open_alos2(url, backend_options=dict(use_cache=False))))
        except BaseException as e:  # noqa: B902
            out["bad"].append(("twin-raises", f"{'blank' if blank else 'filled with ' + case['filled']}: {type(e).__name__}: {str(e)[:120]}"))
            return out
        finally:
            imgrun.drop_from_fs(url, "local")
    m = L.outmap().get((f[0], f[1], f[3]))
    names = {f[3].split(".")[-1]} | ({m["n"], m["n"].replace(".", "_")} if m else set())
    d = project.diff(fps[0], fps[1])
    out["n"] = 1
    # (a leaf that exists only in the FILLED tree is derived from a real value -- not this property's business; one that exists in the blank
    # tree and differs, or only there, was derived from a blank)
    foreign = [x for x in d if not any(nm in x for nm in names) and "only in first" not in x]
    if foreign:
        out["bad"].append(("derived-from-blank", f"{f[1]}.{f[3]} blank instead of {case['filled']!r}: other leaves changed too: {foreign[:3]}"))
    return out


def influence_case(case):
    """worker (thorough): flip bytes lo..hi of one file one at a time; the changed leaves must belong to the field covering the byte"""
    import ceos_alos2

    from harness import imgrun, product, project
    from harness import layout as L

    b = product.build_product(level=case["level"], images=(("HH", None, 2, 2),), seed=case["seed"])
    fkey = case["file"]
    fb = b.builders[fkey if fkey != "IMG" else b.images[0]["name"]]
    fname = {"VOL": b.names["vol"], "LED": b.names["led"]}.get(fkey, b.images[0]["name"])
    om = L.outmap()
    # byte -> (record name, leaf path, leaf) map
    cover = {}
    for r, rec in enumerate(fb.inst["records"]):
        for line in range(rec.get("count", 1)):
            for path, (off, leaf, arr) in fb.index[r].items():
                pos = rec["off"] + line * rec["len"] + off
                for kk in range(pos, pos + leaf["w"]):
                    cover[kk] = (rec["name"], path, leaf, arr)

    def fp_of(files):
        b2 = product.Built()
        b2.files = files
        url = imgrun.put_on_fs(b2, "vtrace", f"inf_{case['seed']}_{case['lo']}")
        try:
            return project.fingerprint(ceos_alos2.open_alos2(url, backend_options=dict(use_cache=False, records_per_chunk=3)))
        finally:
            imgrun.drop_from_fs(url, "vtrace")

    base = fp_of(dict(b.files))
    res = {"case": case, "bad": [], "n": 0}
    orig = b.files[fname]
    for kpos in range(case["lo"], min(case["hi"], len(orig))):
        if kpos not in cover:
            continue
        recname, path, leaf, arr = cover[kpos]
        if leaf["r"] in ("preamble", "count", "length", "code", "datetime", "pixels"):
            continue
        ch = orig[kpos]
        if leaf["k"] in ASCII:
            if chr(ch).isdigit():
                new = ord(str((int(chr(ch)) + 3) % 10))
            elif leaf["k"] == "s" and chr(ch).isalpha():
                new = ord("Q") if chr(ch) != "Q" else ord("R")
            elif leaf["r"] == "spare" and leaf["k"] == "s":
                new = ord("#") if ch != ord("#") else ord("%")
            elif leaf["r"] == "spare":
                new = ord("7") if ch != ord("7") else ord("3")   # a numeric spare holds "any number": one digit in the blank area is one
            else:
                continue
        else:
            new = ch ^ 0x01
            if leaf["t"]:
                continue  # enumerated code: a flipped byte is not a valid code
            if leaf["k"] in ("ydms", "ydus"):
                continue  # binary date-time stamp: a flipped byte is (mostly) not a date at all
        data = bytearray(orig)
        data[kpos] = new
        files = dict(b.files)
        files[fname] = bytes(data)
        res["n"] += 1
        try:
            got = fp_of(files)
        except BaseException as e:  # noqa: B902
            res["bad"].append((kpos, path, f"exception {type(e).__name__}: {str(e)[:100]}"))
            continue
        d = project.diff(base, got)
        fk = "IMG" if fkey == "IMG" else fkey
        key = (fk, recname, (arr[0] + "[]" + ("." + arr[3] if arr[3] else "")) if arr else path)
        m = om.get(key)
        if leaf["r"] == "spare" or m is None:
            if d:
                res["bad"].append((kpos, path, f"byte of an unexposed / spare field changed the tree: {d[:2]}"))
            continue
        # all differences must be inside the mapped leaf
        leafname = m["n"]
        # (nested per-line structs surface under a qualified name: a.b -> a_b)
        names_ = {leafname, leafname.replace(".", "_")}
        foreign = [x for x in d if not any(nm in x for nm in names_)]
        if foreign:
            res["bad"].append((kpos, path, f"changed other leaves than {m['g']}:{leafname}: {foreign[:2]}"))
    return res


def body(chk):
    from harness import leafrun, product

    lc.run_tables_model(chk)
    rnd = random.Random(chk.seed)
    cases = []
    total_fields = 0
    for level in ("1.5", "1.1"):
        fields = nullable_fields(level)
        total_fields += len(fields)
        if level == "1.1":  # the leader / volume records are shared: only the level-specific ones again
            fields = [f for f in fields if f[0].startswith("IMG")]
        for i, f in enumerate(fields):
            fkey = "IMG" if f[0].startswith("IMG") else f[0]
            cases.append(dict(level=level, seed=chk.seed + 1, k=i % 12, images=(("HH", None, 2, 2),), blank=[f], files=("VOL", "LED", "IMG"),
                              fs="local", tag=f"{fkey}:{f[1]}#{f[2]}:{f[3]}"))
        for j in range(20 if chk.tier == "quick" else 300):
            sub = rnd.sample(fields, min(len(fields), rnd.randint(2, 40)))
            cases.append(dict(level=level, seed=chk.seed + 100 + j, k=j % 12, images=(("HH", None, 2, 2),), blank=sub, files=("VOL", "LED", "IMG"),
                              fs="local", tag=f"subset{j}:{len(sub)}"))
        if level == "1.5":
            # complex fields (two 16-character halves): ONE half blank -> that component missing, no exception
            from harness import layout as L

            acs = set()
            for rec in L.instance(**dict(L.SMALL_LEADER))["records"]:
                acs |= {(rec["name"], path) for path, off, leaf, arr in L.leaves(rec) if leaf["k"] == "ac"}
            halves = [f for f in fields if (f[1], f[3]) in acs]
            for j, f in enumerate(halves):
                v = (None, "-2.5000000E+00") if j % 2 else ("7.2500000E-01", None)
                cases.append(dict(level=level, seed=chk.seed + 3, k=None, images=(("HH", None, 2, 2),), overrides={f: v}, blank=[], files=("LED",), fs="local",
                                  tag=f"half-blank:{f[1]}:{f[3]}:{'real' if j % 2 else 'imag'}"))
        if level == "1.5":
            # repeated groups blanked JOINTLY: whole state vectors (all six components) at the tail / in the middle / beyond the declared
            # count, under every declared (informational) count: each blank component surfaces as NaN, the series keeps its length
            slot = lambda k_: [("LED", "platform_position", 0, f"positions[{k_}].{g}.{a}") for g in ("position", "velocity") for a in "xyz"]  # noqa: E731
            patterns = {"last": [27], "last-two": [26, 27], "last-five": [23, 24, 25, 26, 27], "middle": [13], "first": [0], "beyond-11": list(range(11, 28)), "tail-of-11": [10],
                        "all-but-first": list(range(1, 28)), "every-other": list(range(1, 28, 2))}
            for j, (pn, slots) in enumerate(patterns.items()):
                for inf in (None, 0, 1, 2):
                    cases.append(dict(level=level, seed=chk.seed + 600 + j, k=j % 12, images=(("HH", None, 2, 2),), blank=[f for k_ in slots for f in slot(k_)], files=("LED",),
                                      fs="local", informational=inf, tag=f"state-vectors:{pn}:count-alt={inf}"))
        allf = list(fields)
        cases.append(dict(level=level, seed=chk.seed + 999, k=0, images=(("HH", None, 2, 2),), blank=allf, files=("VOL", "LED", "IMG"), fs="local",
                          tag=f"all-blank:{len(allf)}"))
    for j, c in enumerate(cases):   # every third product is opened by a caller that treats warnings as errors: a blank field is not an exception
        if j % 3 == 1:
            c["strict_warnings"] = True
    lc.prepare_layouts(cases)
    results = checklib.pmap(leafrun.run_plan, cases, chk.scratch, chunksize=8)
    for res in results:
        c = res["case"]
        chk.count(1, c["tag"])
        one = c["blank"][0] if c["blank"] else next(iter(c["overrides"]))
        where = f"{'IMG' if one[0].startswith('IMG') else one[0]}:{one[1]}:{one[3]}" if len(c["blank"]) == 1 else c["tag"]
        if res["open"] != "ok":
            chk.violation(f"blank-raises:{where}", f"blanking {c['tag']} makes open_alos2 fail: {res['open']}", {"case": c})
            continue
        seen = set()
        for src, msg in res["bad"]:
            fld = src.split(":", 2)[1] + ":" + src.split(":", 2)[2].split("@")[0]
            if fld not in seen:
                seen.add(fld)
                chk.violation(f"blank-value:{fld}", f"{msg}   [blanked: {c['tag']}]", {"case": c, "src": src})
    # (a') blank-versus-filled twins: the numeric fields of the map projection record (origins, false northing / easting, parallels, scale
    #      factors: values other attributes are easily derived from), filled with values of consequence
    tw = []
    for di, desig in enumerate(("UTM-PROJECTION", "UPS-PROJECTION", "LCC-PROJECTION", "MER-PROJECTION")):
        mp = [f for f in nullable_fields("1.5") if f[1] == "map_projection"]
        for j, f in enumerate(mp):
            if chk.tier == "quick" and (j + di) % 4 and not any(w_ in f[3] for w_ in ("false_", "origin", "zone", "parallel", "scale")):
                continue
            for fc in ("big", "zero", "neg"):
                tw.append(dict(level="1.5", field=list(f), filled_class=fc, ctx=dict(designator=desig), seed=chk.seed + 1200 + j))
    for res in checklib.pmap(twin_case, tw, chk.scratch, chunksize=4):
        chk.count(res["n"], f"twin:{res['case']['field'][3]}:{res['case']['filled_class']}:{res['case']['ctx']['designator']}")
        for key, msg in res["bad"][:1]:
            chk.violation(f"blank-twin:{key}:{res['case']['field'][3]}", f"[{res['case']['ctx']['designator']}] {msg}", {"case": res["case"]})
    # (b) spare / blank / reserved areas
    sp_cases = []
    for j in range(12 if chk.tier == "quick" else 200):
        level = ("1.5", "1.1", "3.1")[j % 3]
        # (every projection flavour keeps other blocks of the map projection record, with their own filler areas)
        desig = ("UTM-PROJECTION", "LCC-PROJECTION", "UPS-PROJECTION", "MER-PROJECTION")[(j // 3) % 4]
        sp_cases.append(dict(level=level, seed=chk.seed + 500 + j, images=(("HH", None, 3, 2), ("HV", None, 2, 1)), fs=("local", "vtrace")[j % 2], ctx=dict(designator=desig)))
    sp_results = checklib.pmap(spare_case, sp_cases, chk.scratch)
    n_sp = 0
    for res in sp_results:
        n_sp += res["n"]
        chk.count(1, f"spares:{res['case']['level']}:{res['case']['seed']}")
        for what, detail in res["bad"]:
            chk.violation(f"padding-influence:{res['case']['level']}:{what}", f"overwriting the spare areas changed the result: {detail}", {"case": res["case"]})
    if n_sp == 0:
        raise checklib.Machinery("vacuity: no spare area overwritten")
    n_inf = 0
    if chk.tier == "thorough":
        inf = []
        sizes = {"VOL": 1800, "LED": 45000, "IMG": 720 + 560}
        for level in ("1.5", "1.1"):
            for f, size in sizes.items():
                for lo in range(0, size, 400):
                    inf.append(dict(level=level, file=f, lo=lo, hi=lo + 400, seed=chk.seed + 7))
        for res in checklib.pmap(influence_case, inf, chk.scratch):
            n_inf += res["n"]
            chk.count(res["n"], f"influence:{res['case']['level']}:{res['case']['file']}:{res['case']['lo']}")
            for kpos, path, msg in res["bad"][:5]:
                chk.violation(f"influence:{res['case']['file']}:{path}", f"byte {kpos}: {msg}", {"case": res["case"], "byte": kpos})
    chk.traces(len(results) + len(sp_results))
    chk.sample({"blanked": results[0]["case"]["tag"], "leaves_compared": results[0]["n"], "mismatches": results[0]["bad"][:2]})
    chk.sample({"spare_areas_overwritten": sp_results[0]["n"], "tree_changed": bool(sp_results[0]["bad"])})
    chk.assumptions += ["nullable = ASCII field of role 'value' in Layout.tla (counts, lengths, code/flag columns and date-time texts "
                        "are required by the format); binary line-prefix fields have no blank encoding",
                        "text spare areas receive printable ASCII, numeric spares numbers, binary spares arbitrary bytes"]
    chk.finish(rule="(a) one product per nullable field (that field blank, everything else under a rotating plan) + random subsets + all "
                    "blank at once; (b) products whose every spare/blank/reserved area is overwritten, compared with the untouched "
                    "product as complete trees; (c, thorough) one open per byte of leader / volume / descriptor / prefixes; "
                    "distinct = distinct blanked field sets / overwritten products / bytes",
               exhaustive=False, extra={"nullable_fields": total_fields, "spare_areas_overwritten": n_sp, "influence_bytes": n_inf})


if __name__ == "__main__":
    checklib.main(body, "C20")
