"""C09 -- a crash or concurrent writer during cache creation never poisons later opens.

spec    Cache.tla, crash config (MC_Cache_crash): two processes (writer/reader, writer/writer), Crash enabled at every pc, the
        index a file of B = 3 blocks (unwritten / written per block models prefixes AND the hole left when a second writer
        truncates under a first); invariants ResultIdeal (a reader never errors, never gets a non-ideal tree) ...; the
        history config adds RepairAfterCreate; MC_Cache_bug (TornIsMiss = FALSE) must FAIL (the model can express the bug);
        MC_Cache_live: every started call finishes (weak fairness, no crash).
bind    (a) byte-grain crash points: every prefix length (quick: 0, 1, every JSON-structural boundary +-1, 24 evenly spaced,
        len-1) of the REAL index document of each image planted in the local cell, the adjacent cell, or both ->
        open_alos2(path) with DEFAULT options must return the uncached tree; then create_cache=True; then use_cache=True ->
        ideal, and the local cell is complete again;  (b) real crashes: a writer child whose file size is limited
        (RLIMIT_FSIZE = k: the kernel cuts the real write, EFBIG = disk full), a writer held between open(O_TRUNC) and write
        by strace delay injection with a concurrent reader, two concurrent writers, SIGKILL at sampled delays."""
import json
import os
import signal
import subprocess
import sys
import time

from harness import checklib

CHILD = r"""
import os, sys, resource
k = int(sys.argv[3])
if k >= 0:
    resource.setrlimit(resource.RLIMIT_FSIZE, (k, k))
import signal
signal.signal(signal.SIGXFSZ, signal.SIG_IGN)
import ceos_alos2
ceos_alos2.open_alos2(sys.argv[1], backend_options={"create_cache": True, "use_cache": False, "records_per_chunk": int(sys.argv[2])})
"""


# a DEFAULT open (read-only by its options) run under a persisting fault: the same file-size limit that tore the index, or no usable
# cache directory at all.  It must succeed with the uncached tree (exit 0); 3 = wrong tree, 4 = raised
CHILD_DEFAULT = r"""
import os, sys, json, resource, signal
k = int(sys.argv[3])
if k >= 0:
    resource.setrlimit(resource.RLIMIT_FSIZE, (k, k))
signal.signal(signal.SIGXFSZ, signal.SIG_IGN)
import ceos_alos2
from harness import project
try:
    fp = project.fingerprint(ceos_alos2.open_alos2(sys.argv[1]))
except BaseException as e:
    print("RAISED", type(e).__name__, str(e)[:160]); sys.exit(4)
ref = json.load(open(sys.argv[2]))
sys.exit(0 if json.loads(json.dumps(fp)) == ref else 3)
"""


def prefix_lengths(doc, quick):
    n = len(doc)
    if not quick:
        return list(range(0, n))
    s = {0, 1, 2, n - 1, n - 2, n // 2}
    for i, ch in enumerate(doc):
        if ch in b'{}[],:"' and len(s) < 90:
            s.update({i, i + 1})
    s.update(range(0, n, max(1, n // 24)))
    # cuts in the middle of every multi-byte character and of every escape sequence
    for i, ch in enumerate(doc):
        if ch >= 0x80 or ch == 0x5C:
            s.update({i, i + 1, i + 2})
    return sorted(x for x in s if 0 <= x < n)


def planted(task):
    """worker: plant prefixes of the real index documents, then open / repair"""
    from harness import cacherun

    drv = cacherun.Driver(task["level"], task["fs"], task["seed"], nonascii=task.get("nonascii", False))
    out = {"task": {k: task.get(k) for k in ("level", "fs", "where", "seed", "nonascii")}, "bad": [], "n": 0, "lens": []}
    try:
        ref = drv.reference(1024)
        # the real documents: produced by an uninterrupted creation on this very product
        o = drv.do({"op": "open", "uc": False, "cc": True, "rpc": 2})
        if o["outcome"] != "ideal":
            out["bad"].append(("create-failed", "", f"uninterrupted create_cache failed: {o.get('error') or o.get('diff')}"))
            return out
        docs = {m: open(drv.local_path(m), "rb").read() for m in drv.names}
        lens = prefix_lengths(docs["a"], task["quick"])
        sel = lens[task["part"]::task["parts"]]
        import ceos_alos2

        from harness import project

        # besides prefixes: HOLES -- what two overlapping writers of one file leave when the later one truncated it and died while the
        # earlier one went on writing at its old offset: NUL bytes up to k, then the tail of the document (every 4th planted state)
        for k in sel:
            out["lens"].append(k)
            hole = task.get("holes", True) and (k % 4 == 1) and k > 0
            for m in drv.names:
                kk = min(k, len(docs[m]) - 1)
                state = (b"\0" * kk + docs[m][kk:]) if hole else docs[m][:kk]
                if task["where"] in ("local", "both"):
                    with open(drv.expected_local_path(m), "wb") as f:
                        f.write(state)
                    if k % 5 == 3:   # the clock of the host that was writing ran ahead (or ours was set back since): the remains carry a FUTURE file time
                        ahead = __import__("time").time() + (3600, 60, 86400 * 400)[k % 3]
                        os.utime(drv.expected_local_path(m), (ahead, ahead))
                    elif k % 5 == 1:   # ... or they are years old
                        os.utime(drv.expected_local_path(m), (1262304000, 1262304000))
                else:
                    lp = drv.local_path(m)
                    if lp:
                        os.remove(lp)
                if task["where"] in ("adjacent", "both"):
                    drv.write_adjacent(m, state)
            out["n"] += 1
            seq = [("default", {}), ("create", {"create_cache": True}), ("cached", {"use_cache": True})]
            for name, opts in seq:
                import warnings

                # every third planted state: the caller treats warnings as errors (python -W error, pytest filterwarnings = error): an
                # unusable cache may be worth a warning to some, it is never an exception
                strict = k % 3 == 2
                try:
                    with warnings.catch_warnings():
                        if strict:
                            warnings.simplefilter("error")
                        tree = ceos_alos2.open_alos2(drv.url, backend_options=dict(opts))
                    d = project.diff(ref, project.fingerprint(tree))
                    if d:
                        out["bad"].append((f"{name}-wrong-tree", k, f"{'hole of' if hole else 'prefix'} {k}/{len(docs['a'])} in {task['where']}: open({opts}) returned a different tree: {d[:2]}"))
                        break
                except BaseException as e:  # noqa: B902
                    out["bad"].append((f"{name}-raises", k, f"{'hole of' if hole else 'prefix'} {k}/{len(docs['a'])} in {task['where']}{' (warnings are errors)' if strict else ''}: "
                                       f"open({opts}) raised {type(e).__name__}: {str(e)[:120]}"))
                    break
            else:
                cells = drv.cells()
                if any(v != "complete" for v in cells["local"].values()):
                    out["bad"].append(("not-repaired", k, f"prefix {k} in {task['where']}: after create_cache=True the local cache is {cells['local']}"))
            if len(out["bad"]) > 5:
                break
            if task["where"] == "adjacent":
                for m in drv.names:
                    drv.write_adjacent(m, None)
        # "a second process still writing": the index GROWS while readers look at it (truncated, then a hundred bytes every other
        # millisecond, over and over) -- every default open during that time returns the ideal tree
        if task["where"] in ("local", "both") and task["part"] == 0 and not out["bad"]:
            import threading
            import time as _t

            stop = threading.Event()

            def grow():
                while not stop.is_set():
                    for m in drv.names:
                        pth = drv.expected_local_path(m)
                        with open(pth, "wb", buffering=0) as f:
                            for off in range(0, len(docs[m]), 110):
                                f.write(docs[m][off:off + 110])
                                _t.sleep(0.002)
                                if stop.is_set():
                                    break

            th = threading.Thread(target=grow, daemon=True)
            th.start()
            try:
                t_end = _t.time() + (3 if task["quick"] else 20)
                n_open = 0
                while _t.time() < t_end and not out["bad"]:
                    n_open += 1
                    try:
                        tree = ceos_alos2.open_alos2(drv.url)
                        d = project.diff(ref, project.fingerprint(tree))
                        if d:
                            out["bad"].append(("growing-wrong-tree", -1, f"default open #{n_open} while the index in the user cache directory is being (re)written slowly: different tree: {d[:2]}"))
                    except BaseException as e:  # noqa: B902
                        out["bad"].append(("growing-raises", -1, f"default open #{n_open} while the index in the user cache directory is being (re)written slowly raised {type(e).__name__}: {str(e)[:120]}"))
                out["n"] += n_open
            finally:
                stop.set()
                th.join(10)
                for m in drv.names:   # leave complete documents behind
                    with open(drv.expected_local_path(m), "wb") as f:
                        f.write(docs[m])
    finally:
        drv.close()
    return out


def real_crashes(task):
    """worker: real interrupted writers on a local product (RLIMIT_FSIZE, SIGKILL, strace-held writer + reader, two writers)"""
    import ceos_alos2

    from harness import cacherun, project

    imgs = (("HH", "B1", 6, 2), ("HH", "B2", 5, 2), ("HH", "B3", 7, 2)) if task.get("scansar") else (("HH", None, task.get("lines", 40), 4), ("HV", None, 6, 2))
    drv = cacherun.Driver(task["level"], "local", task["seed"], images=imgs)
    out = {"task": task, "bad": [], "n": 0, "events": []}
    env = dict(os.environ, PYTHONWARNINGS="ignore")
    try:
        ref = drv.reference(1024)

        def check_open(tag, opts=None):
            try:
                d = project.diff(ref, project.fingerprint(ceos_alos2.open_alos2(drv.url, backend_options=dict(opts or {}))))
                if d:
                    out["bad"].append((tag + "-wrong-tree", f"{tag}: {d[:2]}"))
                return not d
            except BaseException as e:  # noqa: B902
                out["bad"].append((tag + "-raises", f"{tag}: open raised {type(e).__name__}: {str(e)[:120]}"))
                return False

        def clear():
            for m in drv.names:
                lp = drv.local_path(m)
                if lp:
                    os.remove(lp)

        mode = task["mode"]
        reffile = os.path.join(checklib.fresh_dir("ref_"), "ref.json")
        with open(reffile, "w") as fh:
            json.dump(ref, fh)
        if mode == "concurrent-readers":
            # several DEFAULT openers at once on a torn index, every file-system mutation of theirs (unlink, rename, truncating open) delayed
            # so that whatever they do to the torn file overlaps: all must succeed with the uncached tree
            for where in ("local", "adjacent"):
                clear()
                for m in drv.names:
                    drv.do({"op": "delete", "img": m, "cell": "adjacent"})
                o = drv.do({"op": "open", "uc": False, "cc": True, "rpc": 2})
                for m in drv.names:
                    lp = drv.local_path(m)
                    doc = open(lp, "rb").read()
                    if where == "local":
                        with open(lp, "wb") as fh:
                            fh.write(doc[: len(doc) // 2])
                    else:
                        os.remove(lp)
                        drv.write_adjacent(m, doc[: len(doc) // 2])
                cmd = ["strace", "-f", "-qq", "-o", "/dev/null", "-e", "trace=unlink,unlinkat,rename,renameat,renameat2,rmdir",
                       "-e", "inject=unlink,unlinkat,rename,renameat,renameat2,rmdir:delay_enter=400000", sys.executable, "-W", "ignore", "-c", CHILD_DEFAULT, drv.url, reffile, "-1"]
                ps = [subprocess.Popen(cmd, env=env, stdout=subprocess.PIPE, stderr=subprocess.STDOUT, text=True) for _ in range(3)]
                for i, pp in enumerate(ps):
                    txt, _ = pp.communicate(timeout=120)
                    out["n"] += 1
                    if pp.returncode != 0:
                        out["bad"].append((f"concurrent-default-openers:{where}", f"3 default opens at once on a torn {where} index: opener {i} "
                                           f"{'returned another tree' if pp.returncode == 3 else 'failed: ' + txt.strip()[-200:]}"))
                check_open(f"repair-after-concurrent-readers-{where}", {"create_cache": True})
                check_open(f"cached-after-concurrent-readers-{where}", {"use_cache": True})
        elif mode == "concurrent-cli":
            # the tool run for every image of a ScanSAR product AT ONCE (a shell loop with &), every rename / link of theirs delayed so that
            # anything they stage under a shared name overlaps: afterwards a default open returns the right tree (complete or ignored indexes)
            clear()
            pdir = drv.url
            cmd0 = ["strace", "-f", "-qq", "-o", "/dev/null", "-e", "trace=rename,renameat,renameat2,link,linkat", "-e", "inject=rename,renameat,renameat2,link,linkat:delay_enter=500000",
                    sys.executable, "-W", "ignore", "-m", "ceos_alos2.sar_image"]
            for rnd_ in range(2):
                ps = [subprocess.Popen(cmd0 + [os.path.join(pdir, drv.b.images[i]["name"])], env=env, stdout=subprocess.PIPE, stderr=subprocess.STDOUT, text=True)
                      for i in (range(len(drv.b.images)) if rnd_ == 0 else reversed(range(len(drv.b.images))))]
                rcs = []
                for pp in ps:
                    txt, _ = pp.communicate(timeout=120)
                    rcs.append((pp.returncode, txt.strip()[-160:]))
                out["n"] += 1
                out["events"].append({"concurrent_cli_exit": [r[0] for r in rcs]})
                if any(r[0] != 0 for r in rcs):
                    out["bad"].append(("concurrent-cli-failed", f"ceos-alos2-create-cache run for {len(ps)} images of one product at once: exit statuses {rcs}"))
                check_open(f"default-open-after-concurrent-cli-{rnd_}")
                check_open(f"uncached-after-concurrent-cli-{rnd_}", {"use_cache": False})
                left = [n for n in os.listdir(pdir) if n not in drv.b.files and not n.endswith(".index")]
                if left:
                    out["bad"].append(("concurrent-cli-leftovers", f"files left in the product directory after the tool finished: {left}"))
        elif mode == "unusable-cache-dir":
            # no usable user cache directory (its path is a regular file) and a torn index next to the image: a default open is read-only
            clear()
            for m in drv.names:
                doc = drv.complete_doc(m)
                drv.write_adjacent(m, doc[: len(doc) // 2])
            root = os.path.join(os.environ["XDG_CACHE_HOME"], "xarray-ceos-alos2")
            import shutil as _sh

            _sh.rmtree(root, ignore_errors=True)
            with open(root, "w") as fh:
                fh.write("not a directory")
            try:
                out["n"] += 1
                check_open("default-open-without-usable-cache-dir")
            finally:
                os.remove(root)
            check_open("repair-after-unusable-cache-dir", {"create_cache": True})
        elif mode == "fsize":
            for k in task["ks"]:
                clear()
                p = subprocess.run([sys.executable, "-W", "ignore", "-c", CHILD, drv.url, "2", str(k)], env=env, stdout=subprocess.PIPE, stderr=subprocess.STDOUT, text=True)
                cells = drv.cells()["local"]
                out["events"].append({"limit": k, "writer_exit": p.returncode, "cells": cells})
                out["n"] += 1
                if p.returncode == 0 and any(v != "complete" for v in cells.values()):
                    # Cache!RepairAfterCreate / Alos2!RepairAfterCreate: a create_cache=True open that RETURNS has written complete indexes
                    out["bad"].append(("create-returned-but-torn", f"open(create_cache=True) returned normally although the write was cut at {k} bytes "
                                       f"(disk full): the index is left {cells} and the caller is not told"))
                if any(v == "torn" for v in cells.values()):
                    # the disk is STILL full: a default open writes nothing, so it must not care
                    pd = subprocess.run([sys.executable, "-W", "ignore", "-c", CHILD_DEFAULT, drv.url, reffile, str(k)], env=env, stdout=subprocess.PIPE, stderr=subprocess.STDOUT, text=True)
                    if pd.returncode != 0:
                        out["bad"].append(("default-open-under-persisting-fault", f"index torn at {k} bytes and the file-size limit still in force: default open_alos2 "
                                           f"{'returned another tree' if pd.returncode == 3 else 'failed: ' + pd.stdout.strip()[-200:]}"))
                check_open(f"after-disk-full-at-{k}")
                check_open(f"repair-after-disk-full-at-{k}", {"create_cache": True})
                check_open(f"cached-after-repair-{k}", {"use_cache": True})
                if any(v != "complete" for v in drv.cells()["local"].values()):
                    out["bad"].append(("not-repaired", f"after RLIMIT_FSIZE={k} crash + create_cache=True: {drv.cells()['local']}"))
        elif mode == "sigkill":
            for delay in task["delays"]:
                clear()
                p = subprocess.Popen([sys.executable, "-W", "ignore", "-c", CHILD, drv.url, "2", "-1"], env=env, stdout=subprocess.DEVNULL, stderr=subprocess.DEVNULL)
                time.sleep(delay)
                p.send_signal(signal.SIGKILL)
                p.wait()
                out["events"].append({"kill_after_s": delay, "cells": drv.cells()["local"]})
                out["n"] += 1
                check_open(f"after-sigkill-{delay}")
                check_open(f"repair-after-sigkill-{delay}", {"create_cache": True})
        elif mode == "held-writer":
            # a writer held between open(O_TRUNC) and write(): strace delays every write() on the index files
            clear()
            target = drv.expected_local_path("a")
            os.makedirs(os.path.dirname(target), exist_ok=True)
            cmd = ["strace", "-f", "-qq", "-o", "/dev/null", "-e", "trace=write", "-e", "inject=write:delay_enter=700000", "-P", target,
                   sys.executable, "-W", "ignore", "-c", CHILD, drv.url, "2", "-1"]
            p = subprocess.Popen(cmd, env=env, stdout=subprocess.DEVNULL, stderr=subprocess.DEVNULL)
            t0 = time.time()
            seen = False
            while time.time() - t0 < 30 and p.poll() is None:
                if os.path.exists(target) and os.path.getsize(target) == 0:
                    seen = True
                    break
                time.sleep(0.01)
            out["events"].append({"writer_held_with_empty_file": seen})
            if seen:
                out["n"] += 1
                check_open("reader-while-writer-holds-truncated-file")
                if task.get("second_writer"):
                    check_open("second-writer-while-first-holds", {"create_cache": True, "use_cache": False})
            p.wait(timeout=60)
            check_open("after-writers-finished", {"use_cache": True})
            if any(v != "complete" for v in drv.cells()["local"].values()):
                out["bad"].append(("not-complete-after-writers", f"{drv.cells()['local']}"))
        elif mode == "racing":
            # several writers and a reader racing for real (any failure observed is a genuine one)
            clear()
            ws = [subprocess.Popen([sys.executable, "-W", "ignore", "-c", CHILD, drv.url, "2", "-1"], env=env, stdout=subprocess.DEVNULL,
                                   stderr=subprocess.DEVNULL) for _ in range(3)]
            n = 0
            while any(w.poll() is None for w in ws) and n < 60:
                check_open(f"reader-racing-{n}")
                n += 1
                out["n"] += 1
            for w in ws:
                w.wait()
            check_open("after-race", {"use_cache": True})
    finally:
        drv.close()
    return out


def body(chk):
    from harness import tlc
    from harness import layout as L

    quick = chk.tier == "quick"
    for cfg in ("MC_Cache_crash", "MC_Cache_hist", "MC_Cache_live"):
        r = tlc.run_ok("Cache", cfg, workers=16, timeout=3000, coverage=(cfg == "MC_Cache_crash"))
        chk.tlc_stats(r)
        for v in r.violated:
            chk.violation(f"model:{cfg}:{v}", f"TLC: {v} violated in Cache ({cfg})", {"tlc": r.out[-3000:]})
        if cfg == "MC_Cache_crash" and r.coverage.get("Crash", (0, 0))[0] == 0:
            raise checklib.Machinery("vacuity: Cache!Crash never taken")
    rb = tlc.run("Cache", "MC_Cache_bug", workers=8)
    if "ResultIdeal" not in rb.violated:
        raise checklib.Machinery("non-vacuity: TLC did not find the poisoned open with TornIsMiss = FALSE")
    L.tables()
    L.instances([dict(L.SMALL_LEADER), dict(L.SMALL_LEADER, nmap=0), dict(file="volume", nfp=4), dict(file="trailer", nlow=0, lens=[]),
                 dict(file="image", kind="processed", n=4, ndata=6, bps=2), dict(file="image", kind="processed", n=3, ndata=4, bps=2),
                 dict(file="image", kind="signal", n=4, ndata=24, bps=8), dict(file="image", kind="signal", n=3, ndata=16, bps=8),
                 dict(file="image", kind="processed", n=40, ndata=8, bps=2), dict(file="image", kind="processed", n=6, ndata=4, bps=2),
                 dict(file="image", kind="processed", n=3000, ndata=8, bps=2), dict(file="image", kind="signal", n=6, ndata=16, bps=8),
                 dict(file="image", kind="signal", n=5, ndata=16, bps=8), dict(file="image", kind="signal", n=7, ndata=16, bps=8), dict(file="volume", nfp=5)])
    parts = 4 if quick else 16
    tasks = []
    combos = [("1.5", "local", "local"), ("1.5", "local", "adjacent"), ("1.1", "local", "both"), ("1.5", "memory", "adjacent"), ("1.1", "vtrace", "adjacent"),
              ("1.1", "file", "local")]
    for ci, (level, fs, where) in enumerate(combos):
        for part in range(parts):
            tasks.append(dict(level=level, fs=fs, where=where, seed=chk.seed + ci, quick=quick, part=part, parts=parts))
    for ci, (level, fs, where) in enumerate([("1.5", "local", "local"), ("1.1", "local", "adjacent"), ("1.5", "memory", "both")]):
        for part in range(parts):  # products below non-ASCII paths (the path is stored in the document)
            tasks.append(dict(level=level, fs=fs, where=where, seed=chk.seed + 20 + ci, quick=quick, part=part, parts=parts, nonascii=True))
    results = checklib.pmap(planted, tasks, chk.scratch)
    npl = 0
    for res in results:
        t = res["task"]
        npl += res["n"]
        for k in res["lens"]:
            chk.count(1, f"{t['level']}:{t['fs']}:{t['where']}:{t.get('nonascii')}:{k}")
        seen = set()
        for what, k, msg in res["bad"]:
            if what in seen:
                continue
            seen.add(what)
            chk.violation(f"torn:{what}:{t['where']}", f"[{t['level']} on {t['fs']}] {msg}", {"task": t, "prefix": k})
    rtasks = [dict(level="1.5", seed=chk.seed + 50, mode="fsize", ks=[0, 1, 100, 4096, 5000] if quick else [0, 1, 7, 100, 1000, 4096, 4097, 8192, 10000, 15000]),
              dict(level="1.1", seed=chk.seed + 51, mode="fsize", ks=[2, 3000] if quick else [2, 50, 3000, 6000, 12000]),
              dict(level="1.5", seed=chk.seed + 52, mode="held-writer"),
              dict(level="1.5", seed=chk.seed + 53, mode="held-writer", second_writer=True),
              dict(level="1.5", seed=chk.seed + 54, mode="racing"),
              dict(level="1.1", seed=chk.seed + 56, mode="concurrent-readers"),
              dict(level="1.5", seed=chk.seed + 57, mode="unusable-cache-dir"),
              dict(level="1.1", seed=chk.seed + 58, mode="concurrent-cli", scansar=True),
              dict(level="1.5", seed=chk.seed + 55, mode="sigkill", lines=3000, delays=[0.6, 0.8, 0.9, 1.0] if quick else [0.3 + 0.05 * i for i in range(30)])]
    rres = checklib.pmap(real_crashes, rtasks, chk.scratch, procs=len(rtasks))
    nreal = 0
    held = 0
    for res in rres:
        t = res["task"]
        nreal += res["n"]
        chk.count(res["n"], f"real:{t['mode']}:{t['seed']}")
        held += sum(1 for e in res["events"] if e.get("writer_held_with_empty_file"))
        for what, msg in res["bad"]:
            chk.violation(f"real-crash:{t['mode']}:{what.split('-at-')[0].split('-racing-')[0]}", f"[{t['mode']}] {msg}", {"task": t, "events": res["events"]})
    chk.traces(len(results) + len(rres))
    chk.sample({"planted_prefixes": results[0]["lens"][:12], "where": results[0]["task"]["where"], "problems": results[0]["bad"][:2]})
    chk.sample({"real_crash_events": rres[0]["events"][:4]})
    if held == 0:
        chk.note("the strace-held writer was not observed with an empty file (timing); that scenario contributed no evidence in this run")
    chk.assumptions += ["crash model: whatever PREFIX of the index document is on disk (the writer truncates, then writes front to back); a hole can only "
                        "arise between two writers of byte-identical documents", "RLIMIT_FSIZE makes the kernel cut the real write at k bytes (EFBIG = disk full)"]
    from harness import sessioncheck

    sessioncheck.standard(chk)
    # ---- crash at every system-call boundary of the recorded writers (design-agnostic), traces validated by TLC (Trace_CacheSys)
    from harness import syscrash

    stasks = [dict(level=lv, seed=chk.seed + 300 + i, producer=pr, pre=pre) for i, (lv, pr, pre) in enumerate(
        [("1.5", "option", "empty"), ("1.1", "option", "torn"), ("1.5", "cli", "empty"), ("1.1", "option-default", "torn"), ("1.5", "cli", "torn"),
         ("1.1", "cli", "complete"), ("1.5", "option", "complete")])]
    sres = checklib.pmap(syscrash.scenario, stasks, chk.scratch)
    spath = os.path.join(chk.scratch, "cachesys.ndjson")
    with open(spath, "w") as f:
        for i, res in enumerate(sres):
            for ln in res["lines"]:
                if ln["e"] == "hdr":
                    ln["tid"] = i + 1
                f.write(json.dumps(ln) + "\n")
    if any(res["lines"] for res in sres):
        rs = tlc.run_ok("Trace_CacheSys", "Trace_CacheSys", workers=1, env={"TRACE_FILE": spath})
        chk.tlc_stats(rs)
        import re as _re

        for m in _re.finditer(r'<<"VERDICT", (\d+), "(\w+)", (\d+), "([^"]*)">>', rs.out):
            if m.group(2) == "rejected":
                t = sres[int(m.group(1)) - 1]["task"]
                chk.note(f"DRIFT (writer at system-call grain, {t['producer']}): {m.group(4)} at line {m.group(3)} -- the writer no longer follows Trunc ; WriteBlk* "
                         "(informational: the crash states below are derived from what it really does)")
    nstates = 0
    for res in sres:
        t = res["task"]
        nstates += res["states"]
        chk.count(res["states"], f"syscall-crash:{t['producer']}:{t['pre']}")
        for what, msg in res["bad"][:3]:
            chk.violation(f"syscall-crash:{what.split(':')[0]}:{t['producer']}", msg, {"task": t, "state": res.get("first_bad_state")})
    chk.traces(len(sres))
    chk.sample({"syscall_crash": [dict(res["task"], calls=res["calls"], crash_states=res["states"]) for res in sres[:3]]})
    chk.finish(rule="crash points = prefix lengths of the real index document (quick: structural boundaries +-1 + 24 evenly spaced; thorough: every byte) x "
                    "{local, adjacent, both} x 4 filesystems x 2 levels, each followed by default open / create_cache / use_cache; + real interrupted "
                    "writers (file-size limit, SIGKILL, strace-held writer with concurrent reader and second writer, racing writers); distinct = "
                    "(product, location, prefix length)", exhaustive=not quick,
               extra={"planted": npl, "real_crash_runs": nreal, "held_writer_observed": held})


if __name__ == "__main__":
    checklib.main(body, "C09", level="model_checking")
