"""C16 -- volume-directory fields surface unchanged as root attributes.

spec    Layout.tla (volume descriptor, file pointer, text record), FileFormat.tla (0..12 file pointers between descriptor
        and text record; Framing checks the cursor for every count), OutMap.tla (attribute names); Fields.tla invariants.
bind    value plans over printable field contents of every width (full width, inner / leading / trailing blanks, punctuation,
        quotes, all-blank), valid creation timestamps, 0..12 file-pointer records -> open_alos2(...).attrs compared with what
        was written (stripped text; creation date-time compared as an instant of the ISO-8601 string)."""
from checks import _layoutcommon as lc
from harness import checklib

STAMPS = ["2020022923595999", "2014010100000000", "2049123123595999", "2016022900000001", "2019030112000050"]


def body(chk):
    from harness import plans, tlc

    lc.run_tables_model(chk)
    r = tlc.run_ok("MC_Framing", "MC_Framing_quick", workers=16, timeout=1200)
    chk.tlc_stats(r)
    for v in r.violated:
        chk.violation(f"model:{v}", f"TLC: {v} violated in Framing", {"tlc": r.out[-2000:]})
    cases = []
    K = len(plans.CLASSES)
    for nfp in range(0, 13):
        ks = range(K) if chk.tier == "thorough" else [(nfp + j) % K for j in (0, 5)]
        for k in ks:
            cases.append(dict(level="1.5" if nfp % 2 else "1.1", seed=chk.seed + nfp, k=k, nfp=nfp, files=("VOL",),
                              images=(("HH", None, 1, 1),), ctx=dict(creation_datetime=STAMPS[(nfp + k) % len(STAMPS)]),
                              fs="vtrace" if k % 2 else "local"))
    for k in range(K):  # every class at the default pointer count
        cases.append(dict(level="1.5", seed=chk.seed + 50, k=k, files=("VOL",), images=(("HH", None, 1, 1), ("HV", None, 1, 1)),
                          ctx=dict(creation_datetime=STAMPS[k % len(STAMPS)]), fs="local"))
    n_rand = 20 if chk.tier == "quick" else 600
    for j in range(n_rand):
        cases.append(dict(level="1.5", seed=chk.seed + 2000 + j, k=j, random_classes=True, nfp=j % 13, files=("VOL",),
                          images=(("HH", None, 1, 1),), ctx=dict(creation_datetime=STAMPS[j % len(STAMPS)]), fs="local"))
    # "all valid creation timestamps": the 16-character field is YYYYMMDDhhmmss + hundredths; Calendar!CompactRoundTrip states the exact
    # decimal meaning of the two decimals.  Seconds x hundredths are swept (quick: a seeded sample; thorough: all 6000), dates rotate
    import random as _r

    rr = _r.Random(chk.seed + 77)
    ssff = [(a, b) for a in range(60) for b in range(100)]
    pick = ssff if chk.tier == "thorough" else rr.sample(ssff, 800)
    days = ["20200229", "20141231", "20490101", "20160301", "20191130"]
    for j, (ss, ff) in enumerate(pick):
        stamp = f"{days[j % len(days)]}{(j * 7) % 24:02d}{(j * 13) % 60:02d}{ss:02d}{ff:02d}"
        cases.append(dict(level="1.5", seed=chk.seed + 9000 + j % 3, k=0, files=("VOL",), images=(("HH", None, 1, 1),), nfp=3, ctx=dict(creation_datetime=stamp),
                          fs="local", stamp=stamp))
    # a transient fault while the volume directory / leader / summary is fetched: open may raise, it must not return other attributes
    for j, f in enumerate(["vol", "led", "summary", "vol"]):
        cases.append(dict(level=("1.5", "1.1")[j % 2], seed=chk.seed + 700 + j, k=j, files=("VOL",), images=(("HH", None, 1, 1),), fs="vtrace",
                          flaky_open=dict(file=f), ctx=dict(creation_datetime=STAMPS[j % len(STAMPS)]), stamp=f"fault-{f}"))
    # every text field blank on its own (the others filled): the attribute is the empty string, nothing is borrowed from elsewhere
    for j in range(16):
        cases.append(dict(level="1.5", seed=chk.seed + 720 + j, k=j % K, files=("VOL",), images=(("HH", None, 1, 1),), fs="local", blank_text=j,
                          ctx=dict(creation_datetime=STAMPS[j % len(STAMPS)]), stamp=f"blank-{j}"))
    # the file continues after its last record (padded to a 512-byte block with NULs / blanks, or followed by other bytes)
    for j, tr in enumerate([("nul", 152), ("blank", 512), ("junk", 45), ("nul", 1)]):
        cases.append(dict(level="1.5", seed=chk.seed + 760 + j, k=j, files=("VOL",), images=(("HH", None, 1, 1),), nfp=(None, 0, 12, 3)[j], fs=("local", "vtrace")[j % 2],
                          vol_trailing=tr, ctx=dict(creation_datetime=STAMPS[j % len(STAMPS)]), stamp=f"trailing-{tr[0]}{tr[1]}"))
    # all text fields blank at once (padding only): attributes are empty strings, nothing else changes
    # more file pointers than any product has (the count is a count, not a class): 22, 23, 30, 100
    for j, nfp in enumerate((22, 23, 30, 100)):
        cases.append(dict(level="1.5", seed=chk.seed + 780 + j, k=j, nfp=nfp, files=("VOL",), images=(("HH", None, 1, 1),), fs="local",
                          ctx=dict(creation_datetime=STAMPS[j % len(STAMPS)]), stamp=f"nfp{nfp}"))
    # inputs the format does not admit (the required creation date-time blank) may be refused -- and must leave no trace: they are
    # interleaved with the ordinary cases so that every worker process meets one before ordinary volume directories
    rej = [dict(level="1.5", seed=chk.seed + 790 + j, k=j % K, files=("VOL",), images=(("HH", None, 1, 1),), fs="local", may_reject=True,
                blank=[("VOL", "volume_descriptor", 0, "logical_volume_creation_datetime")], stamp=f"blank-required-{j}") for j in range(16)]
    step = max(1, len(cases) // len(rej))
    for j, v in enumerate(rej):
        cases.insert(j * (step + 1), v)
    # the descriptor's COUNT of text records (the reader finds the one text record structurally, behind the pointer records): a file that
    # states 0 / 2 / 3 / nothing there may be refused as inconsistent -- but if it is opened, the text record's fields are the root attributes
    for j, folders in enumerate((["previous"], ["orig", "BACKUP"], ["zzz_old", "_saved"], ["VOL"], ["previous"])):
        cases.append(dict(level="1.5", seed=chk.seed + 840 + j, k=j, nfp=(3, 4, 5)[j % 3], files=("VOL",), images=(("HH", None, 1, 1),), fs=("local", "vtrace", "memory")[j % 3],
                          clutter=folders, stamp=f"clutter-{'+'.join(folders)}"))
    fcount = ("VOL", "volume_descriptor", 0, "number_of_text_records_in_volume_directory")
    for j in range(3):   # FileFormat!Informational alternatives (2, 3, 0 text records declared; other record sequence numbers)
        for nfp in (3, 5, 12):
            cases.append(dict(level="1.5", seed=chk.seed + 820 + j, k=j, nfp=nfp, files=("VOL",), images=(("HH", None, 1, 1),), fs="local", informational=j, stamp=f"informational-{j}"))
    for nfp in (3, 5):   # ... and the count left blank: refusing that file is fine, opening it with other root attributes is not
        cases.append(dict(level="1.5", seed=chk.seed + 830, k=1, nfp=nfp, files=("VOL",), images=(("HH", None, 1, 1),), fs="local", may_reject="or-right", blank=[fcount], stamp="text-count-blank"))
    for j, c in enumerate(cases):   # rotating process-wide xarray options of the caller
        if j % 4 == 1 and not c.get("may_reject"):
            c["xr_options"] = ({"keep_attrs": False}, {"keep_attrs": True}, {"keep_attrs": False, "display_width": 40, "arithmetic_join": "exact"})[(j // 4) % 3]
    results, total = lc.replay(chk, cases, "volume", lambda c: f"plan={c['k']}{'r' if c.get('random_classes') else ''}:nfp={c.get('nfp')}" + (f":stamp={c['stamp'][12:]}" if c.get("stamp") else ""))
    ok = next(r for r in results if r["open"] == "ok" and not r["case"].get("may_reject"))
    chk.sample({"plan": ok["case"]["k"], "file_pointer_records": ok["case"].get("nfp"), "attributes_compared": ok["n"]})
    chk.assumptions += ["creation date-time: the ISO-8601 attribute is compared as an instant with the 16-character field"]
    from harness import sessioncheck

    sessioncheck.standard(chk)
    from harness import envrun

    envrun.run(chk, {"root_attrs", "spurious_error"})
    chk.finish(rule="a case = one volume directory with every text field holding a token of a rotating class, 0..12 file pointers, "
                    "5 boundary timestamps; evaluations = attributes compared; distinct = (plan, pointer count)",
               exhaustive=False, extra={"leaves_compared": total})


if __name__ == "__main__":
    checklib.main(body, "C16")
