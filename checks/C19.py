"""C19 -- concurrent reads are safe: parallel loads equal sequential loads.

spec    Loads.tla: threads x variables x chunks; per-variable serialisable lock; the file system serves a read from the handle's
        CURRENT position.  TLC (all interleavings, weak fairness): ServedIsWanted, ResultsSequential, MutualExclusion,
        Termination hold for the code's design (fresh handle per load: same variable, different variables, three threads, even
        without the lock; shared handle with the lock) and MC_Loads_bug (shared handle, no lock) MUST fail with the
        seek / seek / read counterexample (non-vacuity).
bind    a deterministic scheduler owns the yield points (open / seek / read / close) of the vtrace filesystem; (a) schedules
        taken from TLC behaviours of Loads.tla (simulation) and ALL 70 interleavings of two one-chunk loads are replayed on real
        trees: same variable, two variables of one tree, pickled copies of a variable, three threads; (b) every REALISED schedule
        is recorded and validated by TLC (Trace_Loads: every read served from the offset its own thread sought; each thread's
        values equal the sequential load; no deadlock).  A step naming a thread the implementation keeps blocked is skipped."""
import itertools
import json
import os
import pickle
import re

from harness import checklib


def interleavings(a, b):
    """all merges of two sequences"""
    n, m = len(a), len(b)
    for pos in itertools.combinations(range(n + m), n):
        s = [None] * (n + m)
        ia = iter(a)
        ib = iter(b)
        ps = set(pos)
        for i in range(n + m):
            s[i] = next(ia) if i in ps else next(ib)
        yield s


def run_schedules(task):
    import ceos_alos2

    from harness import oracle, product, sched, tracefs

    b = product.build_product(level=task["level"], images=(("HH", None, 8, 3), ("HV", None, 8, 3), ("VV", None, 4, 2)), seed=task["seed"])
    url = tracefs.put_product(f"c19_{os.getpid()}_{task['seed']}", b.files)
    out = {"task": {k: v for k, v in task.items() if k != "scripts"}, "traces": []}
    if task["scenario"] == "copy-memfs":
        # a file system that hands out ONE file object per path (like fsspec's memory://): only the lock keeps two readers apart
        tracefs.SHARED.add(tracefs.norm(url))
    try:
        tree = ceos_alos2.open_alos2(url, backend_options=dict(use_cache=False, records_per_chunk=2))
        if task["scenario"] == "copy-memfs":
            tree2 = pickle.loads(pickle.dumps(tree))  # copied BEFORE anything was loaded from the tree (open, ship to workers, load)
            hh2 = tree2[f"imagery/{b.images[0]['group']}/data"]
        hh, hv, vv = (tree[f"imagery/{im['group']}/data"] for im in b.images)
        sc = task["scenario"]
        for script in task["scripts"]:
            if sc == "same":
                plan = {"t1": (hh, 0, [0, 1, 2, 3]), "t2": (hh, 0, [4, 5, 6, 7])}
            elif sc == "diff":
                plan = {"t1": (hh, 0, [0, 1, 2, 3]), "t2": (hv, 1, [2, 3, 4, 5])}
            elif sc == "pickled":
                cp = pickle.loads(pickle.dumps(hh))
                plan = {"t1": (hh, 0, [0, 1, 2, 3]), "t2": (cp, 0, [4, 5, 6, 7])}
            elif sc == "same-line":
                # the same line asked for as an integer (axis dropped) and as a one-line block (axis kept), at the same time
                plan = {"t1": (hh, 0, 3), "t2": (hh, 0, slice(3, 4)), "t3": (hh, 0, [3])}
            elif sc == "two-trees":
                if "tree_b" not in out:
                    out["tree_b"] = ceos_alos2.open_alos2(url, backend_options=dict(use_cache=False, records_per_chunk=2))
                hb = out["tree_b"][f"imagery/{b.images[0]['group']}/data"]
                plan = {"t1": (hh, 0, [0, 1, 2, 3]), "t2": (hb, 0, [4, 5, 6, 7])}
            elif sc == "copy-memfs":
                plan = {"t1": (hh, 0, [0, 1, 2, 3]), "t2": (hh2, 0, [4, 5, 6, 7])}
            elif sc == "one-chunk":
                plan = {"t1": (hh, 0, [0, 1]), "t2": (hv, 1, [6, 7])}
            else:  # three
                plan = {"t1": (hh, 0, [0, 1]), "t2": (hh, 0, [2, 3, 4, 5]), "t3": (vv, 2, [2, 3])}
            tracefs.take_log()
            S = sched.Scheduler()
            workers = {n: (lambda da=da, rows=rows: da.isel(rows=rows).values) for n, (da, _, rows) in plan.items()}
            shapes = {n: ((b.images[ii]["p"],) if isinstance(rows, int) else None) for n, (da, ii, rows) in plan.items()}
            plan = {n: (da, ii, [rows] if isinstance(rows, int) else (list(range(8))[rows] if isinstance(rows, slice) else rows)) for n, (da, ii, rows) in plan.items()}
            r = S.run(workers, script)
            evs = tracefs.take_log()
            names = {ident: nm for ident, nm in S.names.items()}
            lines = []
            for ev in evs:
                t = names.get(ev.get("t"))
                if t is None:
                    continue
                e = {"e": ev["e"], "t": t, "h": ev.get("h", 0)}
                for k in ("off", "pos", "got"):
                    if k in ev:
                        e[k] = ev[k]
                lines.append(e)
            for n, (da, ii, rows) in plan.items():
                if n in r["errors"]:
                    outcome = "error"
                else:
                    got = r["results"].get(n)
                    if n in r["results"] and shapes.get(n) is not None:
                        msg = f"shape {got.shape}, expected {shapes[n]} (an integer index drops the axis)" if tuple(got.shape) != shapes[n] else oracle.pixels_match(got.reshape(1, -1), b.images[ii], rows=rows)
                    else:
                        msg = oracle.pixels_match(got, b.images[ii], rows=rows) if n in r["results"] else "no result"
                    outcome = "sequential" if msg is None else "differs"
                lines.append({"e": "ret", "t": n, "outcome": outcome, "msg": r["errors"].get(n, "")})
            lines.append({"e": "end", "deadlock": bool(r["deadlock"])})
            out["traces"].append({"script": script, "lines": lines, "skipped": r["skipped"], "realised": r["realised"]})
            if r["deadlock"]:
                break  # established: the stuck threads keep their locks, every further script of this task would only wait for the same time-out
    finally:
        out.pop("tree_b", None)
        tracefs.SHARED.discard(tracefs.norm(url))
        tracefs.remove(url)
    return out


def big_load(task):
    """loads of several MB spanning several groups on a non-local filesystem whose reads take a moment (jitter): whatever threads the
    implementation uses internally share the load's handle -- alone and from two user threads at once"""
    import threading

    import ceos_alos2

    from harness import bigimg, oracle, tracefs

    b = bigimg.build("1.5", 24, 250000, task["seed"])
    url = tracefs.put_product(f"c19big_{os.getpid()}_{task['seed']}", b.files)
    out = {"task": task, "bad": []}
    try:
        tracefs.JITTER[0] = 0.001
        tree = ceos_alos2.open_alos2(url, backend_options=dict(use_cache=False, records_per_chunk=4))
        da = tree[f"imagery/{b.images[0]['group']}/data"]
        im = b.images[0]
        cols = list(range(0, 250000, 9973))

        def load(rows, res, key):
            try:
                v = da.isel(rows=rows).values
                res[key] = oracle.pixels_match(v[:, cols], im, rows=rows, cols=cols)
            except BaseException as e:  # noqa: B902
                res[key] = f"raised {type(e).__name__}: {str(e)[:120]}"

        res = {}
        load(list(range(24)), res, "alone")
        ts = [threading.Thread(target=load, args=(list(range(0, 16)), res, "t1"), daemon=True), threading.Thread(target=load, args=(list(range(8, 24)), res, "t2"), daemon=True)]
        for t in ts:
            t.start()
        for t in ts:
            t.join(120)
        for k in ("t1", "t2"):
            if k not in res:
                res[k] = "did not complete within 120 s (deadlock)"
        for k, msg in res.items():
            if msg:
                out["bad"].append((k, msg))
    finally:
        tracefs.JITTER[0] = 0.0
        tracefs.remove(url)
    return out


def stall_load(task):
    """a request that hangs for `hold` seconds inside one load (the variable's lock is held all that time) on a file system that hands
    out ONE file object per path, while a second load of the same variable -- through the same tree or a pickled copy -- starts:
    however long it has to wait, both loads return what they return alone (a lock wait that gives up after a while does not)"""
    import threading
    import time

    import ceos_alos2

    from harness import oracle, product, tracefs

    b = product.build_product(level=task["level"], images=(("HH", None, 8, 3), ("HV", None, 8, 3)), seed=task["seed"])
    url = tracefs.put_product(f"c19stall_{os.getpid()}_{task['seed']}", b.files)
    tracefs.SHARED.add(tracefs.norm(url))
    out = {"task": task, "bad": []}
    try:
        tree = ceos_alos2.open_alos2(url, backend_options=dict(use_cache=False, records_per_chunk=2))
        im = b.images[0]
        da = tree[f"imagery/{im['group']}/data"]
        other = pickle.loads(pickle.dumps(tree))[f"imagery/{im['group']}/data"] if task["via"] == "pickled" else da
        res = {}

        def load(d, rows, key):
            try:
                res[key] = oracle.pixels_match(d.isel(rows=rows).values, im, rows=rows)
            except BaseException as e:  # noqa: B902
                res[key] = f"raised {type(e).__name__}: {str(e)[:120]}"

        path = f"{tracefs.norm(url)}/{im['name']}"
        tracefs.STALL[path] = [task["hold"], 1]
        t1 = threading.Thread(target=load, args=(da, [0, 1, 2, 3], "stalled load"), daemon=True)
        t2 = threading.Thread(target=load, args=(other, [4, 5, 6, 7], "waiting load"), daemon=True)
        t1.start()
        time.sleep(0.5)
        t2.start()
        t1.join(task["hold"] + 60)
        t2.join(60)
        for k in ("stalled load", "waiting load"):
            if k not in res:
                out["bad"].append((k, "did not complete (deadlock)"))
            elif res[k]:
                out["bad"].append((k, res[k]))
    finally:
        tracefs.STALL.clear()
        tracefs.SHARED.discard(tracefs.norm(url))
        tracefs.remove(url)
    return out


def crowd_load(task):
    """`k` free-running threads (no forced schedule) loading at the same time: one thread per image of a quad-polarisation product,
    then several per image; every load must complete and equal the single-threaded one -- for more loads in flight than any fixed
    budget of handles / connections / slots a loader may keep"""
    import threading

    import ceos_alos2

    from harness import imgrun, oracle, product

    b = product.build_product(level=task["level"], images=tuple((pol, None, 6, 3) for pol in ("HH", "HV", "VH", "VV")), seed=task["seed"])
    url = imgrun.put_on_fs(b, task["fs"], f"c19crowd_{task['seed']}")
    out = {"task": task, "bad": [], "loads": 0}
    try:
        tree = ceos_alos2.open_alos2(url, backend_options=dict(use_cache=False, records_per_chunk=2))
        das = [tree[f"imagery/{im['group']}/data"] for im in b.images]
        import sys as _sys

        swi = _sys.getswitchinterval()
        for k in task["threads"]:
            res = {}
            # alternately the ordinary 5 ms switch interval and 1 us (a thread switch between almost any two byte codes)
            _sys.setswitchinterval(1e-6 if k % 2 else swi)

            def load(i, key):
                try:
                    for rep in range(task["reps"]):
                        # (many DIFFERENT selections: whatever a loader memoises per selection fills up and turns over)
                        a_, b_ = (i + rep) % 6, (i * 7 + rep * 5 + 3) % 6
                        rows = [[a_, b_], [a_], list(range(a_, 6)), list(range(0, b_ + 1)), [b_, a_, b_]][(i + rep) % 5]
                        msg = oracle.pixels_match(das[i % 4].isel(rows=rows).values, b.images[i % 4], rows=rows)
                        if msg:
                            res[key] = msg
                            return
                    res[key] = None
                except BaseException as e:  # noqa: B902
                    res[key] = f"raised {type(e).__name__}: {str(e)[:120]}"

            ts = [threading.Thread(target=load, args=(i, i), daemon=True) for i in range(k)]
            for t in ts:
                t.start()
            for t in ts:
                t.join(300)
            out["loads"] += k * task["reps"]
            stuck = [i for i in range(k) if i not in res]
            if stuck:
                out["bad"].append((f"{k}-threads", f"{len(stuck)} of {k} concurrent loads (one thread each, images HH/HV/VH/VV) did not complete within 300 s (deadlock)"))
                break
            for i, msg in res.items():
                if msg:
                    out["bad"].append((f"{k}-threads", f"thread {i} (image {b.images[i % 4]['group']}): {msg}"))
    finally:
        import sys as _sys2

        _sys2.setswitchinterval(0.005)
        if not any("deadlock" in m for _, m in out["bad"]):
            imgrun.drop_from_fs(url, task["fs"])
    return out


def line_schedules(task):
    """LINE-GRAIN schedules.  Loads.tla interleaves loads at their file operations and treats everything a load does between two of them
    (planning the selection, decoding) as thread-local -- an assumption about the code, not a theorem.  This binds it: after a HISTORY of
    H different selections (whatever a loader memoises per selection is full and its oldest entry is the one loaded first), thread T1
    re-loads the first selection and is parked before its k-th SOURCE LINE inside the ceos_alos2 package (sys.settrace in that thread);
    T2 then loads a selection never loaded before -- from another image (no common lock) or from the same one -- to its end, or until it
    blocks on T1's lock; T1 is released.  Both results must equal the single-threaded values; nothing may raise."""
    import os as _os
    import sys as _sys
    import threading

    import ceos_alos2

    from harness import imgrun, oracle, product

    n_, p_ = 64, 3
    b = product.build_product(level=task["level"], images=(("HH", None, n_, p_), ("HV", None, n_, p_)), seed=task["seed"], pixel_special=False)
    url = imgrun.put_on_fs(b, "local", f"c19line_{task['seed']}_{task['H']}")
    out = {"task": task, "bad": [], "n": 0, "lines": 0}
    pkg = _os.path.dirname(_os.path.abspath(ceos_alos2.__file__)) + _os.sep
    try:
        tree = ceos_alos2.open_alos2(url, backend_options=dict(use_cache=False, records_per_chunk=4))
        das = [tree[f"imagery/{im['group']}/data"] for im in b.images]
        import pickle as _pickle

        tree_p = _pickle.loads(_pickle.dumps(tree))   # which = 2 / 3: T2 loads the same / the other image through a pickled copy of the tree
        das += [tree_p[f"imagery/{im['group']}/data"] for im in b.images]
        # H distinct windows of HH: single lines first, then 2-line, 3-line ... windows
        wins = [(a, a + w) for w in range(1, 6) for a in range(0, n_ - w + 1)][:task["H"]]
        fresh = iter([(a, a + w) for w in range(7, 40) for a in range(0, n_ - w + 1)])

        def history():
            for a, z in wins:
                das[0].isel(rows=slice(a, z)).values

        def t1_body(k, count, parked, gate, res):
            def local(frame, event, arg):
                if event == "line":
                    count[0] += 1
                    if count[0] == k:
                        parked.set()
                        gate.wait(60)
                return local

            def tracer(frame, event, arg):
                return local if frame.f_code.co_filename.startswith(pkg) else None

            rows = list(range(*wins[0]))
            _sys.settrace(tracer)
            try:
                v = das[0].isel(rows=slice(*wins[0])).values
                _sys.settrace(None)
                res["T1"] = oracle.pixels_match(v, b.images[0], rows=rows)
            except BaseException as e:  # noqa: B902
                _sys.settrace(None)
                res["T1"] = f"raised {type(e).__name__}: {str(e)[:100]}"
            finally:
                parked.set()

        def t2_body(which, win, res):
            rows = list(range(*win))
            try:
                res["T2"] = oracle.pixels_match(das[which].isel(rows=slice(*win)).values, b.images[which % 2], rows=rows)
            except BaseException as e:  # noqa: B902
                res["T2"] = f"raised {type(e).__name__}: {str(e)[:100]}"

        # dry run: number of package lines of T1's load
        history()
        cnt = [0]
        ev = threading.Event()
        r0 = {}
        t = threading.Thread(target=t1_body, args=(-1, cnt, ev, ev, r0), daemon=True)
        t.start()
        t.join(120)
        total = cnt[0]
        out["lines"] = total
        if r0.get("T1"):
            out["bad"].append(("line-grain:dry-run", f"single-threaded re-load after a history of {task['H']} selections: {r0['T1']}"))
            return out
        dense = task["dense"]
        ks = [k for k in range(1, total + 1) if k <= dense or (k - dense) % max(1, (total - dense) // task["sparse"]) == 0]
        for k in ks:
            for which in task["others"]:
                history()
                win = next(fresh)
                cnt, parked, gate, res = [0], threading.Event(), threading.Event(), {}
                t1 = threading.Thread(target=t1_body, args=(k, cnt, parked, gate, res), daemon=True)
                t1.start()
                if not parked.wait(60):
                    out["bad"].append(("line-grain:stuck", f"T1 did not reach line {k} of {total} within 60 s"))
                    return out
                t2 = threading.Thread(target=t2_body, args=(which, win, res), daemon=True)
                t2.start()
                t2.join(0.15 if which % 2 == 0 else 20)   # (same image, also through the pickled copy: T2 may legitimately wait for T1's lock)
                gate.set()
                t1.join(120)
                t2.join(120)
                out["n"] += 1
                if t1.is_alive() or t2.is_alive():
                    out["bad"].append(("line-grain:deadlock", f"history {task['H']}, T1 parked before its package line {k}/{total}, T2 = {b.images[which % 2]['group']}{list(win)}{' (pickled copy)' if which > 1 else ''}: did not complete within 120 s"))
                    return out
                for who in ("T1", "T2"):
                    if res.get(who):
                        out["bad"].append((f"line-grain:{who}:{'other' if which % 2 else 'same'}-image{'-pickled' if which > 1 else ''}",
                                           f"history of {task['H']} selections; T1 re-loads HH{list(wins[0])} and is parked before its package line {k}/{total}; T2 loads "
                                           f"{b.images[which % 2]['group']}{list(win)}{' through a pickled copy of the tree' if which > 1 else ''} (never loaded before); T1 released: {who} {res[who]}"))
                if out["bad"]:
                    return out
    finally:
        _sys.settrace(None)
        imgrun.drop_from_fs(url, "local")
    return out


class _Gate:
    """parks ONE thread at its k-th file-system operation until released (the yield points of the tracing filesystem)"""

    def __init__(self, ident, k):
        import threading

        self.ident, self.k, self.n = ident, k, 0
        self.reached, self.release = threading.Event(), threading.Event()

    def yield_point(self, ev):
        import threading

        if threading.get_ident() != self.ident:
            return
        self.n += 1
        if self.n == self.k:
            self.reached.set()
            self.release.wait(30)


def copy_mid_load(task):
    """the tree is pickled / deep-copied by the main thread WHILE a worker thread is in the middle of a load (parked at its k-th file
    operation, holding whatever a load holds); the first load from each copy is then made by that same worker: it returns what a
    single-threaded load returns (copies carry no trace of the moment they were taken)"""
    import copy
    import threading

    import ceos_alos2

    from harness import oracle, product, tracefs

    b = product.build_product(level=task["level"], images=(("HH", None, 8, 3), ("HV", None, 8, 3)), seed=task["seed"])
    url = tracefs.put_product(f"c19mid_{os.getpid()}_{task['seed']}", b.files)
    out = {"task": task, "bad": [], "n": 0}
    try:
        tree = ceos_alos2.open_alos2(url, backend_options=dict(use_cache=False, records_per_chunk=2))
        im = b.images[0]
        for k in range(1, 9):
            box, copies = {}, {}
            gate_ready = threading.Event()

            def worker():
                try:
                    gate_ready.wait(60)
                    v = tree[f"imagery/{im['group']}/data"].isel(rows=[0, 1, 2, 3]).values
                    box["first"] = oracle.pixels_match(v, im, rows=[0, 1, 2, 3])
                    for how, cp in list(copies.items()):
                        try:
                            v2 = cp[f"imagery/{im['group']}/data"].isel(rows=[4, 5, 6, 7]).values
                            box[how] = oracle.pixels_match(v2, im, rows=[4, 5, 6, 7])
                        except BaseException as e:  # noqa: B902
                            box[how] = f"raised {type(e).__name__}: {str(e)[:120]}"
                except BaseException as e:  # noqa: B902
                    box["first"] = f"raised {type(e).__name__}: {str(e)[:120]}"

            t = threading.Thread(target=worker, daemon=True)
            t.start()
            gate = _Gate(t.ident, k)
            tracefs.SCHED[0] = gate
            gate_ready.set()
            parked = gate.reached.wait(60)
            try:
                copies["pickled copy"] = pickle.loads(pickle.dumps(tree))
                copies["deep copy"] = copy.deepcopy(tree)
                copies["tree.copy()"] = tree.copy()
            except BaseException as e:  # noqa: B902
                out["bad"].append((f"copy-mid-load:{k}", f"copying the tree while a load is at its file operation #{k} raised {type(e).__name__}: {str(e)[:120]}"))
            gate.release.set()
            t.join(60)
            tracefs.SCHED[0] = None
            out["n"] += 1 + len(copies)
            if t.is_alive():
                out["bad"].append((f"copy-mid-load:{k}", "the load did not complete within 60 s after the copies were taken (deadlock)"))
                break
            for how, msg in box.items():
                if msg:
                    out["bad"].append((f"copy-mid-load:{how}", f"copy taken while a load of the same variable was at its file operation #{k}{'' if parked else ' (not reached)'}; "
                                       f"{'the interrupted load itself' if how == 'first' else 'first load from the ' + how + ', made by the thread that was loading'}: {msg}"))
            if out["bad"]:
                break
    finally:
        tracefs.SCHED[0] = None
        tracefs.remove(url)
    return out


def gc_stress(task):
    """the garbage collector as a party to the schedule: with collection thresholds of 1 a collection (and with it every finalizer /
    weak-reference callback of dropped, already-read tree copies caught in reference cycles) can start at almost any allocation of a
    load -- also inside whatever critical section a load has.  Loads must complete and be right."""
    import gc
    import threading

    import ceos_alos2

    from harness import imgrun, oracle, product

    b = product.build_product(level=task["level"], images=(("HH", None, 6, 3), ("HV", None, 6, 3)), seed=task["seed"])
    url = imgrun.put_on_fs(b, task["fs"], f"c19gc_{task['seed']}")
    out = {"task": task, "bad": [], "n": 0}
    old = gc.get_threshold()
    try:
        tree = ceos_alos2.open_alos2(url, backend_options=dict(use_cache=False, records_per_chunk=2))
        done = threading.Event()
        box = {}

        def work():
            try:
                gc.set_threshold(1, 1, 1)
                for it in range(task["iterations"]):
                    cp = pickle.loads(pickle.dumps(tree))
                    im = b.images[it % 2]
                    rows = [it % 6, (it + 2) % 6]
                    msg = oracle.pixels_match(cp[f"imagery/{im['group']}/data"].isel(rows=rows).values, im, rows=rows)
                    cyc = [cp]
                    cyc.append(cyc)          # only the collector can free this copy
                    del cp, cyc
                    msg = msg or oracle.pixels_match(tree[f"imagery/{im['group']}/data"].isel(rows=rows).values, im, rows=rows)
                    if msg:
                        box["bad"] = f"iteration {it}: {msg}"
                        break
                    box["n"] = it + 1
            except BaseException as e:  # noqa: B902
                box["bad"] = f"raised {type(e).__name__}: {str(e)[:120]}"
            finally:
                gc.set_threshold(*old)
                done.set()

        ts = [threading.Thread(target=work, daemon=True) for _ in range(task["threads"])]
        for t in ts:
            t.start()
        for t in ts:
            t.join(400)
        out["n"] = box.get("n", 0)
        if any(t.is_alive() for t in ts):
            out["bad"].append(("gc-stress:deadlock", f"loads stopped making progress after {box.get('n', 0)} iterations with the collector running at every allocation "
                               f"(dropped, already-read tree copies in reference cycles): no completion within 400 s"))
        elif box.get("bad"):
            out["bad"].append(("gc-stress:values", box["bad"]))
    finally:
        gc.set_threshold(*old)
        if not any("deadlock" in k for k, _ in out["bad"]):
            imgrun.drop_from_fs(url, task["fs"])
    return out


def run_any(item):
    kind, t = item
    return {"stall": stall_load, "crowd": crowd_load, "sched": run_schedules, "mid": copy_mid_load, "gc": gc_stress, "line": line_schedules}[kind](t)


def scripts_from_tlc(cfg, n, depth, seed):
    from harness import behaviours

    bs, r = behaviours.simulate("MC_Loads", cfg, n, depth, seed)
    scripts = []
    for beh in bs:
        s = []
        for st in beh:
            if st["action"] in ("FOpen", "Seek", "Read", "FClose"):
                s.append("t" + st["args"][0])
        if s:
            scripts.append(s)
    return scripts, r


def body(chk):
    from harness import tlc
    from harness import layout as L

    for cfg in ("MC_Loads_same", "MC_Loads_diff", "MC_Loads_nolock", "MC_Loads_sharedlocked", "MC_Loads_three", "MC_Loads_four"):
        r = tlc.run_ok("MC_Loads", cfg, workers=8, coverage=(cfg == "MC_Loads_diff"))
        chk.tlc_stats(r)
        for v in r.violated:
            chk.violation(f"model:{cfg}:{v}", f"TLC: {v} violated in Loads ({cfg})", {"tlc": r.out[-3000:]})
    # the planning phase before the first file operation (LoadsPlan.tla): thread-local in the code's design ("none"); a shared memo is safe when
    # its look-up is one step ("atomic") and when it is not full (cta_Hist2); the check-then-act look-up on a full memo MUST fail -- that
    # behaviour is what line_schedules() realises on the real code
    for cfg in ("MC_LoadsPlan_none_Hist4", "MC_LoadsPlan_none_Hist2", "MC_LoadsPlan_atomic_Hist4", "MC_LoadsPlan_atomic_Hist2", "MC_LoadsPlan_cta_Hist2"):
        r = tlc.run_ok("MC_LoadsPlan", cfg, workers=2)
        chk.tlc_stats(r)
        for v in r.violated:
            chk.violation(f"model:{cfg}:{v}", f"TLC: {v} violated in LoadsPlan ({cfg})", {"tlc": r.out[-3000:]})
    rp = tlc.run("MC_LoadsPlan", "MC_LoadsPlan_cta_Hist4", workers=2)
    if "NoSpuriousError" not in rp.violated:
        raise checklib.Machinery("non-vacuity: a check-then-act look-up in a full shared memo must break NoSpuriousError in LoadsPlan")
    # beyond the bound: the same protocol for ANY number of threads / variables / chunks, proved with TLAPS over Loads.tla itself
    from harness import tlaps

    tlaps.prove(chk, "LoadsProofs")
    tlaps.prove(chk, "LoadsLockProofs")
    rc = tlc.run("MC_Loads", "MC_Loads_copylock_bug", workers=4)
    if "ServedIsWanted" not in rc.violated:
        raise checklib.Machinery("non-vacuity: a copy with a lock of its own on a shared file object must break ServedIsWanted in the model")
    rb = tlc.run("MC_Loads", "MC_Loads_bug", workers=4)
    if "ServedIsWanted" not in rb.violated:
        raise checklib.Machinery("non-vacuity: TLC did not find the seek/seek/read counterexample with a shared handle and no lock")
    nq = chk.tier == "quick"
    tasks = []
    ops = ["fopen", "seek", "read", "fclose"]
    all70 = [s for s in interleavings(["t1"] * 4, ["t2"] * 4)]
    tasks.append(dict(scenario="one-chunk", level="1.5", seed=chk.seed, scripts=all70[:35]))
    tasks.append(dict(scenario="one-chunk", level="1.1", seed=chk.seed + 1, scripts=all70[35:]))
    for sc, cfg in (("diff", "MC_Loads_sim_diff"), ("same", "MC_Loads_sim_same"), ("pickled", "MC_Loads_sim_same"), ("copy-memfs", "MC_Loads_sim_same"),
                    ("two-trees", "MC_Loads_sim_diff"), ("same-line", "MC_Loads_sim_three"), ("three", "MC_Loads_sim_three")):
        scripts, rs = scripts_from_tlc(cfg, 40 if nq else 600, 40, chk.seed + len(tasks))
        chk.tlc_stats(rs)
        # the lock of a same-variable scenario serialises the model's behaviours: add adversarial scripts that TRY to interleave
        if sc == "same-line":
            scripts = scripts[:10] + [s for s in itertools.islice(interleavings(["t1"] * 4, ["t2"] * 4), 0, 70, 5)] + [["t1", "t2", "t3"] * 5, ["t3", "t1", "t2", "t2", "t1", "t3"] * 3]
        if sc in ("same", "pickled", "copy-memfs", "two-trees"):
            scripts += [s for s in itertools.islice(interleavings(["t1"] * 6, ["t2"] * 6), 0, 924, 23 if nq else 3)]
        for i in range(0, len(scripts), 20):
            tasks.append(dict(scenario=sc, level=("1.5", "1.1")[len(tasks) % 2], seed=chk.seed + len(tasks), scripts=scripts[i:i + 20]))
    L.tables()
    L.instances([dict(L.SMALL_LEADER), dict(L.SMALL_LEADER, nmap=0), dict(file="volume", nfp=5), dict(file="trailer", nlow=0, lens=[]),
                 dict(file="image", kind="processed", n=8, ndata=6, bps=2), dict(file="image", kind="processed", n=4, ndata=4, bps=2),
                 dict(file="image", kind="signal", n=8, ndata=24, bps=8), dict(file="image", kind="signal", n=4, ndata=16, bps=8)])
    L.instances([dict(file="image", kind="processed", n=24, ndata=500000, bps=2), dict(file="image", kind="processed", n=1, ndata=2, bps=2), dict(file="volume", nfp=3)])
    for res in checklib.pmap(big_load, [dict(seed=chk.seed + 90 + i) for i in range(2)], chk.scratch, procs=2):
        chk.count(3, f"big-load:{res['task']['seed']}")
        for who, msg in res["bad"]:
            chk.violation(f"big-load:{who}", f"12 MB load over 6 groups on a slow non-local filesystem ({who}): {msg}", {"task": res["task"]})
    L.instances([dict(file="image", kind="processed", n=6, ndata=6, bps=2), dict(file="image", kind="signal", n=6, ndata=24, bps=8)])
    holds = [12] if nq else [12, 35, 65]
    stalls = [dict(level=("1.5", "1.1")[i % 2], seed=chk.seed + 300 + i, hold=h, via=via) for i, (h, via) in enumerate((h, via) for h in holds for via in ("same", "pickled"))]
    crowds = [dict(level=("1.5", "1.1")[i % 2], seed=chk.seed + 320 + i, fs=fs, threads=[4, 5, 8, 16] if nq else [4, 5, 6, 8, 12, 16, 32, 64], reps=60 if nq else 300)
              for i, fs in enumerate(("local", "vtrace", "memory", "file"))]
    # one pool for everything (no helper threads in this process: forking from a multi-threaded parent can deadlock the children); the
    # long-running stall / crowd tasks go first so that they overlap with the schedules
    mids = [dict(level=("1.5", "1.1")[i % 2], seed=chk.seed + 340 + i) for i in range(2)]
    gcs = [dict(level=("1.5", "1.1")[i % 2], seed=chk.seed + 350 + i, fs=("local", "vtrace")[i % 2], threads=1 + i % 2, iterations=150 if nq else 1500) for i in range(2)]
    # line-grain schedules after histories of H selections (typical capacities of a bounded memo: powers of two)
    lines_ = [dict(level=("1.5", "1.1")[i % 2], seed=chk.seed + 360 + i, H=H, dense=60 if nq else 400, sparse=6 if nq else 40, others=[1] if (nq and H != 64) else ([1, 0, 3, 2] if not nq else [1, 0, 3]))
              for i, H in enumerate((16, 64, 128) if nq else (8, 16, 32, 64, 100, 128, 256))]
    mixed = [("stall", t) for t in stalls] + [("crowd", t) for t in crowds] + [("gc", t) for t in gcs] + [("mid", t) for t in mids] + [("line", t) for t in lines_] + [("sched", t) for t in tasks]
    mixed_res = checklib.pmap(run_any, mixed, chk.scratch)
    stall_res = [r for (k, _), r in zip(mixed, mixed_res) if k == "stall"]
    crowd_res = [r for (k, _), r in zip(mixed, mixed_res) if k == "crowd"]
    results = [r for (k, _), r in zip(mixed, mixed_res) if k == "sched"]
    for res in [r for (k, _), r in zip(mixed, mixed_res) if k == "gc"]:
        chk.count(res["n"], f"gc-stress:{res['task']['fs']}")
        for key, msg in res["bad"][:1]:
            chk.violation(key, f"[{res['task']['fs']}, {res['task']['threads']} thread(s)] {msg}", {"task": res["task"]})
    for res in [r for (k, _), r in zip(mixed, mixed_res) if k == "mid"]:
        chk.count(res["n"], f"copy-mid-load:{res['task']['level']}")
        for key, msg in res["bad"][:2]:
            chk.violation(key, msg, {"task": res["task"]})
    for res in [r for (k, _), r in zip(mixed, mixed_res) if k == "line"]:
        chk.count(res["n"], f"line-grain:H={res['task']['H']}:{res['task']['level']}")
        if not res["bad"] and res["lines"] < 20:
            raise checklib.Machinery(f"line-grain schedules: the tracer saw only {res['lines']} package lines in one load")
        for key, msg in res["bad"][:2]:
            chk.violation(key, msg, {"task": res["task"]})
    chk.rule_extra.append("line-grain: T1 parked before its k-th source line inside the package (k = 1..60 dense, then sampled; thorough 1..400) after histories of "
                          "16 / 64 / 128 (thorough 8..256) different selections, T2 loads a new selection of the other / the same image meanwhile")
    for res in stall_res:
        chk.count(2, f"stall:{res['task']['hold']}:{res['task']['via']}")
        for who, msg in res["bad"]:
            chk.violation(f"stalled-request:{res['task']['via']}:{who}", f"a request of one load hangs for {res['task']['hold']} s on a one-object-per-path file system while a second load of the "
                          f"same variable ({res['task']['via']}) waits: {who}: {msg}", {"task": res["task"]})
    for res in crowd_res:
        chk.count(res["loads"], f"crowd:{res['task']['fs']}")
        for who, msg in res["bad"][:2]:
            chk.violation(f"crowd:{who}", f"[{res['task']['fs']}] {msg}", {"task": res["task"]})
    chk.rule_extra.append(f"stalled request: one read hangs {holds} s with the variable's lock held while a second load of the same variable (same tree / pickled copy) waits, "
                          "shared file object per path; crowd: 4..16 (thorough: ..64) free-running threads loading the four images of a quad-pol product at once on 4 file systems, "
                          "300 s watchdog per round")
    path = os.path.join(chk.scratch, "c19.ndjson")
    info = {}
    n = 0
    realised = set()
    skipped = 0
    with open(path, "w") as f:
        for res in results:
            for tr in res["traces"]:
                n += 1
                info[n] = (res["task"], tr)
                skipped += tr["skipped"]
                realised.add((res["task"]["scenario"], tuple(tr["realised"])))
                f.write(json.dumps({"e": "hdr", "tid": n}) + "\n")
                for ln in tr["lines"]:
                    f.write(json.dumps(ln) + "\n")
    rv = tlc.run_ok("Trace_Loads", "Trace_Loads", workers=1, env={"TRACE_FILE": path}, timeout=1800)
    chk.tlc_stats(rv)
    verdicts = {int(m.group(1)): (m.group(2), int(m.group(3)), m.group(4)) for m in re.finditer(r'<<"VERDICT", (\d+), "(\w+)", (\d+), "([^"]*)">>', rv.out)}
    if len(verdicts) != n:
        raise checklib.Machinery(f"{len(verdicts)} verdicts for {n} schedule traces")
    chk.count(n)
    chk.cov["distinct_nontrivial"] = len(realised)
    chk.traces(n)
    for tid, (st, line, clause) in verdicts.items():
        if st == "rejected":
            task, tr = info[tid]
            chk.violation(f"schedule:{clause}:{task['scenario']}", f"[{task['scenario']}] realised schedule {tr['realised']} rejected: {clause}; "
                          f"{[l for l in tr['lines'] if l['e'] == 'ret']}", {"task": task, "script": tr["script"], "trace": tr["lines"]})
    # negative control: a realised trace with a read moved to another thread's offset must be rejected
    t0 = next((tr for res in results for tr in res["traces"] if sum(1 for l in tr["lines"] if l["e"] == "read") >= 2), None)
    if t0 is None:
        raise checklib.Machinery("no recorded schedule contains two read events: the loads are not observed by the tracing filesystem")
    neg = os.path.join(chk.scratch, "neg.ndjson")
    with open(neg, "w") as f:
        f.write(json.dumps({"e": "hdr", "tid": 1}) + "\n")
        done = False
        for ln in t0["lines"]:
            ln = dict(ln)
            if ln["e"] == "read" and not done:
                ln["pos"] += 8
                done = True
            f.write(json.dumps(ln) + "\n")
    rn = tlc.run_ok("Trace_Loads", "Trace_Loads", workers=1, env={"TRACE_FILE": neg})
    if '"rejected"' not in rn.out:
        raise checklib.Machinery("negative control (read served from a foreign offset) was accepted")
    for res in results[:1] + results[-1:]:
        tr = res["traces"][0]
        chk.sample({"scenario": res["task"]["scenario"], "intended": tr["script"][:12], "realised": tr["realised"][:12], "skipped_steps": tr["skipped"]})
    chk.assumptions += ["the yield points are the file-system operations (open, seek, read, close) of the vtrace filesystem; lock acquisition is not a "
                        "yield point: a thread blocked on the lock is simply not schedulable (its steps are skipped)",
                        "only the realised order is judged; pickled copies are made and loaded in the same process"]
    from harness import sessioncheck

    sessioncheck.standard(chk)
    chk.finish(rule="schedules = all 70 interleavings of two one-chunk loads + behaviours of Loads.tla simulated by TLC (diff / same / pickled / three "
                    "threads) + adversarial interleavings for the locked scenarios; evaluations = schedules executed; distinct = distinct REALISED "
                    "(scenario, event order)", exhaustive=False, extra={"skipped_steps": skipped, "controls_rejected": 1})


if __name__ == "__main__":
    checklib.main(body, "C19")
