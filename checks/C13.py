"""C13 -- tree assembly: one correctly named group per image, none dropped or swapped.

spec    OpenCall.tla (fault-free config over the product family: every sequence of 1..3 images with pairwise distinct group names
        over {HH, HV, VV} x {no scan, F1, F2}, with / without map projection): ExactlyKGroups (k groups, summary order, names by
        polarisation and _scan<n>), GroupOwnsItsFile, MetaMatchesLeader, NoTrailerAccess; Ident.tla GroupNameInjective.
bind    every product of the family TLC exported (quick: a deterministic third of it; thorough: all + random products with up to
        8 images) is synthesised with a distinct pixel salt and distinct line metadata per file and opened (twice in the same
        process, on alternating filesystems): the node set and order, the group names, which file's pixels and line numbers each
        group returns, the children of /metadata, the root attributes (volume-directory attributes + reference_document), and
        that every variable listed as coordinate is a coordinate with the bookkeeping attribute removed."""
import json
import os
import random

from harness import checklib


def run_product(case):
    import ceos_alos2

    from harness import imgrun, oracle, product, project, tracefs

    imgs = case["imgs"]
    level = "1.5" if case["nmap"] == 1 else "1.1"
    images = [(im["pol"], im["scan"] or None, 2 + i, 1 + (i % 2)) for i, im in enumerate(imgs)]
    # every sixth product: ONE image (a channel / scan lost altogether) has every line flagged invalid, or every line's flags raised: still a
    # group of its own, and the images behind it too
    lo = None
    if case["seed"] % 6 == 5 and len(images) > 1 and level == "1.1":   # (the flag is a field of the signal data records)
        k_bad = (case["seed"] // 6) % len(images)
        lo = {(k_bad, ln, f): 1 for ln in range(images[k_bad][2]) for f in ("invalid_line_flag",)}
    b = product.build_product(level=level, images=images, seed=case["seed"], line_overrides=lo)
    # "any order of sections in the summary": the file roles follow the numbering of the ...ProductFileNameNN keys, so the lines may
    # come in any order (SummaryGrammar!OrderIndependent): as written / reversed / sections interleaved round-robin / shuffled
    mode = case["seed"] % 4
    lines = list(b.summary_lines)
    # the image sizes the summary lists (Pdi_NoOfPixels_<n> / Pdi_NoOfLines_<n>) are informational (SummaryGrammar: class "shape"): one
    # pair per image as written, none at all, fewer pairs than images (one per scan, say), more pairs than images
    shp = (case["seed"] // 4) % 5
    k_img = len(imgs)
    is_shape = lambda ln, lo=0: ln.startswith(("Pdi_NoOfPixels_", "Pdi_NoOfLines_")) and int(ln.split("=")[0].rsplit("_", 1)[1]) >= lo  # noqa: E731
    if shp == 2:
        lines = [ln for ln in lines if not is_shape(ln)]
    elif shp == 3 and k_img > 1:
        lines = [ln for ln in lines if not is_shape(ln, max(1, k_img // 2))]
    elif shp == 4:
        at = max(i for i, ln in enumerate(lines) if is_shape(ln)) + 1
        lines[at:at] = [f'Pdi_NoOfPixels_{k_img}="11"', f'Pdi_NoOfLines_{k_img}="7"', f'Pdi_NoOfPixels_{k_img + 1}="12"', f'Pdi_NoOfLines_{k_img + 1}="8"']
    if mode == 1:
        lines.reverse()
    elif mode == 2:
        by = {}
        for ln in lines:
            by.setdefault(ln[:3], []).append(ln)
        lines = [q[i] for i in range(max(map(len, by.values()))) for q in by.values() if i < len(q)]
    elif mode == 3:
        random.Random(case["seed"]).shuffle(lines)
    b.files["summary.txt"] = ("\r\n" if case["seed"] % 8 >= 4 else "\n").join(lines).encode() + b"\n"
    url = imgrun.put_on_fs(b, case["fs"], f"c13_{case['seed']}")
    out = {"case": case, "bad": []}
    import logging

    lv = (logging.getLogger("ceos_alos2").level, logging.getLogger().level)
    if case["seed"] % 3 == 1:  # an application that runs with debug logging switched on
        logging.getLogger("ceos_alos2").setLevel(logging.DEBUG)
        logging.getLogger().setLevel(logging.DEBUG)
    # the CPUs this process may use (a cpuset / taskset / container limit): 1, 2, 3 or 4 -- fewer than the product has image files, or more
    all_cpus = os.sched_getaffinity(0)
    n_cpu = 1 + (case["seed"] // 2) % 4
    if case["seed"] % 3 != 0 and len(all_cpus) >= n_cpu:
        os.sched_setaffinity(0, set(sorted(all_cpus)[:n_cpu]))
        out["cpus"] = n_cpu
    try:
        for attempt in (1, 2):  # the same product opened twice in one process: nothing may stick between calls
            tracefs.take_log()
            try:
                tree = ceos_alos2.open_alos2(url, backend_options=dict(use_cache=False, records_per_chunk=2))
            except BaseException as e:  # noqa: B902
                out["bad"].append(("open-failed", f"open #{attempt}: {type(e).__name__}: {str(e)[:150]}"))
                return out
            evs = tracefs.take_log()
            if list(tree.children) != ["summary", "metadata", "imagery"]:
                out["bad"].append(("root-children", f"open #{attempt}: children of / are {list(tree.children)}"))
                if not {"metadata", "imagery"} <= set(tree.children):
                    continue  # nothing below to look at
            names = list(tree["imagery"].children)
            if names != case["names"]:
                out["bad"].append(("imagery-groups", f"open #{attempt}: /imagery has {names}, expected {case['names']} (summary order)"))
                continue
            for im in b.images:
                g = tree[f"imagery/{im['group']}"]
                msg = oracle.pixels_match(g["data"].values, im)
                if msg:
                    out["bad"].append(("group-pixels", f"open #{attempt}: group {im['group']} does not return the pixels of {im['name']}: {msg}"))
                fb = b.builders[im["name"]]
                want_rows = [fb.truth[(1, "sar_image_data_line_number", ln)] for ln in range(im["n"])]
                if [int(x) for x in g["rows"].values] != want_rows:
                    out["bad"].append(("group-line-metadata", f"open #{attempt}: group {im['group']} rows {list(g['rows'].values)} are not those of {im['name']} {want_rows}"))
                ds = g.to_dataset()
                if "coordinates" in ds.attrs:
                    out["bad"].append(("bookkeeping-attr", f"group {im['group']} still carries the 'coordinates' attribute"))
                if list(ds.data_vars) != ["data"]:
                    out["bad"].append(("coords-not-promoted", f"group {im['group']}: data variables {list(ds.data_vars)[:5]} (only 'data' expected; line metadata are coordinates)"))
            meta = sorted(tree["metadata"].children)
            if meta != sorted(case["meta"]):
                out["bad"].append(("metadata-groups", f"/metadata has {meta}, the leader holds {sorted(case['meta'])}"))
            for gname in ("attitude", "rates"):
                ds = tree[f"metadata/attitude/{gname}"].to_dataset()
                if "time" not in ds.coords or "coordinates" in ds.attrs:
                    out["bad"].append(("attitude-coords", f"/metadata/attitude/{gname}: time coordinate {'time' in ds.coords}, bookkeeping attr {'coordinates' in ds.attrs}"))
            proj = project.project_tree(tree, load=False)
            ex = oracle.expectations(b, files=("VOL",))
            badv = oracle.check(proj, ex)
            for e, m in badv[:2]:
                out["bad"].append(("root-attrs", m))
            extra = set(proj["/"]["attrs"]) - {e.name for e in ex}
            if extra != {"reference_document"}:
                out["bad"].append(("root-attrs-extra", f"root attributes beyond the volume directory: {sorted(extra)}"))
            if case["fs"] == "vtrace" and any(e["f"].startswith("TRL") for e in evs):
                out["bad"].append(("trailer-touched", "the trailer file was accessed"))
            paths = sorted(n.path for n in tree.subtree)
            if attempt == 1:
                first_paths = paths
            elif paths != first_paths:
                out["bad"].append(("second-open-differs", f"node set differs between two opens: {sorted(set(paths) ^ set(first_paths))[:4]}"))
    finally:
        os.sched_setaffinity(0, all_cpus)
        logging.getLogger("ceos_alos2").setLevel(lv[0])
        logging.getLogger().setLevel(lv[1])
        imgrun.drop_from_fs(url, case["fs"])
    return out


def body(chk):
    from checks import _layoutcommon as lc
    from harness import tlc

    pf = os.path.join(chk.scratch, "prods.json")
    r = tlc.run_ok("MC_OpenCall", "MC_OpenCall_family", workers=16, env={"PRODUCTS_FILE": pf}, coverage=True)
    chk.tlc_stats(r)
    for v in r.violated:
        chk.violation(f"model:{v}", f"TLC: {v} violated in OpenCall", {"tlc": r.out[-2000:]})
    ri = tlc.run_ok("MC_Ident", "MC_Ident", workers=16)
    chk.tlc_stats(ri)
    fam = json.load(open(pf))
    rnd = random.Random(chk.seed)
    pick = fam if chk.tier == "thorough" else [p for i, p in enumerate(fam) if i % 3 == chk.seed % 3 or len(p["prod"]["imgs"]) == 1]
    cases = []
    for i, p in enumerate(pick):
        cases.append(dict(imgs=p["prod"]["imgs"], nmap=p["prod"]["nmap"], names=p["names"], meta=p["meta"], seed=chk.seed + i, fs=("local", "vtrace", "memory")[i % 3]))
    # larger products (up to 8 images) in listing orders that are NOT sorted by file name
    pool = [(p, s) for p in ("HH", "HV", "VH", "VV") for s in ("", "F1", "F2", "F3", "B4")]
    base_meta = ["dataset_summary", "platform_position", "attitude", "radiometric_data", "data_quality_summary", "transformations"]
    for j in range(30 if chk.tier == "quick" else 400):
        k = rnd.randint(4, 8)
        sel = []
        seen = set()
        for pol, sc in rnd.sample(pool, len(pool)):
            nm = pol + (f"_scan{sc[1]}" if sc else "")
            if nm not in seen:
                seen.add(nm)
                sel.append((pol, sc, nm))
            if len(sel) == k:
                break
        nmap = j % 2
        cases.append(dict(imgs=[{"pol": a, "scan": s} for a, s, _ in sel], nmap=nmap, names=[n for _, _, n in sel], meta=base_meta + (["map_projection"] if nmap else []),
                          seed=chk.seed + 9000 + j, fs=("local", "vtrace")[j % 2]))
    lc.prepare_layouts([dict(level=lv, images=[("HH", None, 2 + i, 1 + (i % 2)) for i in range(n)]) for lv in ("1.1", "1.5") for n in range(1, 9)])
    results = checklib.pmap(run_product, cases, chk.scratch, chunksize=4)
    for res in results:
        c = res["case"]
        chk.count(1, "|".join(c["names"]) + f":{c['nmap']}")
        seen = set()
        for key, msg in res["bad"]:
            if key in seen:
                continue
            seen.add(key)
            chk.violation(f"assembly:{key}", f"[{c['names']}, nmap={c['nmap']}, {c['fs']}{', %d usable CPUs' % res['cpus'] if res.get('cpus') else ''}] {msg}", {"case": c})
    chk.traces(len(results))
    chk.sample({"images": cases[7]["names"], "map_projection": cases[7]["nmap"], "metadata_groups": cases[7]["meta"], "problems": results[7]["bad"][:2]})
    chk.assumptions += ["scan suffixes B<n> / F<n> map to _scan<n>; products never mix both methods for one polarisation and number",
                        "level 1.1 products carry no map projection record, level 1.5 / 3.1 do"]
    from harness import hierarchy, sessioncheck

    hierarchy.run(chk)
    sessioncheck.standard(chk)
    from harness import envrun

    envrun.run(chk, {"structure", "spurious_error"})
    chk.finish(rule="products = the family TLC enumerated (sequences of 1..3 distinct (polarisation, scan) x map projection 0/1; a deterministic third in "
                    "quick) + random products of 4..8 images in unsorted listing order; each opened twice; distinct = (group name sequence, map projection)",
               exhaustive=(chk.tier == "thorough"), extra={"family": len(fam)})


if __name__ == "__main__":
    checklib.main(body, "C13")
