"""C05 -- record framing: data after variable-length / optional records decodes right.

spec    Framing.tla (MC_Framing): writer placement from declared lengths vs reader consumption with the parser's
        padding formulas; invariants CursorAligned, InadmissibleRejected, EndsAtTotal over the enumerated domains.
bind    every admissible instance TLC enumerated is synthesised from the TLC-exported layout (all fields distinct),
        opened with the real reader, and EVERY leaf of the records that follow the variable-length record is compared
        with what was written (leader, volume directory through open_alos2; trailer through read_sar_trailer)."""
import json
import os
import sys

from harness import checklib


def run_case(case):
    import struct

    from harness import layout as L
    from harness import oracle, product, project
    from harness.synth import FileBuilder

    import ceos_alos2

    file, p = case["file"], case["p"]
    res = {"case": case, "bad": [], "n": 0}

    def impl(fn, *a, **kw):
        """call into the implementation; an exception on an admissible well-formed file is a decoding failure"""
        try:
            return fn(*a, **kw)
        except Exception as e:
            res["bad"].append(("exception", f"{type(e).__name__}: {str(e)[:200]}"))
            return None

    if True:
        if file == "leader":
            level = "1.5" if p["nmap"] == 1 else "1.1"
            b = product.build_product(level=level, images=(("HH", None, 2, 2),), seed=case["seed"], leader=p)
            d = b.write(checklib.fresh_dir())
            proj = impl(lambda: project.project_tree(ceos_alos2.open_alos2(d, backend_options=dict(use_cache=False, records_per_chunk=2))))
            if proj is None:
                return res
            ex = oracle.expectations(b, files=("LED",))
            bad = oracle.check(proj, ex)
            res["n"] = len(ex)
            res["bad"] = [(e.src, m) for e, m in bad[:8]]
            # the record groups after the variable-length records must all be present
            for g in ("radiometric_data", "data_quality_summary", "transformations"):
                if f"/metadata/{g}" not in proj:
                    res["bad"].append((g, "group missing"))
        elif file == "volume":
            b = product.build_product(level="1.5", images=(("HH", None, 2, 2),), seed=case["seed"], nfp=p["nfp"])
            d = b.write(checklib.fresh_dir())
            proj = impl(lambda: project.project_tree(ceos_alos2.open_alos2(d, backend_options=dict(use_cache=False, records_per_chunk=2))))
            if proj is None:
                return res
            ex = oracle.expectations(b, files=("VOL",))
            bad = oracle.check(proj, ex)
            res["n"] = len(ex)
            res["bad"] = [(e.src, m) for e, m in bad[:8]]
        elif file == "trailer":
            import io

            from ceos_alos2.sar_trailer import read_sar_trailer

            inst = L.instance(file="trailer", nlow=p["nlow"], lens=p["lens"])
            fb = FileBuilder(inst)
            tables = L.tables()
            for path, (off, leaf, arr) in fb.index[0].items():
                if leaf["r"] in ("value",) and (0, path, 0) not in fb.truth:
                    fb.put(0, path, product.typical_value(leaf, (case["seed"], "TRL", path), tables))
            want_imgs = []
            import numpy as np

            uniform = all(n % 4 == 0 for n in p["lens"])
            for i in range(p["nlow"]):
                n = p["lens"][i]
                if uniform:
                    bps, lines = 2, 2
                else:   # sample sizes of 1, 2 and 4 bytes mixed in one trailer
                    bps, lines = (4 if n % 4 == 0 else 2 if n % 2 == 0 else 1), 1
                pix = n // (bps * lines)
                fb.put(0, f"low_resolution_image_sizes[{i}].number_of_pixels", pix)
                fb.put(0, f"low_resolution_image_sizes[{i}].number_of_lines", lines)
                fb.put(0, f"low_resolution_image_sizes[{i}].number_of_bytes_per_one_sample", bps)
                raw = bytes(((case["seed"] * 31 + i * 97 + k * 7) % 250) + 1 for k in range(n))
                fb.put(1 + i, "image", raw)
                words = [int(x) for x in np.frombuffer(raw, f">i{bps}")]
                want_imgs.append((pix, lines, words))
            # the file object: in memory, or a raw stream that hands out at most 4096 bytes per call (an unbuffered pipe / socket, a
            # streamed HTTP body: reads may legally come up short), bare or behind a BufferedReader
            class Dribble(io.RawIOBase):
                def __init__(self, data):
                    self._d, self._p = data, 0

                def readable(self):
                    return True

                def readinto(self, b):
                    n = min(len(b), 4096, len(self._d) - self._p)
                    b[:n] = self._d[self._p:self._p + n]
                    self._p += n
                    return n

            data = fb.bytes()
            lead = 0
            if case["seed"] % 4 == 3:   # the trailer does not start at position 0 of the stream it is read from (a member of a tape image / tar read in place)
                lead = 512 + case["seed"] % 7
                data = bytes((k * 13) % 251 for k in range(lead)) + data
            how = case["seed"] % 3
            fobj = io.BytesIO(data) if how == 0 else Dribble(data) if how == 1 else io.BufferedReader(Dribble(data), buffer_size=1024)
            if lead:
                fobj.seek(lead) if how == 0 else fobj.read(lead)
            res["stream"] = ("BytesIO", "raw stream (<= 4096 bytes per read)", "BufferedReader over a raw stream")[how] + (f", trailer at offset {lead}" if lead else "")
            out = impl(read_sar_trailer, fobj)
            if out is None:
                return res
            header, images = out
            res["n"] = 1 + p["nlow"]
            if header.number_of_low_resolution_images != p["nlow"] or len(images) != p["nlow"]:
                res["bad"].append(("count", f"{len(images)} images, header says {header.number_of_low_resolution_images}"))
            for i, (img, (pix, lines, words)) in enumerate(zip(images, want_imgs)):
                got = [int(x) for x in img.ravel().tolist()]
                if got != words or tuple(img.shape) != (pix, lines):
                    res["bad"].append((f"image{i}", f"shape {img.shape} first words {got[:4]} expected {words[:4]}"))
            # fields in front of the array must be untouched by the count
            for path in ("facility_related_data_5.record_length", "dataset_summary.number_of_records"):
                v = fb.truth.get((0, path, 0))
                if v is not None:
                    a, bname = path.split(".")
                    got = getattr(getattr(header, a), bname)
                    if got != int(v):
                        res["bad"].append((path, f"{got} != {v}"))
        else:
            res["skipped"] = True
    return res


def body(chk):
    from harness import tlc

    cases_file = os.path.join(chk.scratch, "cases.json")
    cfg = "MC_Framing_quick" if chk.tier == "quick" else "MC_Framing_thorough"
    r = tlc.run_ok("MC_Framing", cfg, workers=16, env={"CASES_FILE": cases_file, "CASES_TIER": chk.tier}, timeout=3000,
                   coverage=True)
    chk.tlc_stats(r)
    for v in r.violated:
        chk.violation(f"model:{v}", f"TLC: invariant {v} violated in the Framing model\n" + r.out[-1500:], {"tlc": r.out[-3000:]})
    if r.coverage.get("Step", (0, 0))[0] == 0:
        raise checklib.Machinery("vacuity: Framing!Step never taken")
    cases = json.load(open(cases_file))
    n_bad = sum(1 for c in cases if not c["adm"])
    if n_bad < 3:
        raise checklib.Machinery("vacuity: no inadmissible instance in the model")
    todo = [dict(c, seed=chk.seed + i) for i, c in enumerate(cases) if c["adm"] and c["file"] != "image"]
    if chk.tier == "thorough":
        # the thorough leader cross is large: replay a deterministic stride of it plus all one-dimensional sweeps
        lead = [c for c in todo if c["file"] == "leader"]
        other = [c for c in todo if c["file"] != "leader"]
        todo = other + lead[:: max(1, len(lead) // 6000)]
    # one batched TLC run places every instance (workers then only read the exported layouts)
    from harness import layout as L

    L.tables()
    want = []
    for c in todo:
        if c["file"] == "leader":
            want.append(dict(file="leader", **c["p"]))
        elif c["file"] == "volume":
            want.append(dict(file="volume", nfp=c["p"]["nfp"]))
        elif c["file"] == "trailer":
            want.append(dict(file="trailer", nlow=c["p"]["nlow"], lens=c["p"]["lens"]))
    want += [dict(file="volume", nfp=3), dict(file="image", kind="processed", n=2, ndata=4, bps=2),
             dict(file="image", kind="signal", n=2, ndata=16, bps=8), dict(file="trailer", nlow=0, lens=[])]
    L.instances(want)
    # leaders, volume directories and trailers interleaved: every worker process reads trailers (an entry point of its own, imported on
    # first use) BEFORE and between products -- what one reader module does on import must not reach the others
    tr = [c for c in todo if c["file"] == "trailer"]
    rest = [c for c in todo if c["file"] != "trailer"]
    todo, k_tr = [], max(1, len(rest) // max(1, len(tr)))
    for i, c in enumerate(rest):
        if i % k_tr == 0 and tr:
            todo.append(tr.pop(0))
        todo.append(c)
    todo += tr
    results = checklib.pmap(run_case, todo, chk.scratch, chunksize=8)
    for res in results:
        c = res["case"]
        key = f"{c['file']}:" + ",".join(f"{k}={v}" for k, v in sorted(c["p"].items()) if k != "lens")
        chk.count(1, key)
        if len(chk.cov["samples"]) < 4 and not res["bad"]:
            chk.sample({"instance": {"file": c["file"], **c["p"]}, "leaves_compared": res["n"], "outcome": "all equal"})
        if res["bad"]:
            chk.violation(f"framing:{key}", f"{len(res['bad'])} leaves wrong after the variable-length record, first: {res['bad'][0]}",
                          {"case": c, "mismatches": res["bad"]})
    chk.traces(len(results))
    chk.assumptions += [
        "Layout.tla field tables are a frozen transcription (anchored on the fixed CEOS record sizes)",
        "the leader cross product is covered one dimension at a time + the full cross of facility lengths (additivity)",
    ]
    from harness import concur

    concur.run(chk)
    from harness import envrun

    envrun.run(chk, {"leader", "spurious_error", "structure"})
    chk.finish(
        rule="instances = every <<file, params>> TLC enumerated in MC_Framing (attitude points 1..136 incl. non-standard "
             "record lengths, channels 1..16, facility lengths {66,67,100,1000,5000}^4, map projection 0/1, file pointers "
             "0..12, low-res images 0..7); distinct = distinct parameter sets replayed against the real reader; "
             "non-trivial = every one (each has a variable-length record followed by checked records)",
        exhaustive=(chk.tier == "quick"),
        extra={"model_instances": len(cases), "inadmissible_in_model": n_bad, "tlc_wall_s": round(r.wall, 1)},
    )


if __name__ == "__main__":
    checklib.main(body, "C05")
