"""C07 -- cache transparency: opening via an index cache equals opening without one.

spec    Cache.tla (MC_Cache_hist): ResultIdeal (the current call's rpc wins over the rpc at cache-write time),
        NoConsultWhenDisabled, SrcKnown over all producers {create_cache option, CLI} x locations {local, adjacent, both} x
        rpc_write x rpc_read reachable in bounded histories.
bind    the producer x location x filesystem x rpc_write x rpc_read matrix on real products (level 1.1 and 1.5; local path,
        file:// URL, memory://, vtrace://): after producing the cache, open(use_cache=True) must give a tree identical
        (structure, dtypes, coords, attrs, pixels loaded THROUGH the cached array) to a fresh uncached open with the read-time
        rpc; on vtrace the image's line records must not be read at open time and the adjacent index must be; with
        use_cache=False a POISONED index (valid JSON, shifted byte ranges, altered attribute) must have no effect and no index
        may be read; with no cache present the product is parsed normally."""
import json

from harness import checklib


def scenario(task):
    import os

    from harness import cacherun

    drv = cacherun.Driver(task["level"], task["fs"], task["seed"])
    out = {"task": task, "bad": [], "steps": []}
    rw, rr = task["rpc_w"], task["rpc_r"]

    def step(op, what):
        obs = drv.do(op)
        out["steps"].append({"what": what, "outcome": obs.get("outcome"), "cells": obs["cells"], "src": obs.get("src")})
        return obs

    try:
        for r in {cacherun.RPC_MAP[rw], cacherun.RPC_MAP[rr]}:
            drv.reference(r)
        if task.get("denied"):
            # "on any fsspec filesystem": a store on which a missing object is not a FileNotFoundError (403 instead of 404)
            from harness import tracefs

            tracefs.DENY.add(tracefs.norm(drv.url))
        # ---- produce
        if task["producer"] == "option":
            o = step({"op": "open", "uc": False, "cc": True, "rpc": rw}, "create_cache=True")
            if o["outcome"] != "ideal":
                out["bad"].append(("create-failed", f"open(create_cache=True) -> {o['outcome']}: {o.get('error') or o.get('diff')}"))
                return out
        if task["producer"] == "cli-adjacent-linked":
            # a product "view": the image files of the directory are symbolic links into a pool elsewhere; the tool is given the link
            d0 = drv.url.replace("file://", "")
            pool = os.path.join(os.path.dirname(d0), "pool_of_" + os.path.basename(d0))
            os.makedirs(pool, exist_ok=True)
            for m, nm in drv.names.items():
                os.replace(os.path.join(d0, nm), os.path.join(pool, nm))
                os.symlink(os.path.join(pool, nm), os.path.join(d0, nm))
        if task["producer"] in ("cli-adjacent", "both", "cli-adjacent-moved", "cli-adjacent-linked"):
            for m in drv.names:
                o = step({"op": "cli", "img": m, "rpc": rw}, "ceos-alos2-create-cache <image>")
                if o["outcome"] != "ideal":
                    out["bad"].append(("cli-failed", f"ceos-alos2-create-cache failed: {o.get('error')}"))
                    return out
        if task["producer"] == "both":
            step({"op": "open", "uc": False, "cc": True, "rpc": rw}, "create_cache=True")
        if task["producer"] == "cli-adjacent-moved":
            drv.relocate()  # the product (with its adjacent index files) is copied elsewhere; the old place now holds other pixels
            for r in {cacherun.RPC_MAP[rw], cacherun.RPC_MAP[rr]}:
                drv.reference(r)
        if task["producer"] == "cli-target":
            for m in drv.names:
                tgt = os.path.dirname(drv.expected_local_path(m))
                os.makedirs(tgt, exist_ok=True)
                rc = cacherun.run_cli(os.path.join(drv.url.replace("file://", ""), drv.names[m]), cacherun.RPC_MAP[rw], tgt)
                if rc != 0:
                    out["bad"].append(("cli-failed", f"ceos-alos2-create-cache <image> <user cache dir> failed: {rc}"))
                    return out
        cells = drv.cells()
        want_loc = {"option": ["local"], "cli-adjacent": ["adjacent"], "both": ["local", "adjacent"], "cli-target": ["local"], "cli-adjacent-moved": ["adjacent"],
                    "cli-adjacent-linked": ["adjacent"]}[task["producer"]]
        for loc in want_loc:
            for m in drv.names:
                if cells[loc][m] != "complete":
                    # not a verdict by itself (the naming of cache files is the implementation's business): what counts is what
                    # the following opens return
                    out.setdefault("drift", []).append(f"{task['producer']}: no complete {loc} cache found for image {m}: {cells}")
        # ---- read through the cache with another rpc
        o = step({"op": "open", "uc": True, "cc": False, "rpc": rr, "expect": {"src": {}}}, "use_cache=True")
        if o["outcome"] != "ideal":
            out["bad"].append((f"cached-open-{o['outcome']}", f"open(use_cache=True, rpc={cacherun.RPC_MAP[rr]}) after {task['producer']} with rpc={cacherun.RPC_MAP[rw]}: "
                               f"{o.get('error') or o.get('diff')}"))
        if "src" in o and o["outcome"] == "ideal":
            if any(v == "parse" for v in o["src"].values()) and not out.get("drift"):
                out["bad"].append(("line-records-reread", f"usable cache present but the image line records were re-read at open time: {o['src']}"))
            if task["producer"] == "cli-adjacent" and not o["index_reads"]:
                out["bad"].append(("index-not-read", "adjacent cache present but no index file was read"))
        # ---- on a local disk reads cannot be observed: POISON the line records instead (every record prefix behind its 12-byte preamble is
        # overwritten, the pixels stay): a cached open does not look at them and still returns the ideal tree
        if task["fs"] in ("local", "file") and not out["bad"]:
            d0 = drv.url.replace("file://", "")
            saved = {}
            for im in drv.b.images:
                pth = os.path.join(d0, im["name"])
                data = bytearray(open(pth, "rb").read())
                saved[pth] = bytes(data)
                reclen = im["prefix"] + im["p"] * im["bps"]
                for i in range(im["n"]):
                    s0 = 720 + i * reclen
                    data[s0 + 12:s0 + im["prefix"]] = b"\x2a" * (im["prefix"] - 12)
                with open(pth, "r+b") as f:
                    f.write(data)
            try:
                o2 = step({"op": "open", "uc": True, "cc": False, "rpc": rr, "expect": {"src": {}}}, "use_cache=True over poisoned line records")
                if o2["outcome"] != "ideal":
                    out["bad"].append(("line-records-reread", f"a usable cache was produced ({task['producer']}) but open(use_cache=True) looked at the image's line records again "
                                       f"(they were overwritten in the meantime): {o2.get('error') or o2.get('diff')}"))
            finally:
                for pth, data in saved.items():
                    with open(pth, "r+b") as f:
                        f.write(data)
        # ---- use_cache=False must not consult anything: poison every index first
        poisoned = 0
        for m in drv.names:
            for loc in ("local", "adjacent"):
                data = open(drv.local_path(m), "rb").read() if (loc == "local" and drv.local_path(m)) else (drv.read_adjacent(m) if loc == "adjacent" else None)
                if not data:
                    continue
                doc = json.loads(data)
                arr = doc["data"]["data"]["data"]
                arr["byte_ranges"] = [{"__type__": "tuple", "data": [r["data"][0] + 2, r["data"][1] + 2]} if isinstance(r, dict) else [r[0] + 2, r[1] + 2]
                                      for r in arr["byte_ranges"]]
                doc["attrs"]["scan_id"] = 424242
                new = json.dumps(doc).encode()
                if loc == "local":
                    with open(drv.local_path(m), "wb") as f:
                        f.write(new)
                else:
                    drv.write_adjacent(m, new)
                poisoned += 1
        o = step({"op": "open", "uc": False, "cc": False, "rpc": rr, "expect": {"src": {}}}, "use_cache=False over a poisoned index")
        if o["outcome"] != "ideal":
            out["bad"].append(("poison-effective", f"use_cache=False yet the (poisoned) cache influenced the result: {o.get('error') or o.get('diff')}"))
        if "src" in o and (o["index_reads"] or any(v != "parse" for v in o["src"].values())):
            out["bad"].append(("cache-consulted-when-disabled", f"use_cache=False but index reads {o['index_reads']}, sources {o['src']}"))
        out["poisoned"] = poisoned
        # ---- no cache present: parsed normally
        for m in drv.names:
            drv.do({"op": "delete", "img": m, "cell": "local"})
            drv.do({"op": "delete", "img": m, "cell": "adjacent"})
        o = step({"op": "open", "uc": True, "cc": False, "rpc": rr, "expect": {"src": {}}}, "use_cache=True, no cache")
        if o["outcome"] != "ideal":
            out["bad"].append(("no-cache-open-failed", f"use_cache=True with no cache present: {o.get('error') or o.get('diff')}"))
        if "src" in o and any(v != "parse" for v in o["src"].values()):
            out["bad"].append(("no-cache-not-parsed", f"no cache present but sources {o['src']}"))
    finally:
        if task.get("denied"):
            from harness import tracefs

            tracefs.DENY.discard(tracefs.norm(drv.url))
        drv.close()
    return out


def partial_transfer(task):
    """An index that create_cache=True produced must be transparent -- also when that call met an image whose transfer was still
    incomplete (a cut at a record boundary: every record present is well formed): the call fails, and once the file is complete
    use_cache=True equals use_cache=False."""
    import glob
    import os

    import ceos_alos2

    from harness import checklib as cl, product, project

    for f in glob.glob(os.path.join(os.environ["XDG_CACHE_HOME"], "**", "*.index"), recursive=True):
        os.remove(f)
    b = product.build_product(level=task["level"], images=(("HH", None, 6, 3), ("HV", None, 5, 2)), seed=task["seed"])
    d = b.write(os.path.join(cl.fresh_dir("part_"), "product"))
    out = {"task": task, "bad": []}
    im = b.images[task["img"]]
    reclen = im["prefix"] + im["p"] * im["bps"]
    full = b.files[im["name"]]
    with open(os.path.join(d, im["name"]), "wb") as f:
        f.write(full[: 720 + task["k"] * reclen])
    try:
        ceos_alos2.open_alos2(d, backend_options={"create_cache": True, "records_per_chunk": task["rpc"]})
        out["bad"].append(("partial-accepted", f"open(create_cache=True) returned a tree for an image holding {task['k']} of {im['n']} records"))
    except BaseException:  # noqa: B902 -- expected
        pass
    with open(os.path.join(d, im["name"]), "wb") as f:
        f.write(full)
    try:
        ref = project.fingerprint(ceos_alos2.open_alos2(d, backend_options={"use_cache": False}))
        got = project.fingerprint(ceos_alos2.open_alos2(d, backend_options={"use_cache": True}))
        dd = project.diff(ref, got)
        if dd:
            out["bad"].append(("partial-transfer-index-differs", f"after the transfer completed, use_cache=True differs from use_cache=False: {dd[:2]}"))
    except BaseException as e:  # noqa: B902
        out["bad"].append(("partial-transfer-index-poisons", f"create_cache=True met the image while {task['k']} of {im['n']} records had arrived (rpc {task['rpc']}); after the "
                           f"transfer completed use_cache=True raises {type(e).__name__}: {str(e)[:140]} (use_cache=False works)"))
    return out


def body(chk):
    from harness import tlc
    from harness import layout as L

    r = tlc.run_ok("Cache", "MC_Cache_hist", workers=16, timeout=3000, coverage=True)
    chk.tlc_stats(r)
    for v in r.violated:
        chk.violation(f"model:{v}", f"TLC: {v} violated in Cache", {"tlc": r.out[-3000:]})
    from harness import tlaps

    tlaps.prove(chk, "CacheRuleProofs")
    # the step-grain open run by ONE process is equivalent to an atomic one governed by CacheRule (the abstraction Alos2!Open uses); with two
    # processes it is not -- TLC must find that counterexample, else the check is vacuous
    ra = tlc.run_ok("CacheAtomic", "MC_CacheAtomic", workers=16, timeout=3000)
    chk.tlc_stats(ra)
    for v in ra.violated:
        chk.violation(f"model:atomic:{v}", f"TLC: {v} violated: the multi-step open of Cache.tla is not the atomic Open of Alos2.tla", {"tlc": ra.out[-3000:]})
    if "AtomicSources" not in tlc.run("CacheAtomic", "MC_CacheAtomic_two", workers=8).violated:
        raise checklib.Machinery("non-vacuity: two interleaved processes must break the atomic-open equivalence")
    tasks = []
    i = 0
    for level in ("1.5", "1.1"):
        for fs in ("local", "file", "memory", "vtrace"):
            for producer in ("option", "cli-adjacent", "both", "cli-target", "cli-adjacent-moved", "cli-adjacent-linked"):
                if producer in ("cli-target", "cli-adjacent-moved", "cli-adjacent-linked") and fs not in ("local", "file"):
                    continue
                pairs = [(1, 2), (2, 1), (3, 3)] if chk.tier == "thorough" else [((1, 2), (2, 1), (3, 2))[i % 3]]
                for rw, rr in pairs:
                    tasks.append(dict(level=level, fs=fs, producer=producer, rpc_w=rw, rpc_r=rr, seed=chk.seed + i))
                    i += 1
    for level in ("1.5", "1.1"):
        for producer in ("option", "cli-adjacent"):
            tasks.append(dict(level=level, fs="vtrace", producer=producer, rpc_w=1, rpc_r=3, seed=chk.seed + i, denied=True))
            i += 1
    L.tables()
    L.instances([dict(L.SMALL_LEADER), dict(L.SMALL_LEADER, nmap=0), dict(file="volume", nfp=4), dict(file="trailer", nlow=0, lens=[]),
                 dict(file="image", kind="processed", n=4, ndata=6, bps=2), dict(file="image", kind="processed", n=3, ndata=4, bps=2),
                 dict(file="image", kind="signal", n=4, ndata=24, bps=8), dict(file="image", kind="signal", n=3, ndata=16, bps=8),
                 dict(file="volume", nfp=4)])
    L.instances([dict(file="image", kind="processed", n=6, ndata=6, bps=2), dict(file="image", kind="processed", n=5, ndata=4, bps=2),
                 dict(file="image", kind="signal", n=6, ndata=24, bps=8), dict(file="image", kind="signal", n=5, ndata=16, bps=8)])
    ptasks = [dict(level=lv, seed=chk.seed + 900 + i, img=img, k=k, rpc=rpc) for i, (lv, img, k, rpc) in enumerate(
        [("1.5", 0, 4, 1024), ("1.1", 1, 2, 1024), ("1.5", 1, 4, 3), ("1.1", 0, 5, 6), ("1.5", 0, 1, 2), ("1.5", 0, 0, 4)])]
    for res in checklib.pmap(partial_transfer, ptasks, chk.scratch):
        t = res["task"]
        chk.count(2, f"partial:{t['level']}:{t['k']}:{t['rpc']}")
        for what, msg in res["bad"]:
            chk.violation(f"cache:{what}", f"[{t['level']}] {msg}", {"task": t})
    results = checklib.pmap(scenario, tasks, chk.scratch)
    npois = 0
    for res in results:
        t = res["task"]
        key = f"{t['level']}:{t['fs']}{'(missing=EACCES)' if t.get('denied') else ''}:{t['producer']}:w{t['rpc_w']}:r{t['rpc_r']}"
        chk.count(len(res["steps"]), key)
        npois += res.get("poisoned", 0)
        for what, msg in res["bad"]:
            chk.violation(f"cache:{what}:{t['fs']}:{t['producer']}", f"[{key}] {msg}", {"task": t, "steps": res["steps"]})
        for d in res.get("drift", [])[:1]:
            chk.note("DRIFT: " + d)
    if npois == 0 and not any(res["bad"] for res in results):
        raise checklib.Machinery("vacuity: no index was poisoned")
    chk.traces(len(results))
    chk.sample({"scenario": results[0]["task"], "steps": results[0]["steps"]})
    chk.assumptions += ["the model's rpc 1, 2, 3 stand for records_per_chunk 2, 1024, 3", "for memory:// and vtrace:// products the CLI (which needs a local "
                        "path) runs on a local twin and its index file is then placed next to the image",
                        "lookup order between the two locations is not prescribed (the documentation and the code disagree); either is accepted"]
    from harness import sessioncheck

    # the cache as a FILE between processes: a cache produced by a process with one locale encoding (UTF-8 / plain C) and used by a process
    # with the other -- the cached open (use_cache=True) must still equal the uncached one (level 1.1: the image groups carry "Hz/µs")
    from checks import C08 as codec
    from checks import _layoutcommon as lc

    lc.prepare_layouts([dict(level="1.1", images=(("HH", "F1", 3, 2), ("HH", "F2", 2, 2)))])
    ttasks = [dict(seed=chk.seed + 640 + i, producer=pr, writer=w, reader=rd) for i, (pr, w, rd) in enumerate(
        (pr, w, rd) for pr in ("write", "cli") for w in ("utf8", "C") for rd in ("utf8", "C"))]
    for res in checklib.pmap(codec.transport_task, ttasks, chk.scratch):
        t = res["task"]
        chk.count(1, f"locale:{t['producer']}:{t['writer']}->{t['reader']}")
        for what, msg in res["bad"]:
            chk.violation(f"cache-across-locales:{what}:{t['producer']}:{t['writer']}->{t['reader']}",
                          f"cache produced by {'open(create_cache=True)' if t['producer'] == 'write' else 'the CLI'}: {msg} (the uncached open of the same product works in both processes)", {"task": t})
    chk.rule_extra.append("cache produced under UTF-8 / plain C locale encoding (option and CLI) and used by a fresh process under the other one: cached open equals the uncached one")
    sessioncheck.standard(chk)
    chk.finish(rule="scenarios = level x filesystem x producer {option, CLI adjacent, both, CLI into the user cache dir} x (rpc_write, rpc_read); each "
                    "runs produce / cached open / poisoned uncached open / cache-less open; evaluations = steps; distinct = scenarios",
               exhaustive=False, extra={"indexes_poisoned": npois})


if __name__ == "__main__":
    checklib.main(body, "C07")
