"""C12 -- well-typed tree: declared shape/dtype match loaded data, no opaque objects.

spec    Fields.tla: DtypeKind (the NumPy dtype kind every exposed field surfaces with) and the invariant WellTypedSlots
        (only b i u f c M m U; all fields feeding one variable agree on kind and dims), checked by TLC over every record.
bind    trees of levels 1.1 / 1.5 / 3.1 products (1-4 images, with / without map projection, every value plan incl. blank
        fields) are walked: every variable must advertise, BEFORE loading, a real numpy.dtype and a shape equal to the dtype
        (up to byte order) and shape of its loaded values, with kind in biufcMmU; every attribute must be a plain scalar,
        string or (nested) list/tuple of those; repr() and nbytes of the tree and of every dataset must work; selections of
        the image variable must keep declared == loaded shape/dtype."""
from checks import _layoutcommon as lc
from harness import checklib

ALLOWED = set("biufcMmU")


def attr_ok(v, depth=0):
    import numpy as np

    if isinstance(v, (bool, int, float, complex, str, np.generic)) and not isinstance(v, (np.void,)):
        return True
    if isinstance(v, (list, tuple)) and depth < 6:
        return all(attr_ok(x, depth + 1) for x in v)
    return False


def walk_tree(case):
    import numpy as np

    import ceos_alos2

    from harness import imgrun, plans, product
    from harness import layout as L

    tables = L.tables()
    plan = plans.make_plan(case["k"], case["seed"], tables) if case.get("k") is not None else None
    blank = case.get("blank")
    if case.get("blank_codes"):
        # "every tree that is RETURNED is well typed": code / flag columns (which the format requires to be filled) left blank in one
        # record -- the reader may refuse such a product; if it returns a tree, the tree must still be typed
        lp = dict(L.SMALL_LEADER)
        if case["level"] == "1.1":
            lp["nmap"] = 0
        inst = L.instance(**lp)
        seen = {}
        blank = []
        for rec in inst["records"]:
            nth = seen.get(rec["name"], 0)
            seen[rec["name"]] = nth + 1
            if rec["name"] == case["blank_codes"]:
                blank += [("LED", rec["name"], nth, path) for path, off, leaf, arr in L.leaves(rec) if leaf["r"] == "code" and leaf["k"] in ("ai", "s")]
    if case.get("before"):
        # HISTORY: another product was opened in this process before (a product of the other level whose image records happen to have the same
        # length and count -- 544 + 8 p1 = 192 + 2 p2): what one open learns about a layout is not what the next one may assume
        for lv_, im_ in case["before"]:
            b0 = product.build_product(level=lv_, images=im_, seed=case["seed"] + 5)
            u0 = imgrun.put_on_fs(b0, "local", f"c12pre_{case['seed']}")
            try:
                t0 = ceos_alos2.open_alos2(u0, backend_options=dict(use_cache=False, records_per_chunk=case.get("rpc", 2)))
                [t0[f"imagery/{i_['group']}/data"].values for i_ in b0.images]
            finally:
                imgrun.drop_from_fs(u0, "local")
    b = product.build_product(level=case["level"], images=case["images"], seed=case["seed"], plan=plan, ctx=case.get("ctx"), product_id=case.get("product_id"),
                              blank=blank, summary_extra=case.get("summary_extra"), vary_first=case.get("vary_first", False),
                              shape_pairs=("all", "fewer", "none", "more", "all")[(case["seed"] + (case.get("k") or 0)) % 5])
    url = imgrun.put_on_fs(b, case["fs"], f"c12_{case['seed']}_{case.get('k')}")
    res = {"case": case, "bad": [], "n_vars": 0, "n_attrs": 0}
    try:
        try:
            tree = ceos_alos2.open_alos2(url, backend_options=dict(use_cache=False, records_per_chunk=case.get("rpc", 2)))
        except BaseException as e:  # noqa: B902
            if not case.get("blank_codes") and not (case.get("may_refuse") and isinstance(e, (ValueError, NotImplementedError))):
                res["bad"].append(("open", f"{type(e).__name__}: {str(e)[:150]}"))
            res["refused"] = True
            return res
        for node in tree.subtree:
            ds = node.to_dataset(inherit=False)
            for name, var in ds.variables.items():
                res["n_vars"] += 1
                where = f"{node.path}:{name}"
                generic = where.replace(b.images[0]["group"], "<image>") if b.images else where
                for im in b.images:
                    generic = generic.replace(f"/imagery/{im['group']}", "/imagery/<image>")
                dt = var.dtype
                if not isinstance(dt, np.dtype):
                    res["bad"].append((f"dtype-not-numpy:{generic}", f"{where}: advertised dtype {dt!r} is a {type(dt).__name__}, not numpy.dtype"))
                    continue
                if dt.kind not in ALLOWED:
                    res["bad"].append((f"dtype-kind:{generic}", f"{where}: dtype kind {dt.kind!r} ({dt})"))
                try:
                    vals = np.asarray(var.values)
                except BaseException as e:  # noqa: B902
                    res["bad"].append((f"load-fails:{generic}", f"{where}: {type(e).__name__}: {str(e)[:100]}"))
                    continue
                if tuple(vals.shape) != tuple(var.shape):
                    res["bad"].append((f"shape:{generic}", f"{where}: declared shape {var.shape}, loaded {vals.shape}"))
                if vals.dtype.newbyteorder("=") != dt.newbyteorder("="):
                    res["bad"].append((f"dtype-mismatch:{generic}", f"{where}: declared dtype {dt}, loaded {vals.dtype}"))
                if vals.dtype.kind == "O":
                    res["bad"].append((f"object-array:{generic}", f"{where}: object array, first element {type(vals.ravel()[0]).__name__ if vals.size else None}"))
                for an, av in var.attrs.items():
                    res["n_attrs"] += 1
                    if not attr_ok(av):
                        res["bad"].append((f"attr-type:{generic}.{an}", f"{where}.attrs[{an!r}] is a {type(av).__name__}"))
            for an, av in ds.attrs.items():
                res["n_attrs"] += 1
                if not attr_ok(av):
                    g = node.path
                    for im in b.images:
                        g = g.replace(f"/imagery/{im['group']}", "/imagery/<image>")
                    res["bad"].append((f"attr-type:{g}.{an}", f"{node.path}.attrs[{an!r}] is a {type(av).__name__}: {str(av)[:60]}"))
            for what, fn in (("repr", lambda: repr(ds)), ("nbytes", lambda: ds.nbytes), ("sizes", lambda: dict(ds.sizes))):
                try:
                    fn()
                except BaseException as e:  # noqa: B902
                    res["bad"].append((f"{what}-fails:dataset", f"{what}({node.path}) raised {type(e).__name__}: {str(e)[:100]}"))
        for what, fn in (("repr", lambda: repr(tree)), ("nbytes", lambda: tree.nbytes), ("str", lambda: str(tree))):
            try:
                fn()
            except BaseException as e:  # noqa: B902
                res["bad"].append((f"{what}-fails:tree", f"{what}(tree) raised {type(e).__name__}: {str(e)[:100]}"))
        # selections keep declared == loaded
        for im in b.images[:2]:
            da = tree[f"imagery/{im['group']}/data"]
            n, p = im["n"], im["p"]
            sels = [dict(rows=0), dict(rows=slice(0, n, 2)), dict(rows=slice(None, None, -1), columns=0), dict(columns=slice(0, 0)),
                    dict(rows=[0, n - 1]), dict(rows=-1, columns=-1), dict(rows=slice(1, 1)), dict(rows=slice(0, 0), columns=slice(0, 1)),
                    dict(rows=slice(0, 0), columns=0), dict(rows=0, columns=0), dict(rows=slice(n, None), columns=slice(None, None, 2))]
            for s in sels:
                try:
                    sub = da.isel(s)
                    vals = np.asarray(sub.values)
                except BaseException as e:  # noqa: B902
                    res["bad"].append((f"selection-fails:{sorted(s)}", f"isel({s}) raised {type(e).__name__}: {str(e)[:100]}"))
                    continue
                if tuple(sub.shape) != tuple(vals.shape) or not isinstance(sub.dtype, np.dtype) or sub.dtype.newbyteorder("=") != vals.dtype.newbyteorder("="):
                    res["bad"].append((f"selection-typed:{sorted(s)}", f"isel({s}): declared {sub.shape} {sub.dtype}, loaded {vals.shape} {vals.dtype}"))
                # the asynchronous way to load (DataArray.load_async): a backend that does not offer it refuses (NotImplementedError) -- one
                # that does must load what it declared, like the synchronous way
                lazy = da.isel(s)
                if hasattr(lazy, "load_async"):
                    import asyncio

                    try:
                        got = asyncio.run(lazy.load_async())
                        av = np.asarray(got.values)
                        if tuple(lazy.shape) != tuple(av.shape) or lazy.dtype.newbyteorder("=") != av.dtype.newbyteorder("="):
                            res["bad"].append((f"selection-typed-async:{sorted(s)}", f"isel({s}).load_async(): declared {lazy.shape} {lazy.dtype}, loaded {av.shape} {av.dtype}"))
                        elif not np.array_equal(av, vals, equal_nan=(av.dtype.kind in "fc")):
                            res["bad"].append((f"selection-async-values:{sorted(s)}", f"isel({s}).load_async() loads other values than .values"))
                    except NotImplementedError:
                        pass
                    except BaseException as e:  # noqa: B902
                        res["bad"].append((f"selection-async-fails:{sorted(s)}", f"isel({s}).load_async() raised {type(e).__name__}: {str(e)[:100]}"))
    finally:
        imgrun.drop_from_fs(url, case["fs"])
    return res


def body(chk):
    from harness import plans

    lc.run_tables_model(chk)
    cases = []
    K = len(plans.CLASSES)
    shapes = [("1.5", (("HH", None, 3, 2),)), ("1.1", (("HH", "F1", 2, 2), ("HH", "F2", 3, 1), ("HV", "F1", 2, 2), ("HV", "F2", 1, 1))),
              ("3.1", (("HH", None, 2, 3), ("HV", None, 2, 3))), ("1.1", (("VV", None, 4, 2),))]
    for si, (level, images) in enumerate(shapes):
        for k in (range(K) if chk.tier == "thorough" else [None, si, si + 4, si + 8]):
            cases.append(dict(level=level, images=images, seed=chk.seed + si, k=k, fs=("local", "vtrace", "memory", "file")[si % 4]))
    cases.append(dict(level="1.5", images=(("HH", None, 2, 2),), seed=chk.seed + 9, k=1, ctx=dict(designator="LCC-PROJECTION"), fs="local"))
    cases.append(dict(level="1.5", images=(("HH", None, 2, 2),), seed=chk.seed + 9, k=2, ctx=dict(designator="UPS-PROJECTION"), fs="local"))
    # product ids and leader designators that agree on the projection (U / UTM, L / LCC, P / UPS, M / MER)
    for j, (pid, desig) in enumerate((("WBDR1.5GLD", "LCC-PROJECTION"), ("WBDR1.5GPD", "UPS-PROJECTION"), ("WBDR1.5GMA", "MER-PROJECTION"), ("FBDR1.5RUA", "UTM-PROJECTION"), ("FBDR3.1GLA", "LCC-PROJECTION"))):
        cases.append(dict(level=pid[4:7], images=(("HH", None, 2, 2), ("HV", None, 2, 2)), seed=chk.seed + 30 + j, k=(None, j)[j % 2], ctx=dict(designator=desig), product_id=pid, fs="local"))
    # histories: the other level first, with image records of the same length and count (544 + 8*1 = 192 + 2*180; 544 + 8*3 = 192 + 2*188)
    cases.append(dict(level="1.5", images=(("HH", None, 6, 180),), seed=chk.seed + 40, k=None, fs="local", rpc=2, before=[("1.1", (("HH", None, 6, 1),))]))
    cases.append(dict(level="1.1", images=(("HH", None, 6, 1),), seed=chk.seed + 41, k=None, fs="local", rpc=2, before=[("1.5", (("HH", None, 6, 180),))]))
    cases.append(dict(level="1.5", images=(("HH", None, 4, 188), ("HV", None, 4, 188)), seed=chk.seed + 42, k=None, fs="local", rpc=1024, before=[("1.1", (("HH", None, 4, 3), ("HV", None, 4, 3)))]))
    for j in range(2):  # an image whose per-file fields change along its lines (update flags raised on some lines)
        cases.append(dict(level=("1.5", "1.1")[j], images=(("HH", None, 4, 2), ("HV", None, 3, 1)), seed=chk.seed + 15 + j, k=None, fs="local", vary_first=True))
    # sections the reader has no transformer for (browse image, future additions): whatever it does with them, attributes stay plain
    cases.append(dict(level="1.5", images=(("HH", None, 2, 2),), seed=chk.seed + 11, k=None, fs="local",
                      summary_extra=['Brs_BrowseImageFileName="BRS-HH-ALOS2014410740-140829-WBDR1.5RUD.jpg"', 'Brs_BrowseBitPixel="8"', 'Xyz_Unknown=""']))
    for ri, recname in enumerate(["attitude", "dataset_summary", "platform_position", "facility_related_data_5", "radiometric_data", "data_quality_summary"]):
        cases.append(dict(level=("1.5", "1.1")[ri % 2], images=(("HH", None, 2, 2),), seed=chk.seed + 20 + ri, k=None, fs="local", blank_codes=recname))
    # level 1.0 (type code CI*2, signal data records): the documentation says "for now, level 1.1, 1.5, and 3.1 only" and the pinned reader
    # refuses the type code -- nothing to judge then; a reader that RETURNS a tree for such a product is held to the property like any other
    for j, images in enumerate(((("HH", None, 4, 3),), (("HH", None, 3, 2), ("HV", None, 3, 2)))):
        cases.append(dict(level="1.0", images=images, seed=chk.seed + 50 + j, k=None, fs=("local", "vtrace")[j], may_refuse=True))
    lc.prepare_layouts(cases)
    results = checklib.pmap(walk_tree, cases, chk.scratch)
    nv = na = 0
    for res in results:
        c = res["case"]
        nv += res["n_vars"]
        na += res["n_attrs"]
        chk.count(res["n_vars"] + res["n_attrs"], f"{c['level']}:{len(c['images'])}img:plan={c.get('k')}:{(c.get('ctx') or {}).get('designator')}")
        seen = set()
        for key, msg in res["bad"]:
            if key in seen:
                continue
            seen.add(key)
            chk.violation(f"typing:{key}", f"{msg}   [{c['level']}, plan {c.get('k')}]", {"case": c})
    refused10 = sum(1 for r in results if r["case"].get("may_refuse") and r.get("refused"))
    if refused10:
        chk.note(f"level-1.0 products (CI*2): {refused10} refused by the reader (documented: levels 1.1 / 1.5 / 3.1 only) -- not judged")
    chk.traces(len(results))
    chk.sample({"product": results[0]["case"]["level"], "variables_checked": results[0]["n_vars"], "attributes_checked": results[0]["n_attrs"],
                "problems": results[0]["bad"][:3]})
    chk.assumptions += ["numpy scalar types count as plain scalars for attributes; dicts, None, arrays and arbitrary objects do not"]
    from harness import sessioncheck

    sessioncheck.standard(chk)
    from harness import envrun

    envrun.run(chk, {"types", "unloadable", "spurious_error"})
    chk.finish(rule="every variable and attribute of every node of trees for levels 1.1 / 1.5 / 3.1 (and level 1.0 / CI*2 when the reader returns a tree for it), 1-4 images, three projection "
                    "designators, several value plans; evaluations = variables + attributes inspected; distinct = (level, images, "
                    "plan, designator)", exhaustive=False, extra={"variables": nv, "attributes": na})


if __name__ == "__main__":
    checklib.main(body, "C12")
