"""C17 -- all timestamps follow one calendar convention and keep their stored resolution.

spec    Calendar.tla: day-of-year 1 = 1 January; IsLeap, day numbers since 2000-01-01 through the (year, day-of-year) route and
        the (year, month, day) route; TLC enumerates the boundary instants (years 2014..2049 incl. leap years, days 1, 2, 59,
        60, 61, 365, 366, times 00:00:00.000 / .001 / noon / 23:59:59.999, microsecond remainders) and checks AllDecodersAgree,
        LeapDay, LastDay, DayInMonth; every instant is exported with all its encodings.
bind    each instant is written SIMULTANEOUSLY into every time-bearing field of one product -- image line (year, doy, ms) and
        microseconds of day, every attitude point (doy, ms), platform-position first point ("YYYY MM DD", seconds of day),
        scene-centre compact text, volume creation time -- and all read-back values (two per-line coordinates, the time
        coordinate of both attitude groups, three ISO attributes) must denote the spec's instant at the stored resolution."""
import datetime as dt
import json
import os
import random

from harness import checklib

TZS = ["UTC0", "CET-1CEST,M3.5.0,M10.5.0/3", "EST5EDT,M3.2.0,M11.1.0", "JST-9", "NZST-12NZDT,M9.5.0,M4.1.0/3", "UTC0"]
EPOCH2000 = 10957  # days from 1970-01-01 to 2000-01-01


def run_instant(case):
    import ceos_alos2

    from harness import imgrun, product

    import time as _time

    # the reading process's time zone must not matter (file times are UTC instants): zones with and without daylight saving time, both
    # hemispheres, rotate over the instants
    os.environ["TZ"] = TZS[case["seed"] % len(TZS)]
    _time.tzset()
    e = case["inst"]
    y, doy, ms, us = e["y"], e["doy"], e["ms"], e["us"]
    frac = f"{e['mmm']:03d}{us:03d}"
    compact = f"{y:04d}{e['month']:02d}{e['day']:02d}{e['hh']:02d}{e['mm']:02d}{e['ss']:02d}"
    st = case["seed"] % 3
    whole = str(ms // 1000) + f"{ms % 1000:03d}"  # the decimal digits of the value: no binary rounding in any of the texts
    sod = (f"{ms // 1000}.{ms % 1000:03d}", f"{ms // 1000}.{ms % 1000:03d}000000000000",
           f"{whole[0]}.{whole[1:].ljust(15, '0')}E+{len(str(ms // 1000)) - 1:02d}")[st]
    # the date: three I4 integers in one of the styles the specification enumerates (blank padded / zero padded)
    pp_date = e["date_text"][("blank", "zero2")[(case["seed"] // 3) % 2]] if "date_text" in e else f"{y:4d}{e['month']:4d}{e['day']:4d}"
    # every fourth product: the scene centre lies 14 min AFTER the first state vector / the attitude points (orbit data start before the
    # scene) -- for the last instants of a year it is in the NEXT year, and the attitude points still count from the first point's year
    centre_shift = 840000 if case["seed"] % 4 == 2 else 0
    centre_text = compact + frac
    if centre_shift:
        if "later14m" in e:
            cy, cdoy, cms = e["later14m"]["y"], e["later14m"]["doy"], e["later14m"]["ms"]
        else:
            tot14 = e["daynumber"] * 86400000 + ms + centre_shift
            dd = dt.date(2000, 1, 1) + dt.timedelta(days=tot14 // 86400000)
            cy, cdoy, cms = dd.year, (dd - dt.date(dd.year, 1, 1)).days + 1, tot14 % 86400000
        cd = dt.date(cy, 1, 1) + dt.timedelta(days=cdoy - 1)
        centre_text = f"{cy:04d}{cd.month:02d}{cd.day:02d}{cms // 3600000:02d}{(cms // 60000) % 60:02d}{(cms // 1000) % 60:02d}{cms % 1000:03d}{us:03d}"
    ctx = dict(scene_center_time=centre_text, creation_datetime=compact + f"{e['mmm'] // 10:02d}", pp_date=pp_date,
               pp_doy=doy, pp_sod=sod, att_doy=doy, att_ms=ms)
    # a second polarisation of the same scan whose lines start a fraction of a pulse interval later, inside the same millisecond
    us2 = us + 367 if us + 367 < 1000 else us - 367
    # the second line of the first image is acquired 2 s after the first one: for instants in the last two seconds of a day it belongs to
    # the NEXT day (next year after day 365 / 366) while both lines are fetched in one request (records_per_chunk = 2)
    if "later2s" in e:   # computed by the specification (Calendar!Later)
        y2, doy2, ms2 = e["later2s"]["y"], e["later2s"]["doy"], e["later2s"]["ms"]
    else:
        tot = e["daynumber"] * 86400000 + ms + 2000
        d2 = dt.date(2000, 1, 1) + dt.timedelta(days=tot // 86400000)
        y2, doy2, ms2 = d2.year, (d2 - dt.date(d2.year, 1, 1)).days + 1, tot % 86400000
    # every fifth product is stored last-acquired line first (a descending pass written north-up): the LATER stamp on the first line
    desc = case["seed"] % 5 == 4
    first, second = ((y2, doy2, ms2), (y, doy, ms)) if desc else ((y, doy, ms), (y2, doy2, ms2))
    lo = {(0, 0, "sensor_acquisition_date"): first, (0, 0, "sensor_acquisition_date_microseconds"): first[2] * 1000 + us,
          (0, 1, "sensor_acquisition_date"): second, (0, 1, "sensor_acquisition_date_microseconds"): second[2] * 1000 + us,
          (1, 0, "sensor_acquisition_date"): (y, doy, ms), (1, 0, "sensor_acquisition_date_microseconds"): ms * 1000 + us2,
          (1, 1, "sensor_acquisition_date"): (y, doy, ms), (1, 1, "sensor_acquisition_date_microseconds"): ms * 1000 + us2}
    b = product.build_product(level="1.1", images=(("HH", None, 2, 1), ("VH", None, 2, 1)), seed=case["seed"], ctx=ctx, line_overrides=lo, leader=dict(np=2))
    url = imgrun.put_on_fs(b, "local", f"c17_{case['seed']}")
    out = {"case": case, "bad": []}
    day_ns = (e["daynumber"] + EPOCH2000) * 86400 * 10**9
    want_ms = day_ns + ms * 10**6
    want_us = want_ms + us * 1000
    try:
        import contextlib
        import decimal

        import numpy as np

        # ambient state of the calling thread that belongs to the application: a lowered decimal precision (the first example of the
        # decimal documentation sets prec = 6), NumPy floating-point warnings turned into errors
        amb = contextlib.ExitStack()
        out["ambient"] = ("none", "decimal-prec-6", "none", "numpy-errors-raise", "decimal-prec-9")[case["seed"] % 5]
        if out["ambient"].startswith("decimal"):
            amb.enter_context(decimal.localcontext()).prec = int(out["ambient"].rsplit("-", 1)[1])
        elif out["ambient"] == "numpy-errors-raise":
            amb.enter_context(np.errstate(all="raise"))
        try:
            # the three ways a tree comes into being: parsed; parsed while its index is written; served from that index
            how = (case["seed"] // 6) % 3
            if how == 0:
                tree = ceos_alos2.open_alos2(url, backend_options=dict(use_cache=False, records_per_chunk=2))
            else:
                tree = ceos_alos2.open_alos2(url, backend_options=dict(use_cache=False, create_cache=True, records_per_chunk=2))
                if how == 2:
                    tree = ceos_alos2.open_alos2(url, backend_options=dict(use_cache=True, records_per_chunk=3))
        except BaseException as ex:  # noqa: B902
            out["bad"].append(("open", f"{type(ex).__name__}: {str(ex)[:150]}", None))
            return out
        finally:
            amb.close()

        def ns(v):
            import numpy as np

            return int(np.asarray(v).astype("datetime64[ns]").astype("int64"))

        def iso_ns(s):
            d = dt.datetime.fromisoformat(s)
            delta = d - dt.datetime(1970, 1, 1)
            return (delta.days * 86400 + delta.seconds) * 10**9 + delta.microseconds * 1000

        img = tree["imagery/HH"]
        obs = {
            "image-line-ms": (ns(img["sensor_acquisition_date"].values[0]), want_ms + (2000 * 10**6 if desc else 0)),
            "image-line-us": (ns(img["sensor_acquisition_date_microseconds"].values[0]), want_us + (2000 * 10**6 if desc else 0)),
            "image-line2-us": (ns(img["sensor_acquisition_date_microseconds"].values[1]), want_us + (0 if desc else 2000 * 10**6)),
            "image-line2-ms": (ns(img["sensor_acquisition_date"].values[1]), want_ms + (0 if desc else 2000 * 10**6)),
            "image2-line-us": (ns(tree["imagery/VH"]["sensor_acquisition_date_microseconds"].values[0]), want_ms + us2 * 1000),
            "image2-line-ms": (ns(tree["imagery/VH"]["sensor_acquisition_date"].values[1]), want_ms),
            "attitude-time": (ns(tree["metadata/attitude/attitude"]["time"].values[0]), want_ms),
            "attitude-time-last": (ns(tree["metadata/attitude/attitude"]["time"].values[-1]), want_ms),
            "attitude-rates-time": (ns(tree["metadata/attitude/rates"]["time"].values[0]), want_ms),
            "platform-position-first-point": (iso_ns(tree["metadata/platform_position"].attrs["datetime_of_first_point"]), want_ms),
            "scene-centre": (iso_ns(tree["metadata/dataset_summary"].attrs["scene_center_time"]), want_us + centre_shift * 10**6),
            "volume-creation": (iso_ns(tree.attrs["creation_datetime"]), day_ns + (ms // 10) * 10**7),
        }
        # the time values of different groups are values of their own: a caller correcting ONE axis in place (say, by a day) moves no other
        try:
            a_t = tree["metadata/attitude/attitude"]["time"].values
            before = {k: np.array(tree[k]["time"].values if k.startswith("metadata") else tree[k][v_].values, copy=True)
                      for k, v_ in (("metadata/attitude/rates", "time"), ("imagery/HH", "sensor_acquisition_date"), ("imagery/VH", "sensor_acquisition_date"))}
            if a_t.flags.writeable:
                a_t -= np.timedelta64(1, "D")
                for k, v_ in (("metadata/attitude/rates", "time"), ("imagery/HH", "sensor_acquisition_date"), ("imagery/VH", "sensor_acquisition_date")):
                    now = tree[k]["time"].values if k.startswith("metadata") else tree[k][v_].values
                    if not np.array_equal(now, before[k]):
                        out["bad"].append((f"aliased-time-axes:{k}", f"subtracting a day from /metadata/attitude/attitude/time in place also moved /{k}/{v_}: two nodes of the tree share one array", 0))
                a_t += np.timedelta64(1, "D")
        except BaseException as ex:  # noqa: B902
            out["bad"].append(("aliased-time-axes:raises", f"{type(ex).__name__}: {str(ex)[:100]}", 0))
        for name, (got, want) in obs.items():
            if got != want:
                d = got - want
                if d % (86400 * 10**9) == 0:
                    how = f"{d // (86400 * 10**9):+d}-day"
                elif abs(d) < 10**9:
                    how = "sub-second"
                else:
                    how = "other"
                out["bad"].append((f"{name.split('-last')[0].replace('attitude-rates-time', 'attitude-time')}:{how}", f"{name}: read back {got} ns, the file encodes {want} ns (difference {d} ns)", d))
    finally:
        imgrun.drop_from_fs(url, "local")
        os.environ["TZ"] = "UTC0"
        _time.tzset()
    out["tz"] = TZS[case["seed"] % len(TZS)]
    return out


def body(chk):
    from checks import _layoutcommon as lc
    from harness import tlc

    f = os.path.join(chk.scratch, "inst.json")
    r = tlc.run_ok("MC_Calendar", "MC_Calendar", workers=8, env={"INSTANTS_FILE": f}, coverage=True)
    chk.tlc_stats(r)
    for v in r.violated:
        chk.violation(f"model:{v}", f"TLC: {v} violated in Calendar", {"tlc": r.out[-2000:]})
    insts = json.load(open(f))
    rb = tlc.run("MC_Calendar", "MC_Calendar_bug", workers=4)
    if "GreedyAgrees" not in rb.violated:
        raise checklib.Machinery("non-vacuity: the instant family does not separate the positional date decoder from the blank-dropping one")
    if not any(i["doy"] == 366 for i in insts) or not any(i["doy"] == 60 and i["month"] == 2 and i["day"] == 29 for i in insts):
        raise checklib.Machinery("vacuity: no leap-day / day-366 instant in the family")
    rnd = random.Random(chk.seed)
    extra = []
    for _ in range(60 if chk.tier == "quick" else 2000):  # random instants 2014..2049, judged by the same arithmetic in Python's datetime
        y = rnd.randint(2014, 2049)
        leap = (y % 4 == 0 and y % 100 != 0) or y % 400 == 0
        doy = rnd.randint(1, 366 if leap else 365)
        ms = rnd.randrange(86400000)
        d = dt.date(y, 1, 1) + dt.timedelta(days=doy - 1)
        extra.append({"y": y, "doy": doy, "ms": ms, "us": rnd.randrange(1000), "month": d.month, "day": d.day, "daynumber": (d - dt.date(2000, 1, 1)).days,
                      "hh": ms // 3600000, "mm": (ms // 60000) % 60, "ss": (ms // 1000) % 60, "mmm": ms % 1000})
    cases = [dict(inst=i, seed=chk.seed + k) for k, i in enumerate(insts + extra)]
    lc.prepare_layouts([dict(level="1.1", images=(("HH", None, 2, 1), ("VH", None, 2, 1)), leader=dict(np=2))])
    results = checklib.pmap(run_instant, cases, chk.scratch, chunksize=8)
    for res in results:
        i = res["case"]["inst"]
        chk.count(12, f"{i['y']}-{i['doy']}-{i['ms']}-{i['us']}")
        seen = set()
        for key, msg, d in res["bad"]:
            if key in seen:
                continue
            seen.add(key)
            chk.violation(f"calendar:{key}", f"instant {i['y']} day {i['doy']} ms {i['ms']} us {i['us']} (process TZ {res.get('tz')}, ambient {res.get('ambient')}): {msg}", {"instant": i})
    chk.traces(len(results))
    chk.sample({"instant": insts[len(insts) // 3], "fields_written": ["image line ydms + us", "attitude points", "platform position first point",
                                                                       "scene centre", "volume creation"], "mismatches": results[len(insts) // 3]["bad"][:2]})
    chk.assumptions += ["volume creation time has 10 ms resolution (16-character field), platform position ms (decimal seconds), scene centre us",
                        "random instants are cross-computed with Python's datetime (doy 1 = 1 January)"]
    chk.finish(rule="instants = every (year, day-of-year, ms, us) of the TLC family (7 years x boundary days x 4 times x 3 us remainders) + seeded "
                    "random instants 2014..2049; each written into 12 read-back points of one product (the second line of one image 2 s later: across midnight / new year inside one request for the last instants of a day), opened under a rotating ambient state (decimal precision 6 / 9, NumPy errors raised); evaluations = read-back points; distinct = instants",
               exhaustive=False, extra={"tlc_instants": len(insts), "random_instants": len(extra)})


if __name__ == "__main__":
    checklib.main(body, "C17")
