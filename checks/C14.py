"""C14 -- summary parsing is total on well-formed text and reports every malformed line.

spec    SummaryGrammar.tla: abstract lines; Parse = exact set of malformed line numbers OR the section -> key -> value map with
        file roles taken from the NUMBER in the ...ProductFileNameNN keys; TLC checks OrderIndependent over all permutations of
        every summary up to MaxLines lines and ErrorSetExact over all corruption subsets; the documented conversion table (Conv),
        section names and look-up tables are exported to the harness.
bind    generated texts (random order within and across sections, LF / CRLF, values with spaces, '=' and quotes, 3..10 product
        files, several shape indices) are placed in real products and opened with open_alos2: every /summary/* attribute must
        equal the documented conversion; subsets of lines corrupted in every grammar-violating way must make open_alos2 fail
        with ONE exception group whose sub-exceptions name exactly the offending line numbers and no others."""
import json
import os
import random
import re

from harness import checklib


def make_summary(rnd, ids, n_images, conv):
    """-> (lines: list of (sec, key, value), expected: {section name: {attr: value}}, roles)"""
    p = rnd.choice([x for x in ids["products"] if x["valid"]])
    y, mo, d = rnd.randint(2014, 2049), rnd.randint(1, 12), rnd.randint(1, 28)
    orbit, frame = f"{rnd.randrange(100000):05d}", f"{rnd.randrange(10000):04d}"
    scene = f"ALOS2{orbit}{frame}-{y % 100:02d}{mo:02d}{d:02d}"
    weird = ['a b  c', 'x=y', 'say "hi"', '=', '"', 'a="b"', "it's", 'tab\there', '  lead', 'trail  ', 'ü', '']
    lines = [("Odi", "SiteDateTime", "20200301 120000"), ("Odi", "Note", rnd.choice(weird)),
             ("Scs", "SceneID", scene), ("Scs", "SceneShift", str(rnd.randint(-5, 5))), ("Scs", "Remark", rnd.choice(weird)),
             ("Pds", "ProductID", p["id"]), ("Pds", "ResamplingMethod", rnd.choice(["NN", "BL", "CC"])), ("Pds", "UTM_ZoneNo", str(rnd.randint(1, 60))),
             ("Pds", "MapDirection", "MapNorth"), ("Pds", "OrbitDataPrecision", "Precision"), ("Pds", "AttitudeDataPrecision", "Onboard"),
             ("Pds", "PixelSpacing", f"{rnd.uniform(1, 100):.6f}"), ("Pds", "LatLonEllipsoid", "1.5E+02"),
             # scene times: ordinary, the last millisecond of a day, inside a leap second (second 60), with more decimals than three
             ("Img", "SceneCenterDateTime", rnd.choice([f"{y:04d}{mo:02d}{d:02d} 03:04:05.678", f"{y:04d}{mo:02d}{d:02d} 03:04:05.678912", "20161231 23:59:60.124"])),
             ("Img", "SceneStartDateTime", f"{y:04d}{mo:02d}{d:02d} 23:59:59.999"),
             ("Img", "SceneEndDateTime", rnd.choice(["20150630 23:59:60.999", f"{y:04d}{mo:02d}{d:02d} 00:00:00.000", f"{y:04d}{mo:02d}{d:02d} 12:00:00.5"])),
             ("Img", "OffNadirAngle", f"{rnd.uniform(8, 70):.1f}"), ("Img", "ImageSceneLeftTopLatitude", f"{rnd.uniform(-90, 90):.3f}"),
             ("Pdi", "ProductFormat", "CEOS"), ("Pdi", "BitPixel", rnd.choice(["16", "32"])), ("Pdi", "ProductDataSize", f"{rnd.uniform(0.1, 9000):.1f}"),
             ("Pdi", "Comment", rnd.choice(weird)),
             ("Ach", "TimeCheck", "GOOD"), ("Ach", "AttitudeCheck", ""), ("Ach", "AbsoluteNavigationStatus", rnd.choice(["", "OK"])),
             ("Rad", "PracticeResultCode", "GOOD"), ("Lbi", "Satellite", "ALOS2"), ("Lbi", "Sensor", "SAR"), ("Lbi", "ProcessLevel", p["slots"]["level"]),
             ("Lbi", "ProcessFacility", rnd.choice(["SCMO", "EICS"])), ("Lbi", "ObservationDate", f"{y:04d}{mo:02d}{d:02d}")]
    # entries that fall under a PATTERN of the conversion table (Conv), not under one of its literal keys: other date-time keywords of the
    # image section, other float keywords, other autocheck / label keys
    if rnd.random() < 0.5:
        at = rnd.randrange(len(lines) + 1)
        lines[at:at] = [("Img", rnd.choice(["FrameSceneCenterDateTime", "FirstLineDateTime", "DateTimeOfLastLine"]), f"{y:04d}{mo:02d}{d:02d} 07:08:09.010"),
                        ("Img", rnd.choice(["ImageSceneRightBottomLongitude", "IncidenceAngleAtCentre"]), f"{rnd.uniform(-180, 180):.3f}"),
                        ("Ach", rnd.choice(["OrbitCheck", "GainCheck"]), rnd.choice(["", "GOOD"])), ("Lbi", "Remarks", rnd.choice(weird))]
    return lines, p, scene, (y, mo, d), orbit, frame


def convert(sec, key, val, tables, p, scene_parts):
    """documented conversion of one entry -> {attr: value} (classes from the spec's Conv table)"""
    cls = None
    for s, pat, c in tables["conv"]:
        if s != sec.lower():
            continue
        rx = "^" + re.escape(pat).replace(r"\*", ".*") + "$"
        if re.match(rx, key):
            cls = c
            break
    if cls == "scene-id":
        (y, mo, d), orbit, frame = scene_parts
        return {"mission_name": "ALOS2", "orbit_accumulation": int(orbit), "scene_frame": int(frame), "date": f"{y:04d}-{mo:02d}-{d:02d}"}
    if cls == "product-id":
        return dict(p["decoded"])
    if cls == "int":
        return {key: int(val)}
    if cls == "float":
        return {key: float(val)}
    if cls == "resampling":
        return {key: dict(map(tuple, tables["resampling"]))[val]}
    if cls == "facility":
        return {key: dict(map(tuple, tables["facilities"]))[val]}
    if cls == "datetime":
        dte, tme = val.split()
        return {key: f"{dte[:4]}-{dte[4:6]}-{dte[6:]}T{tme}"}
    if cls == "date":
        return {key: f"{val[:4]}-{val[4:6]}-{val[6:]}"}
    if cls == "na-if-empty":
        return {key: val or "N/A"}
    return {key: val}


CORRUPT = {
    "no-underscore": lambda s, k, v: f'{s}{k}="{v}"',
    "short-section": lambda s, k, v: f'{s[:2]}_{k}="{v}"',
    "digit-section": lambda s, k, v: f'{s[0]}1{s[2]}_{k}="{v}"',
    "no-equals": lambda s, k, v: f'{s}_{k}"{v}"',
    "no-open-quote": lambda s, k, v: f'{s}_{k}={v}"',
    "no-close-quote": lambda s, k, v: f'{s}_{k}="{v}',
    "trailing-garbage": lambda s, k, v: f'{s}_{k}="{v}" #',
    "trailing-space": lambda s, k, v: f'{s}_{k}="{v}" ',
    "leading-space": lambda s, k, v: f' {s}_{k}="{v}"',
    "empty-line": lambda s, k, v: "",
    "single-quotes": lambda s, k, v: f"{s}_{k}='{v}'",
    "cut-behind-open-quote": lambda s, k, v: f'{s}_{k}="',
    "cut-behind-equals": lambda s, k, v: f'{s}_{k}=',
}


def run_case(case):
    import ceos_alos2

    from harness import imgrun, product, project

    rnd = random.Random(case["seed"])
    tables, ids = case["tables"], case["ids"]
    n_img = case["n_img"]
    lines, p, scene, ymd, orbit, frame = make_summary(rnd, ids, n_img, tables["conv"])
    level = p["slots"]["level"] if p["slots"]["level"] != "1.0" else "1.1"
    pols = [("HH", None), ("HV", None), ("VH", None), ("VV", None), ("HH", "F1"), ("HV", "F1"), ("HH", "F2"), ("HV", "F2")][:n_img]
    images = [(a, s, 2 + i % 3, 1 + i % 2) for i, (a, s) in enumerate(pols)]
    b = product.build_product(level=level, images=images, seed=case["seed"], product_id=p["id"], scene_id=scene)
    names = [b.names["vol"], b.names["led"]] + b.names["images"] + [b.names["trl"]]
    lv = p["slots"]["level"].replace(".", "")
    file_lines = [("Pdi", f"L{lv}ProductFileName{i + 1:02d}", n) for i, n in enumerate(names)]
    shape_lines = []
    for i, im in enumerate(b.images):
        shape_lines += [("Pdi", f"NoOfPixels_{i}", str(im["p"])), ("Pdi", f"NoOfLines_{i}", str(im["n"]))]
    extra_shapes = {}
    if case["seed"] % 3 == 0:  # size entries are keyed by an index, not by position: two-digit and sparse indices are entries like any other
        for idx in (10, 12, 27):
            extra_shapes[str(idx)] = (100 + idx, 7 + idx)
            shape_lines += [("Pdi", f"NoOfPixels_{idx}", str(100 + idx)), ("Pdi", f"NoOfLines_{idx}", str(7 + idx))]
    allines = lines + [("Pdi", f"CntOfL{lv}ProductFileName", str(len(names)))] + file_lines + shape_lines
    if case.get("long"):   # a summary of a few hundred lines (notes, remarks): the number of lines -- and of malformed ones -- is not bounded
        allines += [(("Odi", "Scs", "Pdi", "Rad", "Lbi")[j % 5], f"Note{j:03d}", rnd.choice(["", "x", "a b", "see above"])) for j in range(case["long"])]
    # any order within and across sections
    if case["shuffle"] == "full":
        rnd.shuffle(allines)
    elif case["shuffle"] == "sections":
        secs = {}
        for ln in allines:
            secs.setdefault(ln[0], []).append(ln)
        order = list(secs)
        rnd.shuffle(order)
        allines = [ln for s in order for ln in rnd.sample(secs[s], len(secs[s]))]
    # expected tree
    expected = {}
    secname = dict(map(tuple, tables["sections"]))
    for s, k, v in allines:
        g = expected.setdefault(secname[s.lower()], {})
        c = convert(s, k, v, tables, p, (ymd, orbit, frame))
        if s == "Pdi" and ("ProductFileName" in k or k.startswith(("NoOfPixels", "NoOfLines", "Cnt"))):
            continue
        g.update(c)
    roles = {"volume_directory": b.names["vol"], "sar_leader": b.names["led"], "sar_imagery": list(b.names["images"]), "sar_trailer": b.names["trl"]}
    shapes = {str(i): (im["p"], im["n"]) for i, im in enumerate(b.images)}
    shapes.update(extra_shapes)
    texts = [f'{s}_{k}="{v}"' for s, k, v in allines]
    bad_idx = sorted(rnd.sample(range(len(texts)), case["n_bad"])) if case["n_bad"] else []
    kinds = {}
    grammar = re.compile(r'[A-Za-z]{3}_.*="(.|\n)*"')  # the property's grammar:  Sec_Key="value"
    for i in bad_idx:
        kind = case["kinds"][(i + case["seed"]) % len(case["kinds"])]
        s, k, v = allines[i]
        t = CORRUPT[kind](s, k, v)
        if grammar.fullmatch(t) or (t == "" and i == len(texts) - 1):
            # the corruption did not leave the language (e.g. a value that itself ends in a quote) / a final empty line is no line
            kind = "leading-space"
            t = CORRUPT[kind](s, k, v)
        kinds[i] = kind
        texts[i] = t
    eol = "\r\n" if case["crlf"] else "\n"
    content = eol.join(texts) + (eol if case["seed"] % 2 else "")
    b.files["summary.txt"] = content.encode("utf-8")
    url = imgrun.put_on_fs(b, case["fs"], f"c14_{case['seed']}")
    out = {"case": {k: v for k, v in case.items() if k not in ("tables", "ids")}, "bad": [], "n": len(texts), "text": texts[:6]}
    try:
        try:
            tree = ceos_alos2.open_alos2(url, backend_options=dict(use_cache=False))
        except BaseException as e:  # noqa: B902
            if not bad_idx:
                out["bad"].append(("wellformed-rejected", f"well-formed summary rejected: {type(e).__name__}: {str(e)[:160]}"))
                return out
            subs = getattr(e, "exceptions", None)
            if subs is None:
                out["bad"].append(("not-an-error-group", f"malformed lines {bad_idx} ({kinds}): got a single {type(e).__name__}: {str(e)[:100]}"))
                return out
            nums = []
            for se in subs:
                m = re.search(r"line (\d+)", str(se))
                nums.append(int(m.group(1)) if m else None)
            if sorted(x for x in nums if x is not None) != bad_idx or None in nums:
                out["bad"].append(("error-lines", f"malformed lines {bad_idx} ({kinds}) but the error group names {sorted(nums, key=str)}"))
            return out
        if bad_idx:
            out["bad"].append(("malformed-accepted", f"malformed lines {bad_idx} ({kinds}) were accepted"))
            return out
        proj = project.project_tree(tree, load=False)
        for sname, attrs in expected.items():
            node = proj.get(f"/summary/{sname}")
            if node is None:
                out["bad"].append((f"section-missing:{sname}", f"/summary/{sname} missing"))
                continue
            got = node["attrs"]
            for k, v in attrs.items():
                w = project.norm_scalar(v)
                if k not in got or not project.same_value(got[k], w, 0):
                    out["bad"].append((f"attr:{sname}", f"/summary/{sname}.{k} = {got.get(k)}, documented conversion gives {w}"))
        df = proj.get("/summary/product_information/data_files")
        if df is None:
            out["bad"].append(("data-files-missing", "no /summary/product_information/data_files"))
        else:
            for role, want in roles.items():
                w = project.norm_scalar(want)
                if df["attrs"].get(role) != w:
                    out["bad"].append((f"file-role:{role}", f"data_files.{role} = {df['attrs'].get(role)}, the numbered keys say {w}  [order: {case['shuffle']}]"))
        sh = proj.get("/summary/product_information/shapes")
        for i, want in shapes.items():
            got = sh["attrs"].get(i) if sh else None
            if got is None or got[0] not in ("tuple", "list") or [x[1] for x in got[1]] != list(want):
                out["bad"].append(("shape", f"shapes.{i} = {got}, expected (pixels, lines) = {want}"))
        gnames = list(tree["imagery"].children)
        if gnames != [im["group"] for im in b.images]:
            out["bad"].append(("imagery-order", f"/imagery children {gnames}, summary numbering gives {[im['group'] for im in b.images]}"))
    finally:
        imgrun.drop_from_fs(url, case["fs"])
    return out


def locale_case(case):
    """a well-formed summary with non-ASCII free text (remarks in French / Japanese), opened by fresh interpreters whose preferred locale encoding
    is UTF-8 and plain C (ASCII): the file is UTF-8 whatever the reader's locale is -- same tree"""
    import subprocess
    import sys
    import tempfile

    from checks import C08 as codec
    from harness import imgrun, product, project

    b = product.build_product(level=case["level"], images=(("HH", None, 2, 2),), seed=case["seed"],
                              summary_extra=['Odi_Remarks="donn\u00e9es re\u00e7ues \u2014 \u30c7\u30fc\u30bf\u53d7\u9818\u6e08\u307f"', 'Scs_Note="\u00b5s / \u03c3\u2070"'])
    if case["crlf"]:
        b.files["summary.txt"] = b.files["summary.txt"].replace(b"\n", b"\r\n")
    url = imgrun.put_on_fs(b, "local", f"c14loc_{case['seed']}")
    d = tempfile.mkdtemp(dir=checklib.worker_dir())
    out = {"case": case, "bad": []}
    fps = {}
    try:
        for loc in ("utf8", "C"):
            o = os.path.join(d, f"{loc}.json")
            env = {k: v for k, v in checklib.worker_env(os.path.join(d, "xdg")).items() if k not in ("LC_ALL", "LC_CTYPE", "LANG", "LANGUAGE", "PYTHONUTF8", "PYTHONCOERCECLOCALE", "PYTHONIOENCODING")}
            env.update(codec.LOCALES[loc])
            txt, _ = checklib.run_child([sys.executable, "-W", "ignore", "-c", codec.TRANSPORT_CHILD, "reference", url, o], env, timeout=600)
            if not os.path.exists(o):
                raise checklib.Machinery(f"locale child {loc} died: {txt[-500:]}")
            r = json.load(open(o))
            if r[0] != "ok":
                out["bad"].append((f"wellformed-rejected:locale-{loc}", f"a well-formed UTF-8 summary with non-ASCII remarks, reader's locale encoding {loc}: {r[1]}"))
            else:
                fps[loc] = r[1]
        if len(fps) == 2:
            dd = project.diff(fps["utf8"], fps["C"])
            if dd:
                out["bad"].append(("locale-dependent", f"the tree depends on the reader's locale encoding: {dd[:2]}"))
            rem = str(fps["utf8"].get("/summary/ordering_information", {}).get("attrs", {}).get("Remarks"))
            if "\u30c7" not in rem and "\\u30c7" not in rem:
                out["bad"].append(("nonascii-garbled", f"Odi_Remarks reads back as {rem[:80]!r}"))
    finally:
        imgrun.drop_from_fs(url, "local")
    return out


def body(chk):
    from checks import _layoutcommon as lc
    from harness import tlc

    gf = os.path.join(chk.scratch, "gr.json")
    r = tlc.run_ok("MC_SummaryGrammar", "MC_SummaryGrammar", workers=16, env={"GRAMMAR_FILE": gf}, coverage=True, timeout=1200)
    chk.tlc_stats(r)
    for v in r.violated:
        chk.violation(f"model:{v}", f"TLC: {v} violated in SummaryGrammar", {"tlc": r.out[-2000:]})
    idf = os.path.join(chk.scratch, "ids.json")
    ri = tlc.run_ok("MC_Ident", "MC_Ident", workers=16, env={"IDS_FILE": idf})
    chk.tlc_stats(ri)
    tables = json.load(open(gf))
    ids = json.load(open(idf))
    ids["products"] = [p for p in ids["products"] if p["valid"]][::37]
    cases = []
    n_ok = 150 if chk.tier == "quick" else 1500
    n_bad = 250 if chk.tier == "quick" else 3000
    for i in range(n_ok):
        cases.append(dict(seed=chk.seed + i, n_img=i % 9,  # 0 images = the minimal listing: volume directory, leader, trailer
                           shuffle=("none", "sections", "full")[i % 3], crlf=bool(i % 2), n_bad=0, kinds=[], fs=("local", "vtrace")[i % 2],
                          tables=tables, ids=ids))
    kinds = tables["corruptions"]
    for i in range(n_bad):
        cases.append(dict(seed=chk.seed + 5000 + i, n_img=1 + i % 3, shuffle=("none", "full")[i % 2], crlf=bool(i % 3 == 0), n_bad=1 + (i % 5 if i % 7 else 12),
                          kinds=kinds if i % 2 else [kinds[i % len(kinds)]], fs="local", tables=tables, ids=ids))
    for i, nb in enumerate((99, 100, 101, 150, 230, 0)):
        cases.append(dict(seed=chk.seed + 9000 + i, n_img=1 + i % 2, shuffle=("none", "full")[i % 2], crlf=bool(i % 2), n_bad=nb, kinds=kinds if nb else [], fs="local",
                          tables=tables, ids=ids, long=200))
    lc.prepare_layouts([dict(level=lv, images=[("HH", None, 2 + i % 3, 1 + i % 2) for i in range(n)]) for lv in ("1.1", "1.5", "3.1") for n in range(0, 9)])
    results = checklib.pmap(run_case, cases, chk.scratch, chunksize=8)
    for res in results:
        c = res["case"]
        chk.count(res["n"], f"{c['seed']}")
        seen = set()
        for key, msg in res["bad"]:
            if key in seen:
                continue
            seen.add(key)
            chk.violation(f"summary:{key}" + (f":{c['shuffle']}" if key.startswith(("file-role", "imagery-order")) else ""), msg, {"case": c, "first_lines": res["text"]})
    for res in checklib.pmap(locale_case, [dict(level=("1.5", "1.1")[i % 2], crlf=bool(i % 2), seed=chk.seed + 9500 + i) for i in range(2)], chk.scratch):
        chk.count(2, f"locale:{res['case']['level']}")
        for key, msg in res["bad"]:
            chk.violation(f"summary:{key}", msg, {"case": res["case"]})
    chk.traces(len(results))
    chk.sample({"first_lines": results[0]["text"], "order": results[0]["case"]["shuffle"], "crlf": results[0]["case"]["crlf"]})
    chk.sample({"corrupted": results[n_ok]["case"]["n_bad"], "kinds": results[n_ok]["case"]["kinds"][:3], "first_lines": results[n_ok]["text"]})
    chk.assumptions += ["line numbers in error messages are 0-based ('line 00'), as the pinned suite fixes them", "keys are unique within a section",
                        "file roles follow the number in the ...ProductFileNameNN keys"]
    from harness import sessioncheck

    sessioncheck.standard(chk)
    chk.finish(rule="well-formed texts: 30+ entries incl. values with blanks, '=', quotes, non-ASCII, empty values; 3..10 product files; 1..8 shape indices; "
                    "three ordering modes; LF/CRLF; malformed texts: 1..12 lines corrupted with the 11 corruption kinds of the grammar; evaluations = lines; "
                    "distinct = texts", exhaustive=False, extra={"wellformed_texts": n_ok, "corrupted_texts": n_bad})


if __name__ == "__main__":
    checklib.main(body, "C14")
