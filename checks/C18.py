"""C18 -- fail-stop: truncated or missing files raise, never yield a wrong tree.

spec    OpenCall.tla (MC_OpenCall): FailStopFiles, MissingIsOSError, NoTrailerAccess, Terminates over every single missing
        file and every leader / volume-directory truncation at record boundaries +-1; ImageIO.tla: FailStop over every
        truncation point of the image file (record boundaries, +-1, prefix ends, 0/719/720) x rpc.
bind    every fault TLC enumerated is applied to a real synthesised product (really truncated / deleted local files AND
        short reads / missing keys on vtrace://) and open_alos2 is called with default options and with explicit rpc
        below / at / above the line count: the outcome class must be the spec's (exception; OSError family for a missing
        file; a tree only when nothing the reader uses is damaged) and any returned tree must load every declared line;
        image-truncation traces are validated by TLC (clause failstop-truncated-accepted)."""
import json
import os

from harness import checklib


def body(chk):
    from harness import imgrun, iotrace, tlc
    from harness import layout as L

    ff = os.path.join(chk.scratch, "faults.json")
    r1 = tlc.run_ok("MC_OpenCall", "MC_OpenCall", workers=8, env={"FAULTS_FILE": ff}, coverage=True)
    chk.tlc_stats(r1)
    gf = os.path.join(chk.scratch, "geoms.json")
    cfg = "MC_ImageIO_quick" if chk.tier == "quick" else "MC_ImageIO_thorough"
    r2 = tlc.run_ok("MC_ImageIO", cfg, workers=16, env={"GEOMS_FILE": gf}, timeout=3000)
    chk.tlc_stats(r2)
    # the store's way of reporting a missing file is part of the model (directories, no-list-permission stores, archives): without the
    # translation of an archive's KeyError for image files (the code before fix 7ac6177) TLC must find the counterexample
    if "MissingIsOSError" not in tlc.run("MC_OpenCall", "MC_OpenCall_bug16", workers=4).violated:
        raise checklib.Machinery("non-vacuity: OpenCall without the image KeyError translation must violate MissingIsOSError on mapping-like stores")
    for r in (r1, r2):
        for v in r.violated:
            chk.violation(f"model:{v}", f"TLC: {v} violated", {"tlc": r.out[-3000:]})
    cases = []
    # ---- file-level faults (OpenCall)
    for pi, pc in enumerate(json.load(open(ff))):
        prod = pc["prod"]
        level = "1.5" if prod["nmap"] == 1 else "1.1"
        images = [(im["pol"], im["scan"] or None, 4, 3) for im in prod["imgs"]]
        for fi, ft in enumerate(pc["faults"]):
            if ft["kind"] == "truncated" and ft["cut"] < 0:
                continue  # image truncation: byte grain below
            if ft["kind"] == "none":
                expect = "tree"
            elif ft["file"] == "trl":
                expect = "tree"
            elif ft["kind"] == "missing":
                expect = "OSError"
            else:
                expect = "error"
            if chk.tier == "quick" and ft["kind"] == "truncated" and fi % 2 and ft["cut"] not in (0, 1):
                continue
            for rpc in ((None, 2) if chk.tier == "quick" else (None, 2, 4, 5)):
                cases.append(dict(level=level, images=images, rpc=rpc, seed=chk.seed + pi, fss=["local", "vtrace"] if fi % 3 == 0 or chk.tier == "thorough" else ["local"],
                                  sels=[("all",)], faults=[ft] if ft["kind"] != "none" else [], expect=expect, origin="file-fault", special=False))
    # ---- a NON-FIRST image of a multi-image product (same layout as its siblings: dual / quad polarisation) cut short; and SEVERAL files
    #      missing at once (only the small files have arrived so far): each still raises, a missing file as an OSError
    rec = 192 + 3 * 2
    for level, pols in (("1.5", [("HH", None), ("HV", None)]), ("1.5", [("HH", None), ("HV", None), ("VH", None), ("VV", None)]), ("1.1", [("HH", "F1"), ("HH", "F2"), ("HV", "F1")])):
        images = [(pol, sc, 6, 3) for pol, sc in pols]
        reclen = (192 if level == "1.5" else 544) + 3 * (2 if level == "1.5" else 8)
        for idx in range(1, len(images)):
            for cut in (720 + reclen, 720 + reclen + 7, 720 + 3 * reclen, 720 + 5 * reclen, 720 + 6 * reclen - 1):
                for rpc in ((None, 4) if chk.tier == "quick" else (None, 1, 4, 6, 7)):
                    cases.append(dict(level=level, images=images, rpc=rpc, seed=chk.seed + 600 + idx, fss=["local"] if cut % 2 else ["vtrace"], sels=[("all",)],
                                      faults=[dict(file=f"img{idx + 1}", kind="truncated", cut=cut)], expect="error", origin="sibling-image-cut", special=False, common_descriptor=True))
        for a in range(len(images)):
            for b_ in range(a + 1, len(images)):
                cases.append(dict(level=level, images=images, rpc=None, seed=chk.seed + 650, fss=["local", "vtrace"], sels=[("all",)],
                                  faults=[dict(file=f"img{a + 1}", kind="missing", cut=0), dict(file=f"img{b_ + 1}", kind="missing", cut=0)], expect="OSError",
                                  origin="two-images-missing", special=False))
        cases.append(dict(level=level, images=images, rpc=None, seed=chk.seed + 651, fss=["local"], sels=[("all",)],
                          faults=[dict(file="led", kind="missing", cut=0), dict(file="img1", kind="missing", cut=0)], expect="OSError", origin="leader-and-image-missing", special=False))
    # ---- the same faults on products inside ARCHIVES (zip://prod::file.zip, tar://prod::file.tar: a missing member is reported by these
    #      file systems the way a mapping reports a missing key) and below directory names with '%' (format / URL-quoting characters)
    for level, pols in (("1.5", [("HH", None), ("HV", None)]), ("1.1", [("HH", "F1"), ("HH", "F2")])):
        images = [(pol, sc, 4, 3) for pol, sc in pols]
        reclen = (192 if level == "1.5" else 544) + 3 * (2 if level == "1.5" else 8)
        for fsn in ("zip", "tar", "local%"):
            cases.append(dict(level=level, images=images, rpc=2, seed=chk.seed + 660, fss=[fsn], sels=[("all",)], faults=[], expect="tree", origin=f"{fsn}:intact", special=False))
            for f in ("summary", "vol", "led", "img1", "img2"):
                cases.append(dict(level=level, images=images, rpc=None, seed=chk.seed + 661, fss=[fsn], sels=[("all",)], faults=[dict(file=f, kind="missing", cut=0)],
                                  expect="OSError", origin=f"{fsn}:missing", special=False))
            for f, cut in (("img2", 720 + 2 * reclen), ("img1", 720 + reclen + 5), ("led", 4000), ("vol", 400)):
                cases.append(dict(level=level, images=images, rpc=2, seed=chk.seed + 662, fss=[fsn], sels=[("all",)], faults=[dict(file=f, kind="truncated", cut=cut)],
                                  expect="error", origin=f"{fsn}:truncated", special=False))
    # ---- wide records (more than 8 KiB each): cuts inside the LAST record, behind its first 8 KiB and just before its end; and a file whose
    #      one request covers more than 16 MiB, cut anywhere (the outcome must arrive promptly: 90 s watchdog)
    wide_n, wide_p = 6, 5000
    wrec = 192 + 2 * wide_p
    for j, cut in enumerate((720 + 5 * wrec + 8192, 720 + 5 * wrec + 8193, 720 + 5 * wrec + 9000, 720 + 6 * wrec - 1, 720 + 5 * wrec + 100, 720 + 3 * wrec + 8500, 720 + 6 * wrec - 2000)):
        for rpc in (None, 4):
            cases.append(dict(level="1.5", big=True, images=[("HH", None, wide_n, wide_p)], rpc=rpc, seed=chk.seed + 670 + j, fss=[("vtrace", "local")[j % 2]], sels=[("all",)],
                              faults=[dict(file="img1", kind="truncated", cut=cut)], expect="error", origin="wide-record-cut", special=False, time_limit=90))
    huge_n, huge_p = 20, 494904
    hrec = 192 + 2 * huge_p
    for j, cut in enumerate((720 + 19 * hrec + 5000, 720 + 10 * hrec, 720 + 20 * hrec - 1, 17 * 2**20 + 3)):
        cases.append(dict(level="1.5", big=True, images=[("HH", None, huge_n, huge_p)], rpc=None, seed=chk.seed + 680 + j, fss=["vtrace"], sels=[("int", 0)],
                          faults=[dict(file="img1", kind="truncated", cut=cut)], expect="error", origin="huge-request-cut", special=False, time_limit=90))
    # ---- image truncation at every cut of the TLC family x rpc below / at / above n
    fam = json.load(open(gf))
    for i, f in enumerate(fam):
        q = f["geom"]
        if q["rpc"] not in (1, q["n"] - 1, q["n"], q["n"] + 1) and chk.tier == "quick":
            continue
        if chk.tier == "quick" and (q["p"] != 2):
            continue
        kind = "signal" if q["prefix"] == 544 else "processed"
        sample = "C*8" if q["bps"] == 8 else "IU2"
        for cut in f["cuts"]:
            cases.append(dict(kind=kind, sample=sample, images=[("HH", None, q["n"], q["p"])], rpc=q["rpc"], seed=chk.seed + i,
                              fss=["vtrace"] if (cut + i) % 4 else ["vtrace", "local"], sels=[("all",)], cut=(0, cut), expect="error",
                              origin="image-cut", special=False))
    if chk.tier == "thorough":
        # every byte length of two small images
        for kind, sample, n, p in (("processed", "IU2", 3, 2), ("signal", "C*8", 2, 1)):
            full = 720 + n * ((192 if kind == "processed" else 544) + p * (2 if sample == "IU2" else 8))
            for cut in range(0, full):
                for rpc in (1, n, n + 1):
                    cases.append(dict(kind=kind, sample=sample, images=[("HV", None, n, p)], rpc=rpc, seed=chk.seed + 77, fss=["vtrace"],
                                      sels=[("all",)], cut=(0, cut), expect="error", origin="image-every-byte", special=False))
    L.tables()
    want = [dict(L.SMALL_LEADER), dict(L.SMALL_LEADER, nmap=0), dict(file="trailer", nlow=0, lens=[])] + [dict(file="volume", nfp=k) for k in (3, 4, 5)]
    seen = set()
    for c in cases:
        for (_, _, n, p) in c["images"]:
            smp = c.get("sample") or ("C*8" if c.get("level") == "1.1" else "IU2")
            knd = c.get("kind") or ("signal" if c.get("level") == "1.1" else "processed")
            bps = 8 if smp == "C*8" else 2
            k = (knd, n, p * bps, bps)
            if k not in seen:
                seen.add(k)
                want.append(dict(file="image", kind=knd, n=n, ndata=p * bps, bps=bps))
    want.append(dict(file="image", kind="processed", n=1, ndata=2, bps=2))
    L.instances(want)
    results = checklib.pmap(imgrun.exercise, cases, chk.scratch, chunksize=8)
    batch = iotrace.TraceBatch(os.path.join(chk.scratch, "c18.ndjson"))
    tid_case = {}
    slow = 0
    for res in results:
        c = res["case"]
        ft = (c.get("faults") or [None])[0]
        what = f"{ft['file']}:{ft['kind']}:{ft['cut']}" if ft else (f"img-cut:{c['cut'][1]}" if c.get("cut") else "none")
        shape = [i[2:] for i in c["images"]]
        for run in res["runs"]:
            key = f"{c['origin']}:{c.get('level') or c.get('kind')}:{shape}:{what}:rpc={c.get('rpc')}"
            chk.count(1, key + ":" + run["fs"])
            if run["open_s"] > 120:
                slow += 1
                chk.violation(f"slow:{key}", f"open took {run['open_s']} s on {run['fs']}", {"case": c})
            if run["open"] == "error:TookTooLong":
                chk.violation(f"not-prompt:{key}", f"{run['fs']}: open_alos2 neither raised nor returned within {c.get('time_limit', 600)} s ({what})", {"case": c})
                continue
            got = "tree" if run["open"] == "ok" else ("OSError" if run.get("oserror") else "error")
            if c["expect"] == "tree":
                if got != "tree":
                    chk.violation(f"undamaged-rejected:{key}", f"{run['fs']}: nothing the reader uses is damaged, yet {run['open']}: {run.get('open_msg')}", {"case": c})
                continue
            if got == "tree":
                # returned although damaged: every image must still load all declared lines (only if nothing was lost)
                lost = [im["group"] for im in run["images"] if any(ld["outcome"] != "equal" for ld in im["loads"]) or "shape" not in im]
                chk.violation(f"damaged-accepted:{key}", f"{run['fs']}: open_alos2 returned a tree for a damaged product "
                              f"({what}); images with unreadable lines: {lost}", {"case": c, "fs": run["fs"]})
            elif c["expect"] == "OSError" and got != "OSError":
                chk.violation(f"missing-not-oserror:{key}", f"{run['fs']}: missing file reported as {run['open']} ({run.get('open_msg')})", {"case": c})
        if c["origin"].startswith("image"):
            for tid in imgrun.add_traces(batch, res, expect_open="any"):
                tid_case[tid] = c
    verdicts, tr = batch.validate()
    chk.tlc_stats(tr)
    chk.traces(len(verdicts))
    for tid, v in verdicts.items():
        if v["status"] == "rejected" and v["clause"].startswith("failstop"):
            c = tid_case[tid]
            chk.violation(f"trace-failstop:{c['images'][0][2:]}:cut={c['cut'][1]}:rpc={c['rpc']}", f"trace rejected: {v['clause']}",
                          {"case": c, "trace": batch.lines[tid]})
    for res in results[:1] + results[len(results) // 2: len(results) // 2 + 1] + results[-1:]:
        c = res["case"]
        chk.sample({"product": c.get("level") or c.get("kind"), "images": [i[2:] for i in c["images"]], "fault": c.get("faults") or c.get("cut"),
                    "rpc": c.get("rpc"), "expected": c["expect"], "observed": [(r["fs"], r["open"]) for r in res["runs"]]})
    # negative control: a trace whose truncated open claims ok must be rejected
    t0 = next(t for t in batch.lines if batch.lines[t][0]["flen"] < 720 + batch.lines[t][0]["n"] * (batch.lines[t][0]["prefix"] + batch.lines[t][0]["p"] * batch.lines[t][0]["bps"]))
    neg = iotrace.TraceBatch(os.path.join(chk.scratch, "neg.ndjson"))
    t = neg.start({k: batch.lines[t0][0][k] for k in ("n", "p", "prefix", "bps", "rpc", "flen")})
    for ev in batch.lines[t0][1:]:
        ev = dict(ev)
        if ev["e"] == "opened":
            ev["outcome"] = "ok"
            ev["shape"] = [batch.lines[t0][0]["n"], batch.lines[t0][0]["p"]]
        neg._w(t, ev)
    nv, _ = neg.validate()
    if nv[1]["status"] != "rejected" or not nv[1]["clause"].startswith("failstop"):
        raise checklib.Machinery(f"negative control (truncated open reported ok) not rejected: {nv[1]}")
    chk.assumptions += ["scope = the property's quantifier: no pre-existing cache (use_cache=False and a fresh cache dir)",
                        "leader / volume truncations: every record boundary and +-1 (byte grain for images in the thorough tier)"]
    from harness import sessioncheck

    sessioncheck.standard(chk)
    chk.finish(
        rule="faults = every single missing file + leader/volume truncation at record boundaries +-1 (OpenCall family) + image "
             "truncation at every cut of the ImageIO family, crossed with default / below / at / above-n rpc, on really "
             "damaged local files and on vtrace short reads; distinct = (product, fault, rpc, filesystem)",
        exhaustive=False, extra={"slow_opens": slow, "controls_rejected": 1},
    )


if __name__ == "__main__":
    checklib.main(body, "C18", level="model_checking")
