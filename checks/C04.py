"""C04 -- SAR leader metadata equals the field values stored in the leader file.

spec    Layout.tla (leader records: offsets, widths, kinds, scale factors, units), OutMap.tla (name, dimension, group path
        of every exposed field), FileFormat.tla (placement); Fields.tla walks every record leaf by leaf and TLC checks
        Contiguous / EndsAtLength / KindWidth / Classified / UnitsAreOnVariables.
bind    value plans rotate token classes (typical, 0, 1, max, negative, left-justified, leading +, zero-padded, E/e
        exponents up to 1e+-300, subnormal, -0.0) over ALL ~900 leader fields at once; variants: 1 / 2 / 136 attitude
        points, 1 / 8 / 16 channels, map projection absent / present with each designator (UTM, UPS, LCC, MER), every
        enumerated code; each product is opened with open_alos2 and every leaf under /metadata is compared (value within
        4 ulp of the exactly scaled rational, unit, name, dims, group path)."""
from checks import _layoutcommon as lc
from harness import checklib


def attitude_year(case):
    """the attitude points count from 1 January of the year of the FIRST STATE VECTOR (documented conversion): leaders whose scene centre
    lies in another year than the first state vector (orbit data starting minutes before a scene on 1 January, or ending after one on 31
    December).  The day convention itself belongs to C17 (its known finding is an offset of exactly one day): here only the YEAR is judged."""
    import datetime as dt

    import numpy as np

    import ceos_alos2

    from harness import imgrun, product

    y, mo, d = case["first"]
    ctx = dict(pp_date=f"{y:4d}{mo:4d}{d:4d}", pp_doy=(dt.date(y, mo, d) - dt.date(y, 1, 1)).days + 1, pp_sod=case["sod"], scene_center_time=case["centre"],
               att_doy=case["att_doy"], att_ms=case["att_ms"])
    b = product.build_product(level=case["level"], images=(("HH", None, 2, 2),), seed=case["seed"], ctx=ctx, leader=dict(np=3))
    url = imgrun.put_on_fs(b, "local", f"c04y_{case['seed']}")
    out = {"case": case, "bad": []}
    try:
        tree = ceos_alos2.open_alos2(url, backend_options=dict(use_cache=False))
        for g in ("attitude", "rates"):
            t = np.asarray(tree[f"metadata/attitude/{g}"]["time"].values).astype("datetime64[ms]")
            want = np.datetime64(f"{y:04d}-01-01", "ms") + np.timedelta64(case["att_doy"] - 1, "D") + np.timedelta64(case["att_ms"], "ms")
            for v in t:
                if v not in (want, want + np.timedelta64(1, "D")):
                    out["bad"].append((f"attitude-year:{g}", f"/metadata/attitude/{g}/time = {v}: day {case['att_doy']} of the year of the first state vector ({y}) is {want} "
                                       f"(first point {case['first']} {case['sod']} s, scene centre {case['centre']})"))
                    break
    except BaseException as e:  # noqa: B902
        out["bad"].append(("attitude-year:open", f"{type(e).__name__}: {str(e)[:150]}"))
    finally:
        imgrun.drop_from_fs(url, "local")
    return out


def body(chk):
    from harness import plans

    lc.run_tables_model(chk)
    cases = []
    K = len(plans.CLASSES)
    variants = [dict(), dict(leader=dict(np=1, nch=1)), dict(leader=dict(np=136, nch=16)), dict(leader=dict(np=2, nch=8)),
                dict(ctx=dict(designator="UPS-PROJECTION")), dict(ctx=dict(designator="LCC-PROJECTION")),
                dict(ctx=dict(designator="MER-PROJECTION")), dict(level="1.1"), dict(level="3.1"),
                # designators outside the four flavours the reader knows: the record is exposed without a projection-specific block
                dict(ctx=dict(designator="PS-PROJECTION")), dict(ctx=dict(designator="EQR-PROJECTION")),
                # record lengths other than the nominal ones (positions follow the DECLARED lengths): attitude records of 8192 / 32768 bytes and exactly
                # as long as their points need, facility records of other sizes
                dict(leader=dict(np=3, attlen=8192)), dict(leader=dict(np=5, attlen=32768)), dict(leader=dict(np=20, attlen=16 + 120 * 20)),
                dict(leader=dict(np=136, attlen=16 + 120 * 136, nch=3)), dict(leader=dict(np=4, nch=3, f1=1000, f2=66, f3=5000, f4=90000))]
    for k in range(K):
        for vi, v in enumerate(variants):
            if chk.tier == "quick" and (k + vi) % 3 and vi not in (0,):
                continue
            cases.append(dict(level=v.get("level", "1.5"), seed=chk.seed + 17 * vi, k=k, leader=v.get("leader"), ctx=v.get("ctx"),
                              files=("LED",), images=(("HH", None, 2, 2),), fs="local" if k % 2 else "vtrace", variant=vi))
    n_rand = 30 if chk.tier == "quick" else 1500
    for j in range(n_rand):
        v = variants[j % len(variants)]
        cases.append(dict(level=v.get("level", "1.5"), seed=chk.seed + 1000 + j, k=j, random_classes=True, leader=v.get("leader"),
                          ctx=v.get("ctx"), files=("LED",), images=(("HV", None, 1, 1),), fs="local", variant=f"r{j % len(variants)}"))
    # declared-but-informational numbers (FileFormat!Informational: the state-vector count, record sequence numbers) take other
    # valid values: positions are fixed by the record lengths, so every leaf must read back unchanged
    for a in range(3):
        for vi in (0, 2, 7):
            v = variants[vi]
            cases.append(dict(level=v.get("level", "1.5"), seed=chk.seed + 300 + a, k=a, leader=v.get("leader"), ctx=v.get("ctx"), files=("LED",),
                              images=(("HH", None, 2, 2),), fs="local", variant=f"informational{a}/{vi}", informational=a))
    # platform-position first point: date written as three blank-padded / zero-padded / left-justified I4 integers, seconds of day
    # with a fractional part in F and E notation
    for j, (dtxt, sod) in enumerate([("2016   1  21", "45000.500000000000000"), ("2016  01  21", "4.500050000000000E+04"), ("2019  12   1", "86399.999999000000000"),
                                     ("2020   2  29", "0.000001000000000E+00"), ("2024  11   9", "3599.123456000000000"), ("2016  1   19  ", "1.5")]):
        cases.append(dict(level="1.5", seed=chk.seed + 400 + j, k=j, ctx=dict(pp_date=dtxt.strip() if len(dtxt) > 12 else dtxt, pp_sod=sod), files=("LED",),
                          images=(("HH", None, 2, 2),), fs="local", variant=f"first-point{j}"))
    results, total = lc.replay(chk, cases, "leader", lambda c: f"plan={c['k']}{'r' if c.get('random_classes') else ''}:variant={c['variant']}")
    ok = next(r for r in results if r["open"] == "ok")
    chk.sample({"plan": ok["case"]["k"], "variant": ok["case"]["variant"], "leader_fields_compared": ok["n"], "mismatches": ok["bad"][:2]})
    chk.assumptions += ["Layout.tla / OutMap.tla are frozen transcriptions (change detectors anchored on the CEOS record sizes); "
                        "Python's float()/int() text parsing is trusted for the digits themselves",
                        "a scaled field may equal the exactly scaled rational (4 ulp) or the double product/quotient with the factor"]
    ycases = []
    for j, (first, sod, centre, adoy, ams) in enumerate([
            ((2015, 12, 31), "85920.000000000000000", "20160101000300000", 365, 85980000),   # orbit data start 8 min before a scene on 1 January
            ((2016, 12, 31), "86340.000000000000000", "20170101000030500", 366, 86399000),   # ... leap year
            ((2019, 1, 1), "60.000000000000000", "20181231235950000", 1, 120000),             # scene centre still in the old year
            ((2020, 6, 15), "43200.000000000000000", "20200615120700000", 167, 43260000)]):   # control: one year
        for level in ("1.5", "1.1"):
            ycases.append(dict(first=first, sod=sod, centre=centre, att_doy=adoy, att_ms=ams, level=level, seed=chk.seed + 700 + j))
    lc.prepare_layouts([dict(level=lv, images=(("HH", None, 2, 2),), leader=dict(np=3)) for lv in ("1.5", "1.1")])
    for res in checklib.pmap(attitude_year, ycases, chk.scratch):
        chk.count(2, f"attitude-year:{res['case']['first']}:{res['case']['level']}")
        for key, msg in res["bad"][:1]:
            chk.violation(f"leader:{key}", msg, {"case": res["case"]})
    from harness import sessioncheck

    sessioncheck.standard(chk)
    from harness import envrun

    envrun.run(chk, {"leader", "spurious_error"})
    chk.finish(
        rule="a case = one product whose ~900 leader fields all hold tokens of rotating classes; 12 rotation plans make every "
             "field meet every class; x record variants; + seeded random class assignments; evaluations = leaves compared; "
             "distinct = distinct (plan, variant)", exhaustive=False, extra={"leaves_compared": total})


if __name__ == "__main__":
    checklib.main(body, "C04")
