"""C04 -- SAR leader metadata equals the field values stored in the leader file.

spec    Layout.tla (leader records: offsets, widths, kinds, scale factors, units), OutMap.tla (name, dimension, group path
        of every exposed field), FileFormat.tla (placement); Fields.tla walks every record leaf by leaf and TLC checks
        Contiguous / EndsAtLength / KindWidth / Classified / UnitsAreOnVariables.
bind    value plans rotate token classes (typical, 0, 1, max, negative, left-justified, leading +, zero-padded, E/e
        exponents up to 1e+-300, subnormal, -0.0) over ALL ~900 leader fields at once; variants: 1 / 2 / 136 attitude
        points, 1 / 8 / 16 channels, map projection absent / present with each designator (UTM, UPS, LCC, MER), every
        enumerated code; each product is opened with open_alos2 and every leaf under /metadata is compared (value within
        4 ulp of the exactly scaled rational, unit, name, dims, group path)."""
from checks import _layoutcommon as lc
from harness import checklib


def body(chk):
    from harness import plans

    lc.run_tables_model(chk)
    cases = []
    K = len(plans.CLASSES)
    variants = [dict(), dict(leader=dict(np=1, nch=1)), dict(leader=dict(np=136, nch=16)), dict(leader=dict(np=2, nch=8)),
                dict(ctx=dict(designator="UPS-PROJECTION")), dict(ctx=dict(designator="LCC-PROJECTION")),
                dict(ctx=dict(designator="MER-PROJECTION")), dict(level="1.1"), dict(level="3.1"),
                # record lengths other than the nominal ones (positions follow the DECLARED lengths): attitude records of 8192 / 32768 bytes and exactly
                # as long as their points need, facility records of other sizes
                dict(leader=dict(np=3, attlen=8192)), dict(leader=dict(np=5, attlen=32768)), dict(leader=dict(np=20, attlen=16 + 120 * 20)),
                dict(leader=dict(np=136, attlen=16 + 120 * 136, nch=3)), dict(leader=dict(np=4, nch=3, f1=1000, f2=66, f3=5000, f4=90000))]
    for k in range(K):
        for vi, v in enumerate(variants):
            if chk.tier == "quick" and (k + vi) % 3 and vi not in (0,):
                continue
            cases.append(dict(level=v.get("level", "1.5"), seed=chk.seed + 17 * vi, k=k, leader=v.get("leader"), ctx=v.get("ctx"),
                              files=("LED",), images=(("HH", None, 2, 2),), fs="local" if k % 2 else "vtrace", variant=vi))
    n_rand = 30 if chk.tier == "quick" else 1500
    for j in range(n_rand):
        v = variants[j % len(variants)]
        cases.append(dict(level=v.get("level", "1.5"), seed=chk.seed + 1000 + j, k=j, random_classes=True, leader=v.get("leader"),
                          ctx=v.get("ctx"), files=("LED",), images=(("HV", None, 1, 1),), fs="local", variant=f"r{j % len(variants)}"))
    # declared-but-informational numbers (FileFormat!Informational: the state-vector count, record sequence numbers) take other
    # valid values: positions are fixed by the record lengths, so every leaf must read back unchanged
    for a in range(3):
        for vi in (0, 2, 7):
            v = variants[vi]
            cases.append(dict(level=v.get("level", "1.5"), seed=chk.seed + 300 + a, k=a, leader=v.get("leader"), ctx=v.get("ctx"), files=("LED",),
                              images=(("HH", None, 2, 2),), fs="local", variant=f"informational{a}/{vi}", informational=a))
    # platform-position first point: date written as three blank-padded / zero-padded / left-justified I4 integers, seconds of day
    # with a fractional part in F and E notation
    for j, (dtxt, sod) in enumerate([("2016   1  21", "45000.500000000000000"), ("2016  01  21", "4.500050000000000E+04"), ("2019  12   1", "86399.999999000000000"),
                                     ("2020   2  29", "0.000001000000000E+00"), ("2024  11   9", "3599.123456000000000"), ("2016  1   19  ", "1.5")]):
        cases.append(dict(level="1.5", seed=chk.seed + 400 + j, k=j, ctx=dict(pp_date=dtxt.strip() if len(dtxt) > 12 else dtxt, pp_sod=sod), files=("LED",),
                          images=(("HH", None, 2, 2),), fs="local", variant=f"first-point{j}"))
    results, total = lc.replay(chk, cases, "leader", lambda c: f"plan={c['k']}{'r' if c.get('random_classes') else ''}:variant={c['variant']}")
    ok = next(r for r in results if r["open"] == "ok")
    chk.sample({"plan": ok["case"]["k"], "variant": ok["case"]["variant"], "leader_fields_compared": ok["n"], "mismatches": ok["bad"][:2]})
    chk.assumptions += ["Layout.tla / OutMap.tla are frozen transcriptions (change detectors anchored on the CEOS record sizes); "
                        "Python's float()/int() text parsing is trusted for the digits themselves",
                        "a scaled field may equal the exactly scaled rational (4 ulp) or the double product/quotient with the factor"]
    from harness import sessioncheck

    sessioncheck.standard(chk)
    from harness import envrun

    envrun.run(chk, {"leader", "spurious_error"})
    chk.finish(
        rule="a case = one product whose ~900 leader fields all hold tokens of rotating classes; 12 rotation plans make every "
             "field meet every class; x record variants; + seeded random class assignments; evaluations = leaves compared; "
             "distinct = distinct (plan, variant)", exhaustive=False, extra={"leaves_compared": total})


if __name__ == "__main__":
    checklib.main(body, "C04")
