"""C15 -- identifier decoding is total and exact over the documented code tables.

spec    Ident.tla: code tables (15 observation modes, look direction, 4 levels, processing options, map projections U/P/M/L/_,
        orbit direction, polarisations, scan B/F x 0-9) and the identifier grammar as string composition; near-misses are
        generated structurally (one slot holding an out-of-table code); TLC enumerates the whole cross product (3600 product ids
        + near-misses), checks TenCharacters, DecodingTotal, NearMissInvalid, GroupNameInjective and exports every point with the
        expected decoding.
bind    every product id and every near-miss is decoded by the real decoder; scene ids for EVERY date 2014-01-01..2049-12-31;
        scan suffixes; a stratified sample of composed file names (and their group names); a sample end-to-end through
        open_alos2 on products NAMED with the id (/summary/product_specification, /summary/scene_specification, /imagery child
        names); malformed strings (one slot off, wrong length, trailing garbage, impossible dates) must raise ValueError."""
import datetime as dt
import json
import os
import random

from harness import checklib


def decode_all(task):
    """worker: the fast path through the decoder functions (with a fallback note if they are not importable)"""
    out = {"bad": [], "n": 0, "skipped": None}
    try:
        from ceos_alos2 import decoders
        from ceos_alos2.sar_image import filename_to_groupname
    except Exception as e:  # the non-public fast path is gone: the end-to-end route below still runs
        out["skipped"] = f"{type(e).__name__}: {e}"
        return out

    def expect_error(fn, arg, what):
        out["n"] += 1
        for attempt in (1, 2):  # a rejection is not a one-off: the same string is refused again (a caller that retries, a second product)
            try:
                r = fn(arg)
                out["bad"].append((what + ("" if attempt == 1 else ":second-attempt"), f"{arg!r} is outside the language but "
                                   f"{'was' if attempt == 1 else 'on the second attempt was'} decoded to {str(r)[:120]}"))
                return
            except ValueError:
                pass
            except Exception as e:
                out["bad"].append((what + ":wrong-exception", f"{arg!r}: {type(e).__name__} instead of ValueError"))
                return

    for p in task["products"]:
        if p["valid"]:
            out["n"] += 1
            try:
                got = decoders.decode_product_id(p["id"])
            except Exception as e:
                out["bad"].append((f"product-id-rejected:proj={p['slots']['proj']}" if p["slots"]["proj"] in "PM" else "product-id-rejected",
                                   f"valid product id {p['id']!r} rejected: {type(e).__name__}: {e}"))
                continue
            if got != p["decoded"]:
                out["bad"].append(("product-id-misdecoded", f"{p['id']!r} -> {got}, tables say {p['decoded']}"))
        else:
            expect_error(decoders.decode_product_id, p["id"], "product-id-near-miss-accepted")
    for s in task["scenes"]:
        out["n"] += 1
        sid = s["id"]
        try:
            got = decoders.decode_scene_id(sid)
            want = {"mission_name": "ALOS2", "orbit_accumulation": s["orbit"], "scene_frame": s["frame"]}
            gd = got.get("date")
            if {k: got.get(k) for k in want} != want or (gd.year, gd.month, gd.day) != tuple(s["ymd"]):
                out["bad"].append(("scene-id-misdecoded", f"{sid!r} -> {got}, expected {want} {s['ymd']}"))
        except Exception as e:
            out["bad"].append(("scene-id-rejected", f"valid scene id {sid!r} rejected: {type(e).__name__}: {e}"))
    for sid in task["bad_scenes"]:
        kind = "trailing-garbage" if sid.startswith("ALOS2014410740-140829") and len(sid) > 21 else "malformed"
        expect_error(decoders.decode_scene_id, sid, f"scene-id-{kind}-accepted")
    for sc in task["scans"]:
        if sc["scan"]:
            out["n"] += 1
            got = decoders.decode_scan_info(sc["scan"])
            meth = dict((m[0], m[1]) for m in task["methods"])
            if got != {"processing_method": meth[sc["scan"][0]], "scan_number": sc["scan"][1]}:
                out["bad"].append(("scan-info-misdecoded", f"{sc['scan']} -> {got}"))
    for bad in ["X1", "B", "B10", "b1", "1B", "F-1", ""] + list(task.get("bad_scans", [])):
        expect_error(decoders.decode_scan_info, bad, "scan-info-near-miss-accepted")
    for fn in task["files"]:
        out["n"] += 1
        try:
            got = decoders.decode_filename(fn["name"])
            gname = filename_to_groupname(fn["name"])
        except Exception as e:
            key = f"file-name-rejected:proj={fn['proj']}" if fn["proj"] in "PM" else "file-name-rejected"
            out["bad"].append((key, f"valid file name {fn['name']!r} rejected: {type(e).__name__}: {e}"))
            continue
        want = dict(fn["decoded"])
        if fn["pol"]:
            want["polarization"] = fn["pol"]
        if fn["scan"]:
            want["scan_number"] = fn["scan"][1]
        miss = {k: (got.get(k), v) for k, v in want.items() if got.get(k) != v}
        if miss or got.get("filetype") != fn["type"]:
            out["bad"].append(("file-name-misdecoded", f"{fn['name']!r}: {miss}"))
        if fn["type"] == "IMG" and gname != fn["group"]:
            out["bad"].append(("group-name", f"{fn['name']!r}: group {gname!r}, expected {fn['group']!r}"))
    for bad in task["bad_files"]:
        expect_error(decoders.decode_filename, bad, "file-name-near-miss-accepted")
        # ... also on the way to the image group name (the name is derived from the DECODED components, not from the outer shape)
        expect_error(filename_to_groupname, bad, "group-name-from-near-miss")
    return out


def end_to_end(case):
    import ceos_alos2

    from harness import imgrun, product

    p = case["p"]
    level = p["slots"]["level"] if p["slots"]["level"] != "1.0" else "1.1"
    images = [(pol, sc or None, 2, 1) for pol, sc in case["imgs"]]
    b = product.build_product(level=level, images=images, seed=case["seed"], product_id=p["id"], scene_id=case["scene"]["id"])
    url = imgrun.put_on_fs(b, "local", f"c15_{case['seed']}")
    out = {"case": case, "bad": []}
    try:
        try:
            tree = ceos_alos2.open_alos2(url, backend_options=dict(use_cache=False))
        except Exception as e:
            key = f"open-rejected:proj={p['slots']['proj']}" if p["slots"]["proj"] in "PM" else "open-rejected"
            out["bad"].append((key, f"product named {p['id']} / {case['scene']['id']}: {type(e).__name__}: {str(e)[:150]}"))
            return out
        ps = dict(tree["summary/product_specification"].attrs)
        miss = {k: (ps.get(k), v) for k, v in p["decoded"].items() if ps.get(k) != v}
        if miss:
            out["bad"].append(("summary-product-spec", f"{p['id']}: {miss}"))
        ss = dict(tree["summary/scene_specification"].attrs)
        s = case["scene"]
        want = {"mission_name": "ALOS2", "orbit_accumulation": int(s["orbit"]), "scene_frame": int(s["frame"]), "date": "%04d-%02d-%02d" % tuple(s["ymd"])}
        miss = {k: (ss.get(k), v) for k, v in want.items() if ss.get(k) != v}
        if miss:
            out["bad"].append(("summary-scene-spec", f"{s['id']}: {miss}"))
        names = list(tree["imagery"].children)
        wantn = [product.group_name(pol, sc or None) for pol, sc in case["imgs"]]
        if names != wantn:
            out["bad"].append(("imagery-names", f"{names} != {wantn}"))
        # the name is derived from the FILE NAME on every route a tree can take: parsed while its index is written, and served from it
        t2 = ceos_alos2.open_alos2(url, backend_options=dict(use_cache=False, create_cache=True))
        t3 = ceos_alos2.open_alos2(url)
        for how, t in (("create_cache=True", t2), ("served from the index", t3)):
            got = list(t["imagery"].children) if "imagery" in t.children else None
            if got != wantn:
                out["bad"].append(("imagery-names-cached", f"{how}: {got} != {wantn}"))
    finally:
        imgrun.drop_from_fs(url, "local")
    return out


def rejected_product(case):
    """a complete product in which ONE identifier is a near-miss: the name of the k-th image file (also when the first names are valid), or
    the bytes of an id inside summary.txt (bytes that are not text at all) -- open_alos2 must refuse it with a ValueError, never decode it"""
    import ceos_alos2

    from harness import imgrun, product

    images = [(pol, sc or None, 2, 1) for pol, sc in case["imgs"]]
    b = product.build_product(level="1.5", images=images, seed=case["seed"], product_id="WBDR1.5GUD", scene_id="ALOS2014410740-140829")
    out = {"case": case, "bad": []}
    summ = b.files["summary.txt"]
    if case["what"] == "image-name":
        old = b.names["images"][case["k"]]
        new = EDITS[case["edit_name"]](old)
        if new == old or len(new) != len(old):
            raise checklib.Machinery(f"near-miss edit did nothing: {old} -> {new}")
        b.files[new] = b.files.pop(old)
        b.files["summary.txt"] = summ.replace(old.encode(), new.encode())
        what = f"image file #{case['k'] + 1} of {len(images)} named {new!r} ({case['tag']})"
    else:
        old = case["target"].encode()
        if summ.count(old) < 1:
            raise checklib.Machinery(f"{case['target']} not in the summary")
        i = summ.index(old) + case["at"]
        b.files["summary.txt"] = summ[:i] + case["insert"] + summ[i:]
        what = f"summary.txt with the bytes {case['insert']!r} inside {case['target']!r}"
    url = imgrun.put_on_fs(b, "local", f"c15r_{case['seed']}")
    try:
        for attempt in (1, 2):
            try:
                tree = ceos_alos2.open_alos2(url, backend_options=dict(use_cache=False))
                out["bad"].append(("near-miss-product-accepted", f"{what}: outside the language, but open_alos2 returned a tree (imagery {list(tree['imagery'].children)}, "
                                   f"scene {dict(tree['summary/scene_specification'].attrs)})"))
                break
            except ValueError:
                pass
            except Exception as e:
                out["bad"].append(("near-miss-product:wrong-exception", f"{what}: {type(e).__name__} instead of ValueError: {str(e)[:120]}"))
                break
    finally:
        imgrun.drop_from_fs(url, "local")
    return out


EDITS = {"level-1.6": lambda n: n.replace("1.5", "1.6"), "mode-WRD": lambda n: n.replace("WBDR", "WRDR"), "look-X": lambda n: n.replace("WBDR", "WBDX"),
         "month-13": lambda n: n.replace("-140829-", "-141329-"), "april-31": lambda n: n.replace("-140829-", "-140431-"), "projection-Q": lambda n: n.replace("GUD", "GQD"),
         "orbit-letter": lambda n: n.replace("ALOS20144", "ALOS2O144"), "lower-case": lambda n: n.replace("GUD", "GUd")}


def body(chk):
    from checks import _layoutcommon as lc
    from harness import tlc

    f = os.path.join(chk.scratch, "ids.json")
    r = tlc.run_ok("MC_Ident", "MC_Ident", workers=16, env={"IDS_FILE": f}, coverage=True)
    chk.tlc_stats(r)
    for v in r.violated:
        chk.violation(f"model:{v}", f"TLC: {v} violated in Ident", {"tlc": r.out[-2000:]})
    ids = json.load(open(f))
    rnd = random.Random(chk.seed)
    scenes = []
    d = dt.date(2014, 1, 1)
    while d <= dt.date(2049, 12, 31):
        orbit, frame = f"{rnd.randrange(100000):05d}", f"{rnd.randrange(10000):04d}"
        scenes.append({"id": f"ALOS2{orbit}{frame}-{d.year % 100:02d}{d.month:02d}{d.day:02d}", "orbit": orbit, "frame": frame, "ymd": [d.year, d.month, d.day]})
        d += dt.timedelta(days=1)
    bad_scenes = ["ALOS2014410740-140829X", "ALOS2014410740-140829-", "ALOS2014410740-1408290", "ALOS2014410740-140829 ", "ALOS2014410740-140829\n",
                  "ALOS201441074-140829", "ALOS2014410740140829", "ALOS2014410740-14082", "alos2014410740-140829", "ALOS2014410740-140230",
                  "ALOS2014410740-141329", "ALOS2014410740-140800", "XALOS2014410740-140829", "", "ALOS2014410740_140829"]
    valid = [p for p in ids["products"] if p["valid"]]
    files, bad_files = [], []
    n_files = 20000 if chk.tier == "quick" else 380000
    types = ["IMG", "LED", "VOL", "TRL"]
    for i in range(n_files):
        p = valid[i % len(valid)] if i < len(valid) * 2 else rnd.choice(valid)
        s = rnd.choice(scenes)
        t = types[0] if i % 3 else rnd.choice(types)
        sc = rnd.choice(ids["scans"])
        pol = sc["pol"] if t == "IMG" else ""
        scan = sc["scan"] if t == "IMG" else ""
        name = t + (f"-{pol}" if pol else "") + f"-{s['id']}-{p['id']}" + (f"-{scan}" if scan else "")
        dec = dict(p["decoded"])
        files.append({"name": name, "type": t, "pol": pol, "scan": scan, "proj": p["slots"]["proj"], "decoded": dec,
                      "group": (pol + (f"_scan{scan[1]}" if scan else ""))})
    base = "IMG-HH-ALOS2014410740-140829-WBDR1.5GUD"
    bad_files = [base + "X", base + "-B", base + "-B12", base[:-1], "IMG-HX-" + base[7:], "IMG-H-" + base[7:], "img-" + base[4:], base.replace("-140829-", "-14082-"),
                 base + "-F1-F2", "IMG-HH-HH-" + base[7:], base + " ", " " + base, base.replace("WBDR", "WBDX"), base.replace("1.5", "1.6"), "IMGHH-" + base[7:]]
    # one character off, where that character LOOKS right: each digit replaced by the same digit of another script (fullwidth, Arabic-Indic,
    # Devanagari), each capital by its fullwidth form or its lower case: outside the alphabet of the grammar (Ident!Alphabet = ASCII)
    def lookalikes(text):
        for i, ch in enumerate(text):
            if ch.isdigit():
                for basecp in (0xFF10, 0x0660, 0x0966):
                    yield text[:i] + chr(basecp + int(ch)) + text[i + 1:]
            elif "A" <= ch <= "Z":
                yield text[:i] + chr(0xFF21 + ord(ch) - 65) + text[i + 1:]
                yield text[:i] + ch.lower() + text[i + 1:]

    bad_scenes += list(lookalikes("ALOS2014410740-140829"))
    bad_files += list(lookalikes(base + "-F1")) + list(lookalikes("IMG-HV-ALOS2014410740-140829-UBSR2.1GUA"))
    foreign_products = [{"id": v, "valid": False} for v in list(lookalikes("WBDR1.5GUD")) + list(lookalikes("UBSR2.1GUA"))]
    foreign_scans = [v for sc_ in ("B4", "F1", "F0") for v in lookalikes(sc_)]
    parts = 16
    tasks = []
    ids["products"] = ids["products"] + foreign_products
    for k in range(parts):
        tasks.append(dict(products=ids["products"][k::parts], scenes=scenes[k::parts], bad_scenes=bad_scenes if k == 0 else [], scans=ids["scans"] if k == 0 else [],
                          methods=ids["methods"], files=files[k::parts], bad_files=bad_files[k::parts], bad_scans=foreign_scans if k == 1 else []))
    results = checklib.pmap(decode_all, tasks, chk.scratch)
    n = 0
    for res in results:
        n += res["n"]
        if res["skipped"]:
            chk.note(f"decoder fast path not importable ({res['skipped']}): only the open_alos2 route ran")
        seen = set()
        for key, msg in res["bad"]:
            if key in seen:
                continue
            seen.add(key)
            chk.violation(f"ident:{key}", msg, {"what": key})
    chk.count(n)
    # end to end through open_alos2 on products named with the ids
    e2e = []
    strat = {}
    for p in valid:
        strat.setdefault((p["slots"]["proj"], p["slots"]["level"], p["slots"]["mode"][:1]), p)
    picks = list(strat.values())
    rnd.shuffle(picks)
    for i, p in enumerate(picks[: (40 if chk.tier == "quick" else 400)]):
        imgs = [("HH", ""), ("HV", "")] if i % 3 == 0 else ([("HH", "F0"), ("HH", "F1"), ("HV", "F0")] if i % 3 == 1 else [("VV", "B9"), ("VV", "")])
        e2e.append(dict(p=p, scene=scenes[(i * 331) % len(scenes)], imgs=imgs, seed=chk.seed + i))
    lc.prepare_layouts([dict(level=lv, images=[(a, b_ or None, 2, 1) for a, b_ in c["imgs"]]) for c in e2e for lv in ("1.1", "1.5", "3.1")])
    eres = checklib.pmap(end_to_end, e2e, chk.scratch)
    for res in eres:
        chk.count(1)
        seen = set()
        for key, msg in res["bad"]:
            if key not in seen:
                seen.add(key)
                chk.violation(f"ident-e2e:{key}", msg, {"case": res["case"]})
    rej = []
    j = 0
    for tag, edit in EDITS.items():
        for imgs in ([("HH", ""), ("HV", "")], [("HH", "F1"), ("HH", "F2"), ("HV", "F1"), ("HV", "F2")]):
            for k in range(len(imgs)):
                if (j + k) % 2 and k not in (0, len(imgs) - 1):
                    continue
                rej.append(dict(what="image-name", tag=tag, edit=edit, imgs=imgs, k=k, seed=chk.seed + 700 + j))
                j += 1
    for target, at, ins in (("ALOS2014410740-140829", 16, b"\xff"), ("ALOS2014410740-140829", 5, b"\xc0\xb1"), ("WBDR1.5GUD", 9, b"\x80"), ("WBDR1.5GUD", 4, b"\xe3\x81"),
                            ("ALOS2014410740-140829", 21, b"\xfe"), ("WBDR1.5GUD", 0, b"\xef\xbb\xbf")):
        rej.append(dict(what="summary-bytes", target=target, at=at, insert=ins, imgs=[("HH", ""), ("HV", "")], seed=chk.seed + 800 + j))
        j += 1
    lc.prepare_layouts([dict(level="1.5", images=[(a, b_ or None, 2, 1) for a, b_ in imgs]) for imgs in ([("HH", ""), ("HV", "")], [("HH", "F1"), ("HH", "F2"), ("HV", "F1"), ("HV", "F2")])])
    for res in checklib.pmap(rejected_product, [{k: v for k, v in c.items() if k != "edit"} | {"edit_name": c.get("tag")} for c in rej], chk.scratch):
        chk.count(1)
        for key, msg in res["bad"][:1]:
            chk.violation(f"ident-e2e:{key}", msg, {"case": {k: str(v) for k, v in res["case"].items()}})
    chk.cov["distinct_nontrivial"] = len(ids["products"]) + len(scenes) + len(files) + len(e2e) + len(rej)
    chk.traces(len(eres))
    chk.sample({"product_id": ids["products"][5]["id"], "expected": ids["products"][5]["decoded"], "scene_id": scenes[100]["id"], "file_name": files[7]["name"]})
    chk.assumptions += ["the decoder functions are a fast path (non-public import); the same tables are confirmed end to end through open_alos2 on a stratified sample",
                        "scan suffixes B<n> and F<n> of one polarisation share the group name <pol>_scan<n> (unique per polarisation and scan NUMBER)"]
    chk.finish(rule="all 3600 product ids + structural near-misses (TLC), every date 2014-01-01..2049-12-31 as a scene id, all scan suffixes, a stratified "
                    "sample of composed file names, hand-listed malformed strings, end-to-end products for a stratified sample of ids",
               exhaustive=False, extra={"product_ids": len(ids["products"]), "scene_ids": len(scenes), "file_names": len(files), "end_to_end": len(e2e)})


if __name__ == "__main__":
    checklib.main(body, "C15")
