"""Common body of the layout-driven checks (C03, C04, C16): TLC checks the tables (Fields.tla), the harness replays value
plans through open_alos2 and compares every mapped field."""
from harness import checklib


def prepare_layouts(cases):
    from harness import layout as L

    L.tables()
    want = [dict(file="trailer", nlow=0, lens=[])]
    seen = set()
    for c in cases:
        level = c.get("level", "1.5")
        lp = dict(L.SMALL_LEADER)
        if level in ("1.1", "1.0"):
            lp["nmap"] = 0
        lp.update(c.get("leader") or {})
        images = c.get("images", (("HH", None, 3, 2),))
        nfp = c.get("nfp")
        items = [lp, dict(file="volume", nfp=(len(images) + 2) if nfp is None else nfp)]
        smp = c.get("sample") or ("C*8" if level == "1.1" else "IU2")
        knd = c.get("kind") or ("signal" if level in ("1.1", "1.0") else "processed")
        bps = 8 if smp == "C*8" else 2
        for (_, _, n, p) in images:
            items.append(dict(file="image", kind=knd, n=n, ndata=p * bps, bps=bps))
        for it in items:
            k = repr(sorted(it.items()))
            if k not in seen:
                seen.add(k)
                want.append(it)
    L.instances(want)


def run_tables_model(chk):
    from harness import tlc

    r = tlc.run_ok("Fields", "Fields", workers=8, coverage=True)
    chk.tlc_stats(r)
    for v in r.violated:
        chk.violation(f"model:{v}", f"TLC: {v} violated: the frozen tables (Layout / OutMap) are inconsistent", {"tlc": r.out[-3000:]})
    if r.coverage.get("TakeLeaf", (0, 0))[0] == 0:
        raise checklib.Machinery("vacuity: Fields!TakeLeaf never taken")
    return r


def replay(chk, cases, prop_prefix, describe):
    from harness import leafrun

    prepare_layouts(cases)
    results = checklib.pmap(leafrun.run_plan, cases, chk.scratch, chunksize=2)
    total = 0
    for res in results:
        c = res["case"]
        d = describe(c)
        chk.count(res["n"] or 1, d)
        total += res["n"]
        if res["open"] in ("fault-raised", "rejected-ok"):
            continue  # the injected transient fault was reported to the caller: permitted
        if res["open"] != "ok":
            chk.violation(f"{prop_prefix}:open-failed:{d}", f"well-formed product rejected: {res['open']}", {"case": c})
            continue
        # group the mismatches by field (not by plan) so that one defect = one key
        seen = set()
        for src, msg in res["bad"]:
            fld = src.split(":", 2)[1] + ":" + src.split(":", 2)[2].split("@")[0]
            if fld in seen:
                continue
            seen.add(fld)
            chk.violation(f"{prop_prefix}:{fld}", f"{msg}   [{d}; {res.get('n_bad')} mismatching leaves in this product]", {"case": c, "src": src})
    chk.traces(len(results))
    return results, total
