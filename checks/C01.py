"""C01 -- pixel fidelity: loaded image values are exactly the samples in the file.

spec    ImageIO.tla (MC_ImageIO): RangesExact, CellsExact, OrderKept, Total over every (n, p, prefix, bps, rpc) in the
        bound: the two-step offset arithmetic of the metadata pass, chunk spans, relocation into the chunk buffer.
bind    (a) every geometry TLC enumerated -> synthesised product -> open_alos2(...)['imagery/<name>/data'] on the local
        path, file:// URL, memory:// and the custom vtrace:// filesystem -> shape + every element bit-equal to the
        big-endian bytes the synthesiser wrote (special bit patterns included);
        (b) the I/O trace of each vtrace open+load validated by TLC against the Envelope (result clauses) and the Design;
        (c) random geometries far outside the TLC bound (N <= 300, P <= 64, rpc up to 10^6, 1xN, Nx1)."""
import json
import os
import random

from harness import checklib

C01_CLAUSES = ("result-", "declared-shape", "wellformed-rejected")
FSS = ["local", "file", "memory", "vtrace"]


def to_sel(rows):
    if not rows:
        return ("slice", 0, 0, 1)
    if len(rows) == 1:
        return ("slice", rows[0], rows[0] + 1, 1)
    return ("slice", rows[0], rows[-1] + 1, rows[1] - rows[0])


def two_archives(task):
    """two deliveries of one scene packed reproducibly (same member names, sizes and member times, other samples) as archives, opened one after
    the other in one process: each returns its OWN samples"""
    import io
    import tarfile
    import zipfile

    import ceos_alos2

    from harness import oracle, product

    base = checklib.fresh_dir("arch2_")
    built = [product.build_product(level=task["level"], images=(("HH", None, 4, 3), ("HV", None, 4, 3)), seed=task["seed"] + 31 * k) for k in range(2)]
    urls = []
    for k, b in enumerate(built):
        arc = os.path.join(base, f"delivery{k}.{task['kind']}")
        if task["kind"] == "tar":
            with tarfile.open(arc, "w") as t:
                for n in sorted(b.files):
                    ti = tarfile.TarInfo(f"prod/{n}")
                    ti.size, ti.mtime = len(b.files[n]), 1400000000
                    t.addfile(ti, io.BytesIO(bytes(b.files[n])))
        else:
            with zipfile.ZipFile(arc, "w") as z:
                for n in sorted(b.files):
                    z.writestr(zipfile.ZipInfo(f"prod/{n}", date_time=(2014, 8, 29, 3, 4, 6)), bytes(b.files[n]))
        urls.append(f"{task['kind']}://prod::{arc}")
    out = {"task": task, "bad": [], "n": 0}
    order = [0, 1, 0] if task["order"] == 0 else [1, 0, 1]
    for step, k in enumerate(order):
        try:
            tree = ceos_alos2.open_alos2(urls[k], backend_options=dict(use_cache=False, records_per_chunk=task["rpc"]))
            for im in built[k].images:
                out["n"] += 1
                msg = oracle.pixels_match(tree[f"imagery/{im['group']}/data"].values, im)
                if msg:
                    out["bad"].append((f"two-archives:{task['kind']}", f"open #{step + 1} (delivery {k} after {[f'delivery {j}' for j in order[:step]]}): {im['group']}: {msg}"))
        except BaseException as e:  # noqa: B902
            out["bad"].append((f"two-archives:{task['kind']}:raises", f"open #{step + 1} of delivery {k}: {type(e).__name__}: {str(e)[:120]}"))
    return out


def body(chk):
    from harness import imgrun, iotrace, tlc
    from harness import layout as L

    gf = os.path.join(chk.scratch, "geoms.json")
    cfg = "MC_ImageIO_quick" if chk.tier == "quick" else "MC_ImageIO_thorough"
    r = tlc.run_ok("MC_ImageIO", cfg, workers=16, env={"GEOMS_FILE": gf}, timeout=3000, coverage=True)
    chk.tlc_stats(r)
    for v in r.violated:
        chk.violation(f"model:{v}", f"TLC: {v} violated in the ImageIO model", {"tlc": r.out[-3000:]})
    for act in ("ReadMetaChunk", "LRead", "LSeek"):
        if r.coverage.get(act, (0, 0))[0] == 0:
            raise checklib.Machinery(f"vacuity: ImageIO!{act} never taken")
    fam = json.load(open(gf))
    rnd = random.Random(chk.seed)
    cases = []
    for i, f in enumerate(fam):
        q = f["geom"]
        kind = "signal" if q["prefix"] == 544 else "processed"
        sample = "C*8" if q["bps"] == 8 else "IU2"
        fss = FSS if chk.tier == "thorough" else ["vtrace", FSS[i % 3]]
        sels = [("all",)] + [to_sel(s) for s in rnd.sample(f["sels"], min(2, len(f["sels"])))]
        cases.append(dict(kind=kind, sample=sample, images=[("HH", None, q["n"], q["p"])], rpc=q["rpc"], seed=chk.seed + i,
                          fss=fss, sels=sels, origin="tlc"))
    n_rand = 48 if chk.tier == "quick" else 1500
    for j in range(n_rand):
        shape = rnd.choice(["any", "any", "1xN", "Nx1"])
        n = 1 if shape == "1xN" else rnd.randint(1, 300 if chk.tier == "thorough" else 120)
        p = 1 if shape == "Nx1" else rnd.randint(1, 64)
        rpc = rnd.choice([1, rnd.randint(1, n + 2), n, n + 1, 10**6, max(1, n // 2), max(1, n // 3 + 1)])
        kind = rnd.choice(["signal", "processed"])
        sample = rnd.choice(["C*8", "IU2"])
        a, b_ = sorted((rnd.randint(0, n), rnd.randint(0, n)))
        sels = [("all",), ("slice", a, b_, rnd.randint(1, 4)), ("slice", 0, n, max(1, rpc if rpc < n else 1))]
        cases.append(dict(kind=kind, sample=sample, images=[("HV", "F3", n, p)], rpc=rpc, seed=chk.seed + 10000 + j,
                          fss=["vtrace", rnd.choice(FSS[:3])], sels=sels, origin="random"))
    # "any positive records_per_chunk": values far above the line count (the request size must stay bounded by the file), on
    # every filesystem -- a local file is a BufferedReader that allocates what is asked for, memory files clamp
    for j, rpc in enumerate([2**31, 2**40, 10**15, 2**62, 2**63 - 1, 2**31 - 1, 2**32 + 1]):
        n, p = 3 + j % 3, 2 + j % 2
        cases.append(dict(kind=("signal", "processed")[j % 2], sample=("C*8", "IU2")[j % 2], images=[("HH", None, n, p)], rpc=rpc,
                          seed=chk.seed + 20000 + j, fss=list(FSS), sels=[("all",), ("slice", 1, n, 1)], origin="huge-rpc"))
    # a filesystem with transient faults: a read fails once (I/O error), with or without having consumed part of the request: the load
    # may raise, it must never return other bytes than the file's (ImageIOEnv: result clause under "fault")
    for j, (nth, consume) in enumerate([(1, 0.5), (2, 0.5), (2, 0.0), (3, 0.25), (1, 1.0), (4, 0.5)]):
        cases.append(dict(kind=("signal", "processed")[j % 2], sample=("C*8", "IU2")[j % 2], images=[("HH", None, 16, 3)], rpc=4, seed=chk.seed + 21000 + j,
                          fss=["vtrace"], sels=[("all",), ("slice", 8, 16, 1), ("slice", 1, 15, 3)], origin="transient-fault", flaky_load=dict(nth=nth, consume=consume)))
    # a memory-limited process: a request for a whole group of lines cannot be allocated (MemoryError) while small requests can: the load
    # may raise, it must never return other bytes than the file's
    for j, (rpc, lim) in enumerate([(8, 1000), (16, 600), (1024, 2000), (4, 500)]):
        cases.append(dict(kind=("processed", "signal")[j % 2], sample=("IU2", "C*8")[j % 2], images=[("HH", None, 16, 3)], rpc=rpc, seed=chk.seed + 22000 + j,
                          fss=["vtrace"], sels=[("slice", 2, 5, 1), ("all",), ("int", 7)], origin="memory-limited", bigread_limit=lim))
    # every cell on its own (0-d results through isel and []): each special bit pattern (signalling NaNs, -0.0, denormals, 0 / 65535) is met
    # by a single-cell access too
    for j in range(6):
        n, p = (3, 4, 6)[j % 3], (5, 3, 4)[j % 3]
        cases.append(dict(kind=("signal", "processed")[j % 2], sample=("C*8", "IU2")[j % 2], images=[("HH", None, n, p)], rpc=(1, 2, 1024)[j % 3], seed=chk.seed + 23000 + j,
                          fss=["vtrace", "local"], sels=[("cells",), ("all",)], origin="single-cells"))
    # one request group of more than 128 MiB (140 lines of 990 000 bytes with a request size above the line count) and one of 69 MB: every line,
    # the first and the last, strided -- the samples name their own cell, so a line cut out a few bytes early or late shows
    for j, (n, p, rpc) in enumerate(((140, 494904, 4096), (70, 494904, None))):
        cases.append(dict(level="1.5", big=True, images=[("HH", None, n, p)], rpc=rpc, seed=chk.seed + 24000 + j, fss=["vtrace"],
                          sels=[("all",), ("list", [0, n - 1]), ("slice", 0, n, 9), ("slice", n - 3, n, 1)], origin="huge-group", special=False))
    # one batched TLC layout export for everything the workers need
    L.tables()
    want = [dict(L.SMALL_LEADER), dict(L.SMALL_LEADER, nmap=0), dict(file="volume", nfp=3), dict(file="trailer", nlow=0, lens=[])]
    want.append(dict(file="image", kind="processed", n=1, ndata=2, bps=2))
    for c in cases:
        _, _, n, p = c["images"][0]
        if c.get("big"):
            want.append(dict(file="image", kind="processed", n=n, ndata=2 * p, bps=2))
            c.setdefault("kind", "processed"), c.setdefault("sample", "IU2")
            continue
        bps = 8 if c["sample"] == "C*8" else 2
        want.append(dict(file="image", kind=c["kind"], n=n, ndata=p * bps, bps=bps))
    L.instances(want)
    results = checklib.pmap(imgrun.exercise, cases, chk.scratch, chunksize=4)
    batch = iotrace.TraceBatch(os.path.join(chk.scratch, "c01.ndjson"))
    tid_case = {}
    for res in results:
        c = res["case"]
        _, _, n, p = c["images"][0]
        gkey = f"n={n},p={p},kind={c['kind']},sample={c['sample']},rpc={c['rpc']}"
        for run in res["runs"]:
            key = f"{gkey},fs={run['fs']}"
            chk.count(1, key)
            im = run["images"][0]
            if run["open"] != "ok":
                chk.violation(f"open-failed:{gkey}", f"well-formed image rejected on {run['fs']}: {run['open']} {run.get('open_msg')}",
                              {"case": c, "run": run["fs"]})
                continue
            want_dtype = "complex64" if c["sample"] == "C*8" else "uint16"
            if im.get("shape") != [n, p] or not str(im.get("dtype", "")).lstrip("<>=|").startswith(want_dtype[:4]) and im.get("dtype") != want_dtype:
                chk.violation(f"shape:{gkey}", f"declared shape/dtype {im.get('shape')} {im.get('dtype')} != header {[n, p]} {want_dtype}",
                              {"case": c, "run": run["fs"]})
            for ld in im["loads"]:
                if ld["outcome"] == "error" and ld.get("fault_fired"):
                    continue  # the injected fault was reported to the caller
                if ld["outcome"] != "equal":
                    special = "special-bits" if (c["sample"] == "C*8" and ld["msg"] and "bits" in ld["msg"]) else "values"
                    chk.violation(f"pixels:{special}:{c['sample']}:{gkey if special == 'values' else ''}",
                                  f"{run['fs']} sel={ld['sel']}: {ld['outcome']}: {ld['msg']}", {"case": c, "fs": run["fs"], "load": ld["sel"]})
        for tid in imgrun.add_traces(batch, res):
            tid_case[tid] = c
    if len(chk.cov["samples"]) < 3:
        for res in results[:2] + results[-1:]:
            c = res["case"]
            chk.sample({"geometry": c["images"][0][2:], "line_kind": c["kind"], "sample": c["sample"], "rpc": c["rpc"],
                        "filesystems": c["fss"], "selections": c["sels"],
                        "outcome": [ld["outcome"] for run in res["runs"] for ld in run["images"][0]["loads"]]})
    verdicts, tr = batch.validate()
    chk.tlc_stats(tr)
    chk.traces(len(verdicts))
    drift = 0
    for tid, v in verdicts.items():
        drift += 1 if v["drift"] else 0
        if v["status"] == "rejected" and v["clause"].startswith(C01_CLAUSES):
            c = tid_case[tid]
            chk.violation(f"trace:{v['clause']}:{c['images'][0][2:]}:rpc={c['rpc']}", f"trace rejected at line {v['line']}: {v['clause']}",
                          {"case": c, "trace": batch.lines[tid]})
    if drift:
        chk.note(f"DRIFT: {drift} traces contain an event the Design model does not explain (informational)")
    # binding demonstration: a corrupted recorded trace must be rejected
    neg = iotrace.TraceBatch(os.path.join(chk.scratch, "neg.ndjson"))
    some = next(t for t in batch.lines if any(e.get("e") == "loaded" for e in batch.lines[t]))
    tid = neg.start({k: batch.lines[some][0][k] for k in ("n", "p", "prefix", "bps", "rpc", "flen")})
    for ev in batch.lines[some][1:]:
        ev = dict(ev)
        if ev["e"] == "loaded":
            ev["outcome"] = "differ"
        neg._w(tid, ev)
    nv, _ = neg.validate()
    if nv[1]["status"] != "rejected":
        raise checklib.Machinery("negative control (corrupted 'loaded' event) was accepted by the trace spec")
    chk.assumptions += [
        "decode of the located bytes (big-endian float32 pairs / uint16) is compared by the harness on the real values; "
        "the spec decides WHICH bytes belong to (line, pixel)",
        "'any fsspec filesystem' = local path, file:// URL, memory://, and a from-scratch custom protocol (vtrace://)",
        "pixel patterns name their own cell; special float bit patterns (+-0, +-inf, quiet/signalling NaN payloads, "
        "denormals, max) and 0 / 65535 are planted in every image",
    ]
    # the file the pixels come from is the one that was OPENED: a product indexed next to its images (CLI), then copied elsewhere with its
    # index files while the old place receives other pixels under the same names, is read from where it lies now
    from checks import C07 as _c07

    rtasks = [dict(level=lv, fs=fs, producer="cli-adjacent-moved", rpc_w=1, rpc_r=3, seed=chk.seed + 31000 + i) for i, (lv, fs) in enumerate((("1.5", "local"), ("1.1", "file")))]
    L.instances([dict(file="volume", nfp=4), dict(file="image", kind="processed", n=4, ndata=6, bps=2), dict(file="image", kind="processed", n=3, ndata=4, bps=2),
                 dict(file="image", kind="signal", n=4, ndata=24, bps=8), dict(file="image", kind="signal", n=3, ndata=16, bps=8)])
    for res in checklib.pmap(_c07.scenario, rtasks, chk.scratch):
        chk.count(len(res["steps"]), f"relocated:{res['task']['level']}:{res['task']['fs']}")
        for what, msg in res["bad"]:
            if what.startswith("cached-open"):
                chk.violation(f"pixels:relocated-index:{res['task']['fs']}", f"product copied elsewhere together with its index files, old place overwritten: {msg}", {"task": res["task"]})
    atasks = [dict(kind=kd, level=("1.5", "1.1")[i % 2], order=i % 2, rpc=(2, 1024)[i % 2], seed=chk.seed + 26000 + i) for i, kd in enumerate(("tar", "zip", "tar", "zip"))]
    L.instances([dict(file="image", kind="processed", n=4, ndata=6, bps=2), dict(file="image", kind="signal", n=4, ndata=24, bps=8), dict(file="volume", nfp=4)])
    for res in checklib.pmap(two_archives, atasks, chk.scratch):
        chk.count(res["n"], f"two-archives:{res['task']['kind']}:{res['task']['order']}")
        for key, msg in res["bad"][:2]:
            chk.violation(f"pixels:{key}", msg, {"task": res["task"]})
    from harness import sessioncheck

    sessioncheck.standard(chk)
    from harness import tlaps

    tlaps.prove(chk)
    from harness import envrun

    envrun.run(chk, {"pixels", "load_values", "spurious_error"})
    chk.finish(
        rule="cases = every (n,p,prefix,bps,rpc) geometry of the TLC family x filesystems x selections (full image + "
             "TLC-enumerated row progressions) + seeded random geometries outside the bound; distinct = distinct "
             "(geometry, line kind, sample type, rpc, filesystem); every case loads real pixels, none is trivial",
        exhaustive=False,
        extra={"tlc_family": len(fam), "random_cases": n_rand, "controls_rejected": 1, "drift": drift},
    )


if __name__ == "__main__":
    checklib.main(body, "C01")
