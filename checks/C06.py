"""C06 -- records_per_chunk never changes what is read, only how.

spec    ImageIO.tla: RangesExact (the byte range of every line is a function of (n, p, prefix, bps) only -- the right-hand
        side does not mention rpc), EncodingChunk (advertised chunk = min(rpc, n)), CellsExact, for every rpc in the bound.
bind    the same product opened with every rpc of {1, divisors, non-divisors, n-1, n, n+1, 1024 (default), 10^6, 10^12,
        sys.maxsize}: the complete trees (structure, coords, attrs, pixel values) must be identical except for
        encoding.preferred_chunksizes, which must be {rows: min(rpc, n), columns: p}; vtrace open traces validated."""
import json
import os
import sys

from harness import checklib


def run_case(case):
    import ceos_alos2

    from harness import imgrun, product, project, tracefs

    b = product.build_product(level=case["level"], images=case["images"], seed=case["seed"])
    res = {"case": case, "fps": [], "bad": [], "events": {}}
    if case.get("trailing"):
        # bytes after the last record of an image file (tape-block padding: zeros / blanks): never part of any request's result
        for j, im in enumerate(b.images):
            b.files[im["name"]] = bytes(b.files[im["name"]]) + (b"\0" * 360, b" " * 8192, b"\0" * 7)[(j + case["trailing"]) % 3]
    url = imgrun.put_on_fs(b, case["fs"], f"c06_{case['seed']}_{case.get('trailing', 0)}")
    try:
        ref = None
        if case["fs"] == "vtrace":
            tracefs.JITTER[0] = 0.0004  # lets threads an implementation may use internally interleave on a shared handle
        import numpy as np

        # positive integers that are not builtin ints (a chunk size computed with NumPy): the same trees
        typed = [(f"{t}({r})", getattr(np, t)(r)) for t, r in case.get("typed", [])]
        for rpc in case["rpcs"] + [r for r in case["rpcs"][1:4]] + typed:
            opts = {"use_cache": False}
            if isinstance(rpc, tuple):
                rpc, opts["records_per_chunk"] = rpc[0], rpc[1]
            elif rpc is not None:
                opts["records_per_chunk"] = rpc
            asked = opts.get("records_per_chunk")   # (kept apart: an implementation may -- wrongly -- edit the caller's dict)
            tracefs.take_log()
            try:
                if rpc in case["rpcs"][1:4] and ref is not None and not case.get("_second"):
                    # the SAME option dict object handed to two consecutive opens (a session that keeps one options dict)
                    ceos_alos2.open_alos2(url, backend_options=opts)
                tree = ceos_alos2.open_alos2(url, backend_options=opts)
                # a fixed sequence of PARTIAL reads on the freshly opened tree (several requests into the same groups of lines), the
                # same for every rpc: what they return is part of "what is read", and must not depend on rpc either
                partial = {}
                for im in b.images:
                    da = tree[f"imagery/{im['group']}/data"]
                    n_ = im["n"]
                    seq = [slice(0, 2), slice(2, 4), slice(1, 2), slice(n_ // 2, n_), slice(0, 1), slice(n_ - 1, n_), slice(0, n_, 2)]
                    partial[im["group"]] = [da.isel(rows=s_).values.tobytes().hex() for s_ in seq]
                fp = project.fingerprint(tree)
                fp["partial reads"] = {"vars": {}, "attrs": {}, "order": [], "children": [], "values": partial}
            except BaseException as e:  # noqa: B902
                res["bad"].append((rpc, f"open/load failed: {type(e).__name__}: {str(e)[:150]}"))
                continue
            if case["fs"] == "vtrace":
                res["events"][str(rpc)] = tracefs.take_log()
            # the only permitted difference: advertised preferred chunk sizes of the image variables
            for im in b.images:
                node = fp[f"/imagery/{im['group']}"]["vars"]["data"]
                enc = node.pop("encoding")
                eff = 1024 if rpc is None else int(asked)
                want = {"rows": min(eff, im["n"]), "columns": im["p"]}
                got = enc.get("preferred_chunksizes")
                if got != want:
                    res["bad"].append((rpc, f"{im['group']}: preferred_chunksizes {got}, expected {want}"))
            if ref is None:
                ref = (rpc, fp)
            else:
                d = project.diff(ref[1], fp)
                if d:
                    res["bad"].append((rpc, f"tree differs from rpc={ref[0]}: {d[:3]}"))
    finally:
        tracefs.JITTER[0] = 0.0
        imgrun.drop_from_fs(url, case["fs"])
    res["images"] = [{k: im[k] for k in ("name", "group", "n", "p", "prefix", "bps")} for im in b.images]
    return res


SAME_CHILD = r"""
import json, os, sys, threading, time, signal
spec = json.load(open(sys.argv[1]))
import ceos_alos2
from harness import project, session
d, n = spec["dir"], spec["n"]
out = {"bad": [], "n": 0}
def fp_of(rpc):
    return project.fingerprint(ceos_alos2.open_alos2(d, backend_options={"use_cache": False, "records_per_chunk": rpc}))
refs = {rpc: fp_of(rpc) for rpc in spec["rpcs"]}           # opened alone, one after the other (this is also the parent's history)
def judge(tag, rpc, fp):
    out["n"] += 1
    dd = project.diff(refs[rpc], fp)
    if dd:
        out["bad"].append((tag, rpc, f"the tree differs from the one the same call returns alone: {dd[:2]}"))
if spec["mode"] == "threads":
    # several threads open the SAME product at the same time, each with its own records_per_chunk (one tree per worker)
    if spec.get("slow"):
        from harness import tracefs
        tracefs.JITTER[0] = spec["slow"]
    for rnd in range(spec["rounds"]):
        res = {}
        def one(rpc, delay):
            try:
                time.sleep(delay)
                res[rpc] = fp_of(rpc)
            except BaseException as e:
                res[rpc] = f"{type(e).__name__}: {str(e)[:160]}"
        ts = [threading.Thread(target=one, args=(rpc, 0.004 * ((i + rnd) % 3)), daemon=True) for i, rpc in enumerate(spec["rpcs"])]
        [t.start() for t in ts]; [t.join(240) for t in ts]
        for rpc in spec["rpcs"]:
            if rpc not in res:
                out["bad"].append(("threads", rpc, "open_alos2 did not return within 240 s")); out["n"] += 1
            elif isinstance(res[rpc], str):
                out["bad"].append(("threads", rpc, "raised " + res[rpc])); out["n"] += 1
            else:
                judge("threads", rpc, res[rpc])
        if out["bad"]:
            break
else:
    # worker processes forked from a parent that already opened products (multiprocessing's default start method here)
    for rpc in spec["rpcs"]:
        r, w = os.pipe()
        pid = os.fork()
        if pid == 0:
            try:
                os.close(r)
                try:
                    msg = json.dumps({"fp": fp_of(rpc)})
                except BaseException as e:
                    msg = json.dumps({"err": f"{type(e).__name__}: {str(e)[:160]}"})
                with os.fdopen(w, "w") as f:
                    f.write(msg)
            finally:
                os._exit(0)
        os.close(w)
        box = {}
        def rd():
            with os.fdopen(r) as f:
                box["msg"] = f.read()
        t = threading.Thread(target=rd, daemon=True); t.start(); t.join(180)
        if "msg" not in box or not box["msg"]:
            os.kill(pid, signal.SIGKILL)
            out["bad"].append(("fork", rpc, "open_alos2 in a forked worker did not return within 180 s (the parent opened the same product before the fork)")); out["n"] += 1
        else:
            m = json.loads(box["msg"])
            if "err" in m:
                out["bad"].append(("fork", rpc, "raised in a forked worker: " + m["err"])); out["n"] += 1
            else:
                judge("fork", rpc, m["fp"])
        os.waitpid(pid, 0)
json.dump(out, open(sys.argv[2], "w"))
"""


def run_same(case):
    """the same product opened with different request sizes AT THE SAME TIME by several threads, and by forked workers of a parent that
    opened it before: each tree must be the one the same call returns alone"""
    import subprocess

    from harness import product, tracefs

    base = checklib.fresh_dir("c06same_")
    b = product.build_product(level=case["level"], images=case["images"], seed=case["seed"])
    res = {"case": case, "bad": [], "n": 0}
    if case["fs"] == "local":
        d = b.write(os.path.join(base, "product"))
        pre = ""
    else:
        d = f"vtrace://c06same_{case['seed']}"
        pre = "import pickle, sys\nfrom harness import tracefs\ntracefs.register()\ntracefs.put_product(%r, pickle.load(open(%r, 'rb')))\n" % (d, os.path.join(base, "files.pkl"))
        import pickle

        pickle.dump({k: bytes(v) for k, v in b.files.items()}, open(os.path.join(base, "files.pkl"), "wb"))
    spec, out = os.path.join(base, "spec.json"), os.path.join(base, "out.json")
    json.dump(dict(dir=d, n=case["images"][0][2], rpcs=case["rpcs"], mode=case["mode"], rounds=case.get("rounds", 6), slow=case.get("slow")), open(spec, "w"))
    env = checklib.worker_env(os.path.join(base, "xdg"))
    txt, _ = checklib.run_child([sys.executable, "-W", "ignore", "-c", pre + SAME_CHILD, spec, out], env)
    if not os.path.exists(out):
        res["bad"].append(("interpreter", "*", f"died: {txt[-500:]}"))
        return res
    o = json.load(open(out))
    res["bad"], res["n"] = [tuple(x) for x in o["bad"]], o["n"]
    return res


def run_big(case):
    """size relations: the advertised chunk is min(rpc, lines) whatever that is in BYTES (chunks of 2^26 .. > 2^31 bytes), and the
    tree does not depend on rpc.  Pixels are compared on windows (the images are up to 2.2 GB)."""
    import shutil

    import ceos_alos2

    from harness import bigimg, checklib as cl, imgrun, oracle, project

    n, p = case["n"], case["p"]
    res = {"case": case, "bad": [], "pairs": 0}
    d = None
    try:
        if case["sparse"]:
            d = cl.fresh_dir("sparse_")
            b = bigimg.build("1.5", n, p, case["seed"], sparse_dir=d)
            url = d
            # one pass over the file in small requests writes the index; every further open is served from it
            try:
                ceos_alos2.open_alos2(url, backend_options={"use_cache": False, "create_cache": True, "records_per_chunk": 64})
            except BaseException as e:  # noqa: B902
                res["bad"].append((64, f"a well-formed 2.2 GB image could not be opened with records_per_chunk=64: {type(e).__name__}: {str(e)[:150]}"))
                return res
            base = {}
        else:
            b = bigimg.build("1.5", n, p, case["seed"])
            url = imgrun.put_on_fs(b, case["fs"], f"c06big_{case['seed']}")
            base = {"use_cache": False}
        im = b.images[0]
        ref = None
        for rpc in case["rpcs"]:
            opts = dict(base)
            if rpc is not None:
                opts["records_per_chunk"] = rpc
            try:
                tree = ceos_alos2.open_alos2(url, backend_options=opts)
                proj = project.project_tree(tree, load=True, skip_data=("data",))
                da = tree[f"imagery/{im['group']}/data"]
                rows, cols = [0, n // 2, n - 1], list(range(0, min(p, 5))) + [p - 1]
                vals = da.isel(rows=rows, columns=cols).values if not case["sparse"] else da.isel(rows=[n - 1], columns=cols).values
                msg = oracle.pixels_match(vals, im, rows=rows if not case["sparse"] else [n - 1], cols=cols) if not case["sparse"] else (None if not vals.any() else "non-zero sample read from a hole")
                if msg:
                    res["bad"].append((rpc, f"pixels: {msg}"))
            except BaseException as e:  # noqa: B902
                res["bad"].append((rpc, f"open/load failed: {type(e).__name__}: {str(e)[:150]}"))
                continue
            node = proj[f"/imagery/{im['group']}"]["vars"]["data"]
            enc = node.pop("encoding")
            eff = 1024 if rpc is None else rpc
            want = {"rows": min(eff, n), "columns": p}
            if enc.get("preferred_chunksizes") != want:
                res["bad"].append((rpc, f"preferred_chunksizes {enc.get('preferred_chunksizes')}, expected {want} (one chunk = {min(eff, n) * (im['prefix'] + p * im['bps'])} bytes)"))
            canon = repr(proj)
            if ref is None:
                ref = (rpc, canon)
            elif canon != ref[1]:
                res["bad"].append((rpc, f"tree (all but pixel data) differs from rpc={ref[0]}"))
            res["pairs"] += 1
        if not case["sparse"]:
            imgrun.drop_from_fs(url, case["fs"])
    finally:
        if d:
            shutil.rmtree(d, ignore_errors=True)
    return res


def body(chk):
    from harness import iotrace, tlc
    from harness import layout as L

    cfg = "MC_ImageIO_quick" if chk.tier == "quick" else "MC_ImageIO_thorough"
    r = tlc.run_ok("MC_ImageIO", cfg, workers=16, timeout=3000)
    chk.tlc_stats(r)
    for v in r.violated:
        chk.violation(f"model:{v}", f"TLC: {v} violated in the ImageIO model", {"tlc": r.out[-3000:]})
    cases = []
    big = [10**6, 10**12, sys.maxsize, sys.maxsize + 1, 2**63 + 12345, 2**64 - 1, 2**64, 10**30]
    shapes = [("1.5", [("HH", None, 12, 3)]), ("1.1", [("HH", "F1", 7, 2), ("HH", "F2", 5, 2)]),
              ("3.1", [("HH", None, 1, 4), ("HV", None, 9, 1), ("VV", None, 4, 4)])]
    if chk.tier == "thorough":
        shapes += [("1.5", [("HV", None, n, 2)]) for n in (2, 3, 5, 8, 16, 30, 31, 64)] + [("1.1", [("VV", "B3", n, 3)]) for n in (2, 6, 13, 25)]
    for si, (level, images) in enumerate(shapes):
        n = images[0][2]
        rpcs = sorted({1, 2, 3, 4, 5, 6, 7, n - 1, n, n + 1, 2 * n, 1024} - {0, -1}) + big
        if chk.tier == "thorough":
            rpcs = sorted(set(rpcs) | set(range(1, n + 3)))
        for fs in (["vtrace", "local"] if chk.tier == "quick" else ["vtrace", "local", "file", "memory"]):
            cases.append(dict(level=level, images=images, seed=chk.seed + si, fs=fs, rpcs=[None] + rpcs,
                              typed=[(t, r) for t in ("int64", "int32", "uint16", "intp") for r in (1, 2, max(1, n - 1), n, n + 1, 1024)]))
    for c in [c for c in cases if c["fs"] == "local"]:
        cases.append(dict(c, trailing=1 + len(cases) % 3, typed=[]))
    # as many lines as a real scene has per default request (4096 .. 4500): request sizes around and above 4096 lines
    cases.append(dict(level="1.5", images=[("HH", None, 4500, 2)], seed=chk.seed + 45, fs="local", rpcs=[None, 4095, 4096, 4097, 4499, 4500, 4501, 10**6], typed=[]))
    if chk.tier == "thorough":
        cases.append(dict(level="1.1", images=[("HH", None, 8200, 1)], seed=chk.seed + 46, fs="local", rpcs=[None, 4096, 4097, 8192, 8193, 8200, 10**9], typed=[]))
    L.tables()
    want = [dict(L.SMALL_LEADER), dict(L.SMALL_LEADER, nmap=0), dict(file="trailer", nlow=0, lens=[])] + \
           [dict(file="volume", nfp=k) for k in (3, 4, 5)]
    for c in cases:
        for (_, _, n, p) in c["images"]:
            bps = 8 if c["level"] == "1.1" else 2
            want.append(dict(file="image", kind="signal" if c["level"] == "1.1" else "processed", n=n, ndata=p * bps, bps=bps))
    want += [dict(file="image", kind="processed", n=1, ndata=2, bps=2), dict(file="image", kind="processed", n=1, ndata=2 * 499900, bps=2),
             dict(file="image", kind="processed", n=70, ndata=2 * 494904, bps=2), dict(file="image", kind="processed", n=300, ndata=2 * 450000, bps=2)]
    L.instances(want)
    bigcases = [dict(n=70, p=494904, sparse=False, fs="vtrace", seed=chk.seed + 61, rpcs=[None, 1, 33, 67, 68, 69, 70, 71, 10**6]),
                dict(n=2200, p=499900, sparse=True, fs="local", seed=chk.seed + 62, rpcs=[None, 64, 2146, 2147, 2148, 2199, 2200, 2201, 4096, 10**6, 10**12])]
    if chk.tier == "thorough":
        bigcases.append(dict(n=300, p=450000, sparse=False, fs="local", seed=chk.seed + 63, rpcs=[None, 149, 150, 298, 299, 300, 301, 10**9]))
    bigres = checklib.pmap(run_big, bigcases, chk.scratch, procs=len(bigcases))
    for res in bigres:
        c = res["case"]
        chk.count(res["pairs"], f"big:{c['n']}x{c['p']}")
        for rpc, msg in res["bad"]:
            chk.violation(f"rpc-dependence:size:{c['n']}x{c['p']}:rpc={rpc}", f"{'sparse local file' if c['sparse'] else c['fs']}: {msg}", {"case": c, "rpc": rpc})
    sames = []
    for i, (fs, slow) in enumerate((("local", None), ("vtrace", 0.002), ("vtrace", 0.01))):
        sames.append(dict(level=("1.5", "1.1")[i % 2], images=[("HH", None, 12, 3), ("HV", None, 12, 3)] if i % 2 == 0 else [("HH", "F1", 7, 2), ("HH", "F2", 5, 2)], seed=chk.seed + 70 + i,
                          fs=fs, slow=slow, mode="threads", rpcs=[4, 9, 1, 1024], rounds=6 if chk.tier == "quick" else 40))
    for i in range(2):
        sames.append(dict(level=("1.5", "1.1")[i % 2], images=[("HH", None, 12, 3)] if i == 0 else [("HH", "F1", 7, 2), ("HH", "F2", 5, 2)], seed=chk.seed + 80 + i, fs="local", mode="fork",
                          rpcs=[12, 13, 4096, 5, 1, 7]))
    same_res = checklib.pmap(run_same, sames, chk.scratch, procs=len(sames))
    for res in same_res:
        c = res["case"]
        chk.count(res["n"], f"same-product:{c['mode']}:{c['fs']}")
        seen = set()
        for tag, rpc, msg in res["bad"]:
            if (tag, rpc) in seen:
                continue
            seen.add((tag, rpc))
            chk.violation(f"rpc-dependence:{tag}:rpc={rpc}", f"[{c['fs']}{', slow reads' if c.get('slow') else ''}] records_per_chunk={rpc} ({'opened by 4 threads at once, each with its own value' if tag == 'threads' else 'opened in a forked worker'}): {msg}",
                          {"case": c, "rpc": rpc})
    results = checklib.pmap(run_case, cases, chk.scratch)
    batch = iotrace.TraceBatch(os.path.join(chk.scratch, "c06.ndjson"))
    tinfo = {}
    for res in results:
        c = res["case"]
        shape = [i[2:] for i in c["images"]]
        for i, rpc in enumerate(c["rpcs"]):
            for rpc2 in c["rpcs"][i + 1:]:
                chk.count(1, f"{c['level']}:{shape}:{rpc}:{rpc2}")
        for t, r in c.get("typed", []):
            chk.count(1, f"{c['level']}:{shape}:{t}({r})")
        for rpc, msg in res["bad"]:
            chk.violation(f"rpc-dependence:{c['level']}:{shape}:rpc={rpc}", f"{c['fs']}: {msg}", {"case": c, "rpc": rpc})
        names = {im["name"] for im in res["images"]}
        for rpc, evs in res["events"].items():
            for im in res["images"]:
                eff = 1024 if rpc == "None" else int(rpc[rpc.index("(") + 1:-1]) if "(" in rpc else int(rpc)
                tid = batch.start(iotrace.geom_of(im, min(eff, im["n"] + 1)), meta=None)
                tinfo[tid] = (c, rpc, im["name"])
                batch.mark(tid, e="begin_open")
                for ev in evs:
                    if ev["f"] in names and ev["f"] != im["name"]:
                        continue
                    if ev["e"] in ("seek",) or (ev["e"] == "read" and ev["pos"] >= 720 and False):
                        continue
                    batch.event(tid, ev, im["name"])
                # the fingerprint loaded every pixel after the open: close the open phase before the first seek
                lines = batch.lines[tid]
    batch.close()
    # split open phase from the full-image load that the fingerprint performs
    split = iotrace.TraceBatch(os.path.join(chk.scratch, "c06s.ndjson"))
    tmap = {}
    for tid, lines in batch.lines.items():
        t2 = split.start({k: lines[0][k] for k in ("n", "p", "prefix", "bps", "rpc", "flen")})
        tmap[t2] = tid
        nopen = 0
        phase = "open"
        for ev in lines[1:]:
            if phase == "open" and ev["e"] == "fopen" and ev.get("f") == "IMG":
                nopen += 1
                if nopen == 2:
                    split.mark(t2, e="opened", outcome="ok", shape=[lines[0]["n"], lines[0]["p"]], expect="ok")
                    split.mark(t2, e="begin_load", rows=list(range(lines[0]["n"])), kind="slice", brows=list(range(lines[0]["n"])))
                    phase = "load"
            split._w(t2, ev)
        if phase == "load":
            split.mark(t2, e="loaded", outcome="equal")
        else:
            split.mark(t2, e="opened", outcome="ok", shape=[lines[0]["n"], lines[0]["p"]], expect="ok")
    verdicts, tr = split.validate()
    chk.tlc_stats(tr)
    chk.traces(len(verdicts))
    for t2, v in verdicts.items():
        if v["status"] == "rejected" and v["clause"] in ("meta-request-count", "front-to-back", "descriptor-first"):
            c, rpc, name = tinfo[tmap[t2]]
            chk.violation(f"open-requests:{c['level']}:rpc={rpc}", f"open trace rejected: {v['clause']}", {"case": c, "trace": split.lines[t2]})
    for res in results[:2]:
        chk.sample({"product": res["case"]["level"], "images": [i[2:] for i in res["case"]["images"]], "fs": res["case"]["fs"],
                    "rpcs": [str(x) for x in res["case"]["rpcs"]], "differences": res["bad"][:3]})
    chk.assumptions += ["trees are compared after loading every variable (pixels included) and normalising NaN / -0.0",
                        "very large rpc = 10^6, 10^12, sys.maxsize; the default (option absent) is 1024",
                        "size family: 70 lines of 990 000 bytes (chunks across 2^26) in memory, 2200 lines of 999 992 bytes (chunks across 2^31) as a "
                        "sparse local file read once in 64-line requests, then opened through its index with every rpc",
                        "the same product opened by 4 threads at once with 4 different rpc (local, slow non-local), and by forked workers of a parent that opened it before (6 rpc): each tree equals the one opened alone"]
    from harness import sessioncheck

    sessioncheck.standard(chk)
    from harness import tlaps

    tlaps.prove(chk)
    chk.finish(
        rule="pairs = all unordered pairs of rpc values per product x filesystem (compared through a common reference "
             "tree); distinct = (level, geometry, rpc1, rpc2); non-trivial = all (each compares two complete trees)",
        exhaustive=False,
    )


if __name__ == "__main__":
    checklib.main(body, "C06")
