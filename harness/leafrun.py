"""Worker-side driver for the layout properties (C03, C04, C16, C20, C12): build a product under a value plan, open it
through open_alos2, project the tree and compare every mapped field with what was written."""
import random

from . import checklib, imgrun, oracle, plans, product, project
from . import layout as L


def run_plan(case):
    import ceos_alos2

    tables = L.tables()
    rc = random.Random(case["seed"]) if case.get("random_classes") else None
    plan = plans.make_plan(case.get("k", 0), case["seed"], tables, random_classes=rc) if case.get("k") is not None else None
    blank = case.get("blank")
    if case.get("blank_text") is not None:
        # the j-th free-text field of the volume directory (descriptor and text record) left blank, everything else filled
        nfp = case.get("nfp")
        inst = L.instance(file="volume", nfp=(len(case.get("images", (1,))) + 2) if nfp is None else nfp)
        cand = []
        for rec in inst["records"]:
            if rec["name"] in ("volume_descriptor", "text_record"):
                for path, off, leaf, arr in L.leaves(rec):
                    if leaf["k"] == "s" and leaf["r"] == "value" and (("VOL", rec["name"], path) in L.outmap()):
                        cand.append(("VOL", rec["name"], 0, path))
        blank = [cand[case["blank_text"] % len(cand)]]
    b = product.build_product(level=case.get("level", "1.5"), images=case.get("images", (("HH", None, 3, 2),)), seed=case["seed"],
                              leader=case.get("leader"), nfp=case.get("nfp"), ctx=case.get("ctx"), plan=plan,
                              overrides=case.get("overrides"), line_overrides=case.get("line_overrides"),
                              blank=blank, kind=case.get("kind"), sample=case.get("sample"),
                              informational=case.get("informational"), vary_first=case.get("vary_first", False))
    if case.get("vol_trailing"):
        # bytes after the last record (a file padded to a block boundary by the medium it came from): not part of any record
        b.files[b.names["vol"]] = b.files[b.names["vol"]] + {"nul": b"\0", "blank": b" ", "junk": b"REMARKS:"}[case["vol_trailing"][0]] * case["vol_trailing"][1]
    if case.get("clutter"):
        # what else lies in the directory: an EARLIER DELIVERY of the same scene (same file names, other contents) kept in a subfolder, a saved
        # original of one file, unrelated extras -- the product is the files the summary lists, in the directory itself
        other = product.build_product(level=case.get("level", "1.5"), images=case.get("images", (("HH", None, 3, 2),)), seed=case["seed"] + 977,
                                      nfp=case.get("nfp"), ctx=dict(case.get("ctx") or {}, creation_datetime="1999123123595999"))
        for folder in case["clutter"]:
            for name, data in other.files.items():
                if name != "summary.txt":
                    b.files[f"{folder}/{name}"] = data
        b.files["browse.jpg"] = b"\xff\xd8\xff\xe0" + b"\0" * 64
        b.files["notes/readme.txt"] = b"see ticket 4711\n"
    res = {"case": case, "bad": [], "n": 0, "open": "ok"}
    fs = case.get("fs", "local")
    url = imgrun.put_on_fs(b, fs, f"lf_{case['seed']}_{case.get('k')}")
    try:
        fo = case.get("flaky_open")
        if fo and fs == "vtrace":
            # a transient fault on one of the files read at open time (fsspec cat / read failing once): open may raise or must be right
            from . import tracefs

            nm = {"summary": "summary.txt", "vol": b.names["vol"], "led": b.names["led"]}[fo["file"]]
            tracefs.arm_fault(url, nm, op="cat", nth=fo.get("nth", 1), exc=TimeoutError)
        try:
            import warnings

            import contextlib

            import xarray as xr

            # process-wide xarray options of the application (keep_attrs=False / True, other display settings): they govern the application's
            # own arithmetic, not what a reader returns
            xo = xr.set_options(**case["xr_options"]) if case.get("xr_options") else contextlib.nullcontext()
            with warnings.catch_warnings(), xo:
                if case.get("strict_warnings"):  # the caller treats warnings as errors (python -W error, pytest filterwarnings = error)
                    warnings.simplefilter("error")
                tree = ceos_alos2.open_alos2(url, backend_options=dict(use_cache=False, records_per_chunk=case.get("rpc", 2)))
                proj = project.project_tree(tree)
        except BaseException as e:  # noqa: B902
            if fo and fs == "vtrace":
                from . import tracefs

                if tracefs.clear_flaky():
                    res["open"] = "fault-raised"
                    return res
            if case.get("may_reject"):
                res["open"] = "rejected-ok"  # an input the format does not admit (a required field blank): refusing it is fine
                return res
            res["open"] = f"error:{type(e).__name__}: {str(e)[:200]}"
            return res
        if fo and fs == "vtrace":
            from . import tracefs

            tracefs.clear_flaky()
        if case.get("may_reject") and case["may_reject"] != "or-right":
            res["open"] = "rejected-ok"  # ... and so is accepting it: the format says nothing about what it should then read as
            return res
        ex = oracle.expectations(b, files=tuple(case.get("files", ("VOL", "LED", "IMG"))))
        bad = oracle.check(proj, ex)
        res["n"] = len(ex)
        res["bad"] = [(e.src, m) for e, m in bad[:12]]
        res["n_bad"] = len(bad)
        if case.get("want_proj"):
            res["proj"] = proj
        if case.get("extra"):
            res["extra"] = case["extra"](b, proj, tree)
    finally:
        imgrun.drop_from_fs(url, fs)
    return res
