"""Hierarchy.tla bound to ceos_alos2.hierarchy.Group: every history TLC enumerates (all histories of 2 operations, simulated ones of 7)
is replayed on real Group objects -- Group(...) around existing values, g[name] = group / variable on any reachable group, taking a
subgroup out -- and after EVERY step the real object graph (walked through the .data dicts: position, .path, .url, item names and kinds
in dict order) must equal the projection the specification computed; Group.subtree must list the specification's walk; the source object
of an insertion is mutated afterwards (the tree must not follow); trees rooted at "/" are converted with to_datatree and the DataTree's
groups and child order compared too.  The harness computes no expectation of its own."""
import json
import os
import re

from . import checklib, tlc

NOURL = NOPATH = "none"


def histories(out):
    hs = []
    for ln in out.splitlines():
        ln = ln.strip()
        if ln.startswith('"[{') and ln.endswith('"'):
            try:
                hs.append(json.loads(json.loads(ln)))
            except Exception:
                continue
    return hs


def _py(v):
    return None if v == "none" else v


def replay(hist):
    import numpy as np

    from ceos_alos2.hierarchy import Group, Variable

    def var():
        return Variable("x", np.arange(2), {})

    def template(t):
        if t == "leaf":
            return Group(None, None, {}, {})
        if t == "leafu":
            return Group(None, "u2", {}, {})
        if t == "named":
            return Group("x", None, {"a": Group(None, None, {}, {}), "v": var()}, {})
        if t == "deep":
            return Group(None, "u2", {"b": Group("deep", None, {"a": Group(None, "u3", {}, {})}, {})}, {})
        raise checklib.Machinery(f"unknown template {t}")

    def project(root):
        out = []

        def walk(g, pos):
            out.append({"pos": list(pos), "path": g.path, "url": "none" if g.url is None else g.url,
                        "items": [[k, "g" if isinstance(v, Group) else "v"] for k, v in g.data.items()]})
            for k, v in g.data.items():
                if isinstance(v, Group):
                    walk(v, pos + [k])

        walk(root, [])
        return out

    bad = []
    root = None
    for i, st in enumerate(hist):
        op = st["op"]
        try:
            if op == "new":
                root = Group(_py(st["path"]), _py(st["url"]), {}, {})
            elif op == "setgroup":
                tgt = root
                for n in st["pos"]:
                    tgt = tgt[n]
                src = template(st["tmpl"])
                tgt[st["name"]] = src
                # the caller goes on using its own object: the tree must not follow
                src["zz"] = Group(None, "elsewhere", {}, {})
                src.path = "moved"
                for sub in list(src.groups.values()):
                    sub.path = "moved/too"
            elif op == "setvar":
                tgt = root
                for n in st["pos"]:
                    tgt = tgt[n]
                tgt[st["name"]] = var()
            elif op == "wrap":
                inner = root
                root = Group(_py(st["path"]), _py(st["url"]), {st["name"]: inner}, {})
                inner["zz"] = var()  # the wrapped object is the caller's: the new tree holds a copy
            elif op == "descend":
                root = root[st["name"]]
            else:
                raise checklib.Machinery(f"unknown operation {op}")
        except checklib.Machinery:
            raise
        except BaseException as e:  # noqa: B902
            bad.append(("raises", i, f"step {i} {op} {({k: v for k, v in st.items() if k not in ('proj', 'op')})} raised {type(e).__name__}: {str(e)[:120]}"))
            return bad
        want = st["proj"]
        got = project(root)
        gp, wp = [(g["pos"], g["path"], g["items"]) for g in got], [(list(w["pos"]), w["path"], [list(x) for x in w["items"]]) for w in want]
        if gp != wp:
            first = next((k for k, (a, b) in enumerate(zip(gp, wp)) if a != b), min(len(gp), len(wp)))
            clause = "groups" if [g[0] for g in gp] != [w[0] for w in wp] else "paths" if [g[1] for g in gp] != [w[1] for w in wp] else "items"
            bad.append((clause, i, f"step {i} {op}: object graph {gp[first] if first < len(gp) else 'ends'} , specification {wp[first] if first < len(wp) else 'ends'}"))
            return bad
        gu, wu = [g["url"] for g in got], [w["url"] for w in want]
        if gu != wu:
            bad.append(("url", i, f"step {i} {op}: urls {gu}, specification {wu}"))
        sub = list(root.subtree)
        if [p for p, _ in sub] != [w["path"] for w in want]:
            bad.append(("subtree-order", i, f"step {i} {op}: Group.subtree lists {[p for p, _ in sub]}, specification walk {[w['path'] for w in want]}"))
            return bad
        if any(g.groups for _, g in sub):
            bad.append(("subtree-decoupled", i, f"step {i} {op}: Group.subtree hands out groups that still hold subgroups"))
        for g_, w in zip((g for _, g in sub), want):
            nm = w["path"] if (w["path"] == "/" or "/" not in w["path"]) else w["path"].rsplit("/", 1)[1]
            if g_.name != nm:
                bad.append(("name", i, f"step {i} {op}: group at {w['path']} has name {g_.name!r}"))
    # the DataTree built from the final tree (only defined for trees rooted at "/")
    if root is not None and root.path == "/" and not bad:
        from ceos_alos2.xarray import to_datatree

        want = hist[-1]["proj"]
        try:
            tree = to_datatree(root)
        except BaseException as e:  # noqa: B902
            bad.append(("datatree-raises", len(hist) - 1, f"to_datatree raised {type(e).__name__}: {str(e)[:120]}"))
            return bad
        paths = sorted(n.path for n in tree.subtree)
        if paths != sorted(w["path"] for w in want):
            bad.append(("datatree-groups", len(hist) - 1, f"DataTree has {paths}, specification {sorted(w['path'] for w in want)}"))
        else:
            for w in want:
                kids = list(tree[w["path"]].children) if w["path"] != "/" else list(tree.children)
                if kids != [n for n, k in w["items"] if k == "g"]:
                    bad.append(("datatree-order", len(hist) - 1, f"children of {w['path']}: {kids}, specification {[n for n, k in w['items'] if k == 'g']}"))
                dvs = list(tree[w["path"]].to_dataset(inherit=False).variables) if w["path"] != "/" else list(tree.to_dataset(inherit=False).variables)
                if dvs != [n for n, k in w["items"] if k == "v"]:
                    bad.append(("datatree-variables", len(hist) - 1, f"variables of {w['path']}: {dvs}, specification {[n for n, k in w['items'] if k == 'v']}"))
    return bad


def task(hs):
    return [(h, replay(h)) for h in hs]


def run(chk, owned=("groups", "paths", "items", "subtree-order", "subtree-decoupled", "name", "raises", "datatree-groups", "datatree-order", "datatree-variables", "datatree-raises")):
    r = tlc.run_ok("MC_Hierarchy", "MC_Hierarchy", workers=16, timeout=1800)
    chk.tlc_stats(r)
    for v in r.violated:
        chk.violation(f"model:hierarchy:{v}", f"TLC: {v} violated in Hierarchy", {"tlc": r.out[-2000:]})
    re_ = tlc.run_ok("MC_Hierarchy", "MC_Hierarchy_export", workers=1, timeout=1800)
    hs = histories(re_.out)
    n_sim = 300 if chk.tier == "quick" else 5000
    rs = tlc.run("MC_Hierarchy", "MC_Hierarchy_sim", workers=1, simulate=f"num={n_sim}", extra=["-depth", "9", "-seed", str(chk.seed)], timeout=1800)
    if rs.violated:
        chk.violation(f"model:hierarchy-sim:{rs.violated[0]}", f"TLC: {rs.violated} violated in simulated Hierarchy behaviours", {"tlc": rs.out[-2000:]})
    chk.tlc_stats(rs)
    hs += histories(rs.out)
    if len(hs) < 500:
        raise checklib.Machinery(f"only {len(hs)} histories exported by TLC from Hierarchy")
    ops_seen = {st["op"] for h in hs for st in h}
    if not {"setgroup", "setvar", "wrap", "descend"} <= ops_seen:
        raise checklib.Machinery(f"vacuity: the exported histories never take {sorted({'setgroup', 'setvar', 'wrap', 'descend'} - ops_seen)}")
    chunks = [hs[i:i + 200] for i in range(0, len(hs), 200)]
    others = {}
    total = 0
    for res in checklib.pmap(task, chunks, chk.scratch):
        for h, bad in res:
            total += 1
            chk.count(len(h), "hier:" + "|".join(f"{st['op']}:{st.get('pos')}:{st.get('name')}:{st.get('tmpl')}" for st in h))
            for clause, i, msg in bad[:1]:
                if clause in owned:
                    chk.violation(f"hierarchy:{clause}", f"Group history {[{k: v for k, v in st.items() if k != 'proj'} for st in h[:i + 1]]}: {msg}", {"history": h})
                else:
                    others[clause] = others.get(clause, 0) + 1
    chk.traces(total)
    # negative control: a history whose expected projection is corrupted must be reported by the replay
    h0 = next(h for h in hs if any(st["op"] == "setgroup" for st in h))
    hc = json.loads(json.dumps(h0))
    hc[-1]["proj"][-1]["path"] += "x"
    if not checklib.pmap(task, [[hc]], chk.scratch, procs=1)[0][0][1]:
        raise checklib.Machinery("negative control: a corrupted expected path was not noticed by the Group replay")
    if others:
        chk.note(f"Hierarchy: differences of clauses this property does not own (Design drift): {others}")
    chk.rule_extra.append(f"Hierarchy.tla: {total} histories of Group construction / g[name] = value / wrap / descend (all of length 2, simulated of length 7) replayed on real "
                          "Group objects, the object graph, Group.subtree and the DataTree of '/'-rooted trees compared with the specification's projection after every step")
    chk.sample({"group_history": [{k: v for k, v in st.items() if k != "proj"} for st in hs[len(hs) // 2]], "final_projection": hs[len(hs) // 2][-1]["proj"][:3]})
