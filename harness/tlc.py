"""Thin driver around TLC: run a module/config, parse the statistics and the PrintT output."""
import json
import os
import re
import shutil
import subprocess
import tempfile
import time

SPEC_DIR = os.path.join(os.path.dirname(os.path.dirname(os.path.abspath(__file__))), "spec")
BUILD_DIR = os.path.join(os.path.dirname(SPEC_DIR), "build")
JAR = "/opt/veriftools/tla/tla2tools.jar"
CM = "/opt/veriftools/tla/CommunityModules-deps.jar"


class TlcError(RuntimeError):
    """machinery failure (parse error, evaluation error, crash) -- never a property verdict"""


class TlcResult:
    def __init__(self, out, rc, wall):
        self.out = out
        self.rc = rc
        self.wall = wall
        m = re.search(r"(\d+) states generated, (\d+) distinct states found", out)
        self.generated = int(m.group(1)) if m else 0
        self.distinct = int(m.group(2)) if m else 0
        m = re.search(r"depth of the complete state graph search is (\d+)", out)
        self.depth = int(m.group(1)) if m else 0
        self.no_error = "No error has been found" in out
        self.violated = re.findall(r"Invariant (\S+) is violated", out) + re.findall(
            r"Action property (\S+) is violated", out
        )
        if "Temporal properties were violated" in out:
            self.violated.append("temporal")
        if "Deadlock reached" in out:
            self.violated.append("deadlock")
        self.coverage = {}

    def printed(self):
        """values printed with PrintT(<<...>>) one per line, as raw strings"""
        return [ln for ln in self.out.splitlines() if ln.startswith("<<") or ln.startswith('"')]


def _tlc_cmd():
    return shutil.which("tlc") or "tlc"


def run(module, cfg=None, workers=1, env=None, timeout=1800, extra=(), simulate=None, coverage=False, depth_first=False,
        cwd=None):
    """run TLC on spec/<module>.tla with spec/<cfg>.cfg (default <module>.cfg)"""
    cwd = cwd or SPEC_DIR
    cfg = cfg or module
    meta = tempfile.mkdtemp(prefix="tlcmeta_")
    cmd = [_tlc_cmd(), "-workers", str(workers), "-metadir", meta, "-noGenerateSpecTE", "-config", cfg + ".cfg"]
    if coverage:
        cmd += ["-coverage", "1"]
    if simulate:
        cmd += ["-simulate", simulate]
    cmd += list(extra)
    cmd += [module + ".tla"]
    e = dict(os.environ)
    if env:
        e.update({k: str(v) for k, v in env.items()})
    # deep RECURSIVE operators over long traces need a roomy Java thread stack (StackOverflowError otherwise)
    e["JAVA_TOOL_OPTIONS"] = (e.get("JAVA_TOOL_OPTIONS", "") + " -Xss512m").strip()
    if depth_first:
        e["JAVA_TOOL_OPTIONS"] = (e.get("JAVA_TOOL_OPTIONS", "") + " -Dtlc2.tool.queue.IStateQueue=StateDeque").strip()
    t0 = time.time()
    try:
        p = subprocess.run(cmd, cwd=cwd, env=e, stdout=subprocess.PIPE, stderr=subprocess.STDOUT, text=True,
                           timeout=timeout)
    except subprocess.TimeoutExpired as ex:
        subprocess.run(["pkill", "-f", meta], check=False)
        raise TlcError(f"TLC timed out after {timeout}s on {module}/{cfg}") from ex
    finally:
        shutil.rmtree(meta, ignore_errors=True)
    res = TlcResult(p.stdout, p.returncode, time.time() - t0)
    if coverage:
        for m in re.finditer(r"<(\w+) line \d+, col \d+ to line \d+, col \d+ of module (\w+)>: (\d+):(\d+)", p.stdout):
            res.coverage[m.group(1)] = (int(m.group(3)), int(m.group(4)))
    return res


def run_ok(module, cfg=None, **kw):
    """run TLC and insist on a clean completion (no parse/evaluation error). Property violations are returned."""
    r = run(module, cfg, **kw)
    bad = None
    for marker in ("Parse Error", "***Parse Error***", "Semantic errors", "Error: TLC threw", "was thrown",
                   "Evaluating assumption", "is false.", "TLC encountered", "Attempted to", "java.lang."):
        if marker in r.out and not r.violated:
            bad = marker
            break
    if bad or (not r.no_error and not r.violated):
        errs = [ln for ln in r.out.splitlines() if ln.startswith("Error") or "line " in ln and "col " in ln and "module" in ln][:12]
        tail = "\n".join(errs + ["..."] + r.out.splitlines()[-25:])
        raise TlcError(f"TLC failed on {module}/{cfg or module} ({bad}):\n{tail}")
    return r


def parse_tla_value(s):
    """parse the subset of TLA+ values TLC prints with PrintT: ints, strings, booleans, tuples, sets, records,
    functions written (k :> v @@ ...)"""
    pos = 0

    def ws():
        nonlocal pos
        while pos < len(s) and s[pos] in " \n\t\r":
            pos += 1

    def val():
        nonlocal pos
        ws()
        c = s[pos]
        if s.startswith("<<", pos):
            pos += 2
            items = []
            ws()
            if s.startswith(">>", pos):
                pos += 2
                return items
            while True:
                items.append(val())
                ws()
                if s.startswith(">>", pos):
                    pos += 2
                    return items
                assert s[pos] == ",", s[pos:pos + 20]
                pos += 1
        if c == "{":
            pos += 1
            items = []
            ws()
            if s[pos] == "}":
                pos += 1
                return items
            while True:
                items.append(val())
                ws()
                if s[pos] == "}":
                    pos += 1
                    return items
                assert s[pos] == ","
                pos += 1
        if c == "[":
            pos += 1
            d = {}
            while True:
                ws()
                m = re.match(r"(\w+)\s*\|->", s[pos:])
                assert m, s[pos:pos + 30]
                pos += m.end()
                d[m.group(1)] = val()
                ws()
                if s[pos] == "]":
                    pos += 1
                    return d
                assert s[pos] == ","
                pos += 1
        if c == "(":
            pos += 1
            d = {}
            while True:
                k = val()
                ws()
                assert s.startswith(":>", pos)
                pos += 2
                d[k if not isinstance(k, list) else tuple(k)] = val()
                ws()
                if s[pos] == ")":
                    pos += 1
                    return d
                assert s.startswith("@@", pos)
                pos += 2
        if c == '"':
            j = pos + 1
            buf = []
            while s[j] != '"':
                if s[j] == "\\":
                    j += 1
                buf.append(s[j])
                j += 1
            pos = j + 1
            return "".join(buf)
        m = re.match(r"-?\d+", s[pos:])
        if m:
            pos += m.end()
            return int(m.group(0))
        m = re.match(r"TRUE|FALSE", s[pos:])
        if m:
            pos += m.end()
            return m.group(0) == "TRUE"
        m = re.match(r"\w+", s[pos:])
        if m:
            pos += m.end()
            return m.group(0)
        raise ValueError(f"cannot parse TLA+ value at {s[pos:pos + 40]!r}")

    v = val()
    return v


def load_json(path):
    with open(path) as f:
        return json.load(f)
