"""Images whose SIZE is the point: line records of up to 999 999 bytes, files of hundreds of MB (in memory) or of more than
2 GiB (sparse local file).  The arithmetic of Chunking.tla / ImageIO.tla is over unbounded integers; these products bind it to the
code at the byte quantities where an implementation's size assumptions bite (2^26, 2^27, 2^28, 2^31, 2^32).

The descriptor and ONE line record are laid out from the TLC-exported instance (true n, true record length, all declared
values) exactly like every other product; the line template is then repeated n times with the line number patched in.  Pixels:
IU2 sample (r, c) = (salt + 31 r + c) mod 65536 (vectorised); for the sparse files the pixel area is a hole (zeros)."""
import copy
import os
import struct

from . import layout as L
from . import product
from .synth import FileBuilder


def _template(kind, sample, n, p, seed, name):
    bps = 8 if sample == "C*8" else 2
    reclen_guess = p * bps + 544
    if n * reclen_guess >= 2**31 - 1024:
        # TLC integers are 32-bit: the placed instance of a file beyond 2 GiB cannot be evaluated.  The layout of the descriptor
        # and of a line does not depend on n, so the one-line instance is used and the two declared line counts are set to n.
        inst = copy.deepcopy(L.instance(file="image", kind=kind, n=1, ndata=p * bps, bps=bps))
        inst["declared"] = [[r, path, (n if path in ("number_of_sar_data_records", "sar_related_data_in_the_record.number_of_lines_per_dataset") else v)]
                            for r, path, v in inst["declared"]]
    else:
        inst = copy.deepcopy(L.instance(file="image", kind=kind, n=n, ndata=p * bps, bps=bps))
    reclen = inst["records"][1]["len"]
    inst["total"] = 720 + reclen
    inst["records"][1]["count"] = 1
    fb = FileBuilder(inst)
    product.fill_builder(fb, name, seed, {}, sample, L.tables())
    buf = fb.bytes()
    pos, leaf = fb.where(1, "sar_image_data_line_number", 0)
    return buf[:720], bytearray(buf[720:720 + reclen]), pos - 720, leaf["w"], reclen


def expected_iu2(salt, rows, cols):
    import numpy as np

    r = np.asarray(list(rows), dtype=np.int64)[:, None]
    c = np.asarray(list(cols), dtype=np.int64)[None, :]
    return ((salt + 31 * r + c) % 65536).astype(np.uint16)


def build(level, n, p, seed, pol="HH", scan=None, sparse_dir=None):
    """-> Built product whose single image has n lines of p IU2 pixels (level 1.5) or C*8 (level 1.1, pixels zero).
    sparse_dir: write the product there with the image as a sparse file (pixel area = hole) and return the directory."""
    import numpy as np

    b = product.build_product(level=level, images=((pol, scan, 1, 1),), seed=seed)
    small = b.images[0]
    kind, sample = small["linekind"], small["type_code"]
    bps = small["bps"]
    hdr, line, ln_off, ln_w, reclen = _template(kind, sample, n, p, seed, small["name"])
    salt = 1 + seed % 60000
    prefix = reclen - p * bps
    im = dict(small, n=n, p=p, raw=None, big=True, salt=salt, prefix=prefix)
    b.images[0] = im
    # the summary's shape entries follow the image
    b.summary_lines = [ln.replace('Pdi_NoOfPixels_0="1"', f'Pdi_NoOfPixels_0="{p}"').replace('Pdi_NoOfLines_0="1"', f'Pdi_NoOfLines_0="{n}"')
                       for ln in b.summary_lines]
    b.files["summary.txt"] = ("\n".join(b.summary_lines) + "\n").encode()
    if sparse_dir is not None:
        os.makedirs(sparse_dir, exist_ok=True)
        for name, data in b.files.items():
            if name == im["name"]:
                continue
            with open(os.path.join(sparse_dir, name), "wb") as f:
                f.write(data)
        with open(os.path.join(sparse_dir, im["name"]), "wb") as f:
            f.write(hdr)
            pre = bytes(line[:prefix])
            for i in range(n):
                f.seek(720 + i * reclen)
                f.write(pre[:ln_off] + (i + 1).to_bytes(ln_w, "big") + pre[ln_off + ln_w:])
            f.truncate(720 + n * reclen)
        b.files[im["name"]] = None
        im["flen"] = 720 + n * reclen
        return b
    out = bytearray(720 + n * reclen)
    out[:720] = hdr
    pre = bytes(line[:prefix])
    if sample == "IU2":
        px = expected_iu2(salt, range(n), range(p)).astype(">u2")
    for i in range(n):
        s = 720 + i * reclen
        out[s:s + prefix] = pre[:ln_off] + (i + 1).to_bytes(ln_w, "big") + pre[ln_off + ln_w:]
        if sample == "IU2":
            out[s + prefix:s + reclen] = px[i].tobytes()
    b.files[im["name"]] = bytes(out)
    im["flen"] = len(out)
    return b
