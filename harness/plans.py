"""Value plans: which token CLASS every field of a product holds, concretised per field kind.

A plan is (k, salt): field number `ord` (file order within its record, as placed by TLC) of line / array element j holds
class  CLASSES[(ord + j + k) mod |CLASSES|],  so that within |CLASSES| consecutive plans every field meets every class.
Fields whose content the format constrains (counts, lengths, codes, date-time texts) keep valid values."""
from . import product
from .product import NOTSET, h32

CLASSES = ["typical", "zero", "one", "max", "neg", "left", "plus", "zeropad", "exp", "tiny", "negzero", "typical2"]


def ai_token(cls, w, h):
    if cls == "zero":
        return "0"
    if cls == "one":
        return "1"
    if cls == "max":
        return "9" * w
    if cls == "neg" and w >= 2:
        return "-" + "9" * (w - 1)
    if cls == "left":
        t = product.int_text(h, w)
        return t.encode().ljust(w)  # left-justified, blank padded on the right
    if cls == "plus" and w >= 2:
        return "+" + str(h % (10 ** min(w - 1, 6)))
    if cls == "zeropad" and w >= 2:
        return "0" * (w - 1) + str(2 + h % 7)
    t = product.int_text(h, w)
    return "-2" if t == "-1" else t


def af_token(cls, w, h):
    cands = {
        "zero": ["0.0", "0"],
        "one": ["1", "1.0"],
        "max": ["9.99999999E+99", "9.999E+99", "99999.99"],
        "neg": ["-1.5E-07", "-2.5", "-7"],
        "plus": ["+2.5E+03", "+2.5", "+3"],
        "zeropad": ["0000012.5000", "00012.5", "007"],
        "exp": ["1.0E+300", "2.5e-300", "1E+30"],
        "tiny": ["4.9E-324", "5e-324", "1E-30"],
        "negzero": ["-0.0", "-0"],
    }
    if cls == "left":
        t = product.float_text(h, w)
        return t.encode().ljust(w)
    if cls in cands:
        for c in cands[cls]:
            if len(c) <= w:
                return c
    return product.float_text(h, w)


def s_token(cls, w, h):
    if w == 0:
        return ""
    cands = {
        "zero": "0", "one": "1", "max": "X" * w, "neg": "-", "plus": "A  B C"[:w], "zeropad": "a=b\"c'd"[:w],
        "exp": "E+05", "tiny": "z", "negzero": "-0.0", "typical2": "Tokyo, JP"[:w],
    }
    # free text that happens to be all digits (an order number, a bare compact time stamp): still text
    if cls == "exp" and w >= 10:
        return ("2020010203040598", "20200102030405", "1234567890")[h % 3][:w]
    if cls == "one" and w >= 12:
        return "202001020304"
    if cls == "left":
        t = product.str_text(h, max(1, w - 2))
        return (" " * min(2, w - len(t)) + t).encode().ljust(w)  # leading blanks: padding, stripped
    if cls == "tiny" and w >= 2:
        return b"z".ljust(w, b"\0")  # NUL padded (tape-derived files): padding, stripped
    if cls == "negzero" and w >= 8:
        return (b"-0.0" + b"  ").ljust(w, b"\0")  # blanks, then NULs
    if cls in cands:
        return cands[cls][:w]
    return product.str_text(h, w)


def bin_token(cls, w, h):
    top = (1 << (8 * w)) - 1
    return {"zero": 0, "one": 1, "max": top, "neg": top - 1, "plus": 1 << (8 * w - 1), "zeropad": (1 << (8 * w - 1)) - 1,
            "exp": 1000000, "tiny": 2, "negzero": 999999}.get(cls, h % (top + 1)) & top


YDMS = {"zero": (2014, 1, 0), "one": (2016, 366, 86399999), "max": (2049, 365, 86399999), "neg": (2020, 60, 0),
        "plus": (2020, 59, 86399999), "zeropad": (2019, 60, 1), "exp": (2024, 61, 43200000), "tiny": (2048, 366, 0),
        "negzero": (2020, 366, 86399999)}


def class_value(leaf, cls, h, tables):
    k, w, t = leaf["k"], leaf["w"], leaf["t"]
    if t:
        codes = [c for _, c in tables[t]]
        c = codes[(CLASSES.index(cls) + h) % len(codes)] if cls in CLASSES else codes[h % len(codes)]
        return int(c) if k in ("u8", "u16", "u32", "u64") else c
    if k == "ai":
        return ai_token(cls, w, h)
    if k == "af":
        return af_token(cls, w, h)
    if k == "ac":
        return (af_token(cls, w // 2, h), af_token(CLASSES[(CLASSES.index(cls) + 3) % len(CLASSES)], w // 2, h >> 9))
    if k == "s":
        return s_token(cls, w, h)
    if k == "flag":
        return {"zero": 0, "one": 1}.get(cls, bin_token(cls, w, h))
    if k in ("u8", "u16", "u32", "u64"):
        return bin_token(cls, w, h)
    if k == "ydms":
        return YDMS.get(cls, (2014 + h % 36, 1 + (h >> 8) % 365, (h >> 20) % 86400000))
    if k == "ydus":
        return {"zero": 0, "one": 1, "max": 86399999999}.get(cls, (h >> 4) % 86400000000)
    return None


def make_plan(k, seed, tables, random_classes=None):
    """-> plan callable for product.build_product; classes rotate with the field ordinal (file order) + line/element"""
    ordinals = {}

    def plan(filekey, recname, nth, path, leaf, line):
        if leaf["r"] not in ("value",):
            return NOTSET  # constrained fields keep their valid (special / typical) values
        key = (filekey, recname, nth)
        d = ordinals.setdefault(key, {})
        o = d.setdefault(path, len(d))
        base = path.split(".")[0]
        j = 0 if (filekey.startswith("IMG") and base in product.PER_FILE_CONSTANT) else line
        if random_classes is not None:
            cls = random_classes.choice(CLASSES)
        else:
            cls = CLASSES[(o + j + k) % len(CLASSES)]
        h = h32(seed, k, filekey, recname, nth, path, j)
        return class_value(leaf, cls, h, tables)

    return plan
