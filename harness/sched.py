"""Deterministic thread scheduler over the yield points of the vtrace filesystem (open / seek / read / close).

Every file-system operation of a registered worker thread parks before it executes; the controller releases exactly one
parked thread per step of a SCRIPT (a sequence of thread names, e.g. from a TLC behaviour).  A thread that is alive but not
parked after a quiescence wait is blocked elsewhere (on the variable's lock, whose holder is parked): the step naming it is
SKIPPED, never failed.  Only the REALISED order of events is recorded (by tracefs) and judged.  All live threads unparked
with no progress = deadlock."""
import threading
import time

from . import tracefs


class Scheduler:
    def __init__(self, quiesce=0.02, step_timeout=2.0):
        self.cv = threading.Condition()
        self.parked = {}  # thread ident -> event dict
        self.go = set()  # thread idents released for exactly one operation
        self.names = {}  # ident -> name
        self.finished = set()
        self.quiesce = quiesce
        self.step_timeout = step_timeout
        self.realised = []
        self.skipped = 0
        self.active = True

    # called by tracefs from worker threads
    def yield_point(self, ev):
        tid = threading.get_ident()
        if tid not in self.names or not self.active:
            return
        with self.cv:
            self.parked[tid] = ev
            self.cv.notify_all()
            while tid not in self.go and self.active:
                self.cv.wait(0.05)
            self.go.discard(tid)
            self.parked.pop(tid, None)
            self.realised.append((self.names[tid], ev["e"]))
            self.cv.notify_all()

    def run(self, workers, script, drain_timeout=20.0):
        """workers: {name: callable}; script: list of names. -> dict(results, errors, deadlock, realised, skipped)"""
        results, errors = {}, {}
        threads = {}

        def wrap(name, fn):
            def body():
                self.names[threading.get_ident()] = name
                try:
                    results[name] = fn()
                except BaseException as e:  # noqa: B902
                    errors[name] = f"{type(e).__name__}: {str(e)[:160]}"
                finally:
                    with self.cv:
                        self.finished.add(name)
                        self.cv.notify_all()
            return body

        tracefs.SCHED[0] = self
        try:
            for name, fn in workers.items():
                t = threading.Thread(target=wrap(name, fn), daemon=True)
                threads[name] = t
                t.start()
            ident_of = lambda name: next((i for i, n in self.names.items() if n == name), None)  # noqa: E731

            def wait_parked(name, timeout):
                t0 = time.time()
                with self.cv:
                    while time.time() - t0 < timeout:
                        i = ident_of(name)
                        if name in self.finished:
                            return False
                        if i is not None and i in self.parked and i not in self.go:
                            return True
                        self.cv.wait(0.005)
                return False

            def release(name):
                i = ident_of(name)
                with self.cv:
                    self.go.add(i)
                    self.cv.notify_all()
                    t0 = time.time()
                    while i in self.go and time.time() - t0 < self.step_timeout:
                        self.cv.wait(0.005)
                # let the thread run on to its next yield point (or finish / block)
                t0 = time.time()
                while time.time() - t0 < self.quiesce:
                    with self.cv:
                        if name in self.finished or (i in self.parked):
                            break
                    time.sleep(0.001)

            for name in script:
                if name in self.finished:
                    self.skipped += 1
                    continue
                if wait_parked(name, self.quiesce * 3):
                    release(name)
                else:
                    self.skipped += 1
            # drain: release whoever is parked until everyone finished
            t0 = time.time()
            last_progress = time.time()
            deadlock = False
            while len(self.finished) < len(workers):
                with self.cv:
                    parked_names = [self.names[i] for i in self.parked if i not in self.go]
                if parked_names:
                    release(sorted(parked_names)[0])
                    last_progress = time.time()
                else:
                    time.sleep(0.005)
                    if time.time() - last_progress > drain_timeout / 2 and len(self.finished) < len(workers):
                        deadlock = True
                        break
                if time.time() - t0 > drain_timeout:
                    deadlock = True
                    break
        finally:
            self.active = False
            with self.cv:
                self.cv.notify_all()
            tracefs.SCHED[0] = None
        for t in threads.values():
            t.join(timeout=2.0)
        return {"results": results, "errors": errors, "deadlock": deadlock, "realised": list(self.realised), "skipped": self.skipped}
