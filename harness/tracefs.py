"""`vtrace://` -- a from-scratch in-memory fsspec filesystem that records every request.

It is the observation point the properties name ("an instrumented filesystem that records every open/seek/read with
offsets and sizes"): events  cat / fopen / seek / read / fclose  with file, handle id, offsets and sizes, in program
order per thread.  It can serve truncated or missing files (fault injection) and owns the yield points of the
deterministic thread scheduler used for C19."""
import io
import threading

import fsspec
from fsspec.spec import AbstractFileSystem

_lock = threading.RLock()
STORE = {}  # normalised absolute path -> bytes
LOG = []  # events (dicts)
FAULT_LEN = {}  # path -> served length (truncation)
_handle = [0]
SCHED = [None]  # optional scheduler: object with .yield_point(kind, info)
SHARED = set()  # product roots whose files are ONE file object per path, handed out (rewound) by every open and never really closed:
#                 the semantics of fsspec's own memory:// filesystem, on which only the caller's locking keeps two readers apart
_shared = {}
BUFFERED = set()  # product roots whose files are AbstractBufferedFile objects (object-store style: one range request per read)
STREAMING = set()  # product roots whose files are streams with short reads whatever block size was asked for
STALL = {}  # path -> [seconds, how many reads still stall]: a request that hangs for a long while (a stalled connection), after the seek
JITTER = [0.0]  # seconds slept at the start of every read (after the seek that positioned it): lets the threads an implementation may
#                 use internally interleave on a handle they share; harmless for a single reader
BIGREAD = {}  # path -> [limit, times fired]: a read request above `limit` bytes fails with MemoryError (a memory-limited process, a container
#                 cgroup): persistent for big requests, small requests are served
FLAKY = []  # armed one-shot transient faults: dict(path, op "read" | "cat", nth, consume, exc); see arm_fault()
DENY = set()  # product roots under which a MISSING object is reported as PermissionError (an object store that answers 403 for
#               keys that do not exist when listing is not permitted) instead of FileNotFoundError


def _missing(path):
    if any(path.startswith(r + "/") for r in DENY):
        return PermissionError(13, "access denied (object missing or not readable)", path)
    return FileNotFoundError(path)


def norm(path):
    path = str(path)
    if path.startswith("vtrace://"):
        path = path[len("vtrace://"):]
    return "/" + path.strip("/")


def reset_log():
    with _lock:
        LOG.clear()


def take_log():
    with _lock:
        out = list(LOG)
        LOG.clear()
    return out


def put_product(root, files):
    root = norm(root)
    with _lock:
        for name, data in files.items():
            STORE[f"{root}/{name}"] = bytes(data)
    return "vtrace://" + root


def remove(root, name=None):
    root = norm(root)
    with _lock:
        for k in [k for k in STORE if (k == f"{root}/{name}" if name else k.startswith(root + "/"))]:
            del STORE[k]
            FAULT_LEN.pop(k, None)


def set_fault_len(root, name, length):
    with _lock:
        FAULT_LEN[f"{norm(root)}/{name}"] = length


def clear_faults():
    with _lock:
        FAULT_LEN.clear()


def arm_fault(root, name, op="read", nth=1, consume=0.5, exc=ConnectionResetError):
    """the nth `op` on that file (counted from now) fails ONCE with a transient OSError; a failing read first consumes
    `consume` x the requested bytes (the position moves, as on a stream that breaks half way)"""
    with _lock:
        FLAKY.append({"path": f"{norm(root)}/{name}", "op": op, "nth": nth, "seen": 0, "consume": consume, "exc": exc, "fired": False})


def clear_flaky():
    with _lock:
        fired = [f for f in FLAKY if f["fired"]]
        FLAKY.clear()
    return fired


def _fault_for(path, op):
    with _lock:
        for f in FLAKY:
            if f["path"] == path and f["op"] == op and not f["fired"]:
                f["seen"] += 1
                if f["seen"] == f["nth"]:
                    f["fired"] = True
                    return f
    return None


def _content(path):
    data = STORE[path]
    n = FAULT_LEN.get(path)
    return data if n is None else data[:n]


LOG_CAP = 200000   # an implementation stuck in a read loop must not exhaust the memory of the worker (and the result pipe) with its events


def _emit(ev):
    ev["t"] = threading.get_ident()
    s = SCHED[0]
    if s is not None:
        s.yield_point(ev)
    with _lock:
        if len(LOG) < LOG_CAP:
            ev["seq"] = len(LOG)
            LOG.append(ev)


def base(path):
    return path.rsplit("/", 1)[-1]


class TracedFile(io.BytesIO):
    def __init__(self, path, data, dribble=0):
        super().__init__(data)
        self._path = path
        self._dribble = dribble   # > 0: a stream that hands out at most that many bytes per read
        with _lock:
            _handle[0] += 1
            self._h = _handle[0]
        self._closed_logged = False
        _emit({"e": "fopen", "h": self._h, "f": base(path), "path": path})

    def seek(self, off, whence=0):
        _emit({"e": "seek", "h": self._h, "f": base(self._path), "off": off, "whence": whence})
        return super().seek(off, whence)

    def read(self, size=-1):
        if JITTER[0]:
            import time

            time.sleep(JITTER[0])
        if STALL and self._path in STALL and STALL[self._path][1] > 0:
            import time

            STALL[self._path][1] -= 1
            time.sleep(STALL[self._path][0])
        if BIGREAD and self._path in BIGREAD:
            lim = BIGREAD[self._path]
            n_ = (len(self.getvalue()) - self.tell()) if size is None or size < 0 else size
            if n_ > lim[0]:
                lim[1] += 1
                _emit({"e": "fault", "h": self._h, "f": base(self._path), "pos": self.tell(), "req": -1 if size is None else size, "moved": 0})
                raise MemoryError(f"cannot allocate {n_} bytes (limit injected by the tracing filesystem)")
        flt = _fault_for(self._path, "read") if FLAKY else None
        if flt is not None:
            pos = self.tell()
            n = (len(self.getvalue()) - pos) if size is None or size < 0 else size
            super().read(int(n * flt["consume"]))
            _emit({"e": "fault", "h": self._h, "f": base(self._path), "pos": pos, "req": -1 if size is None else size, "moved": int(n * flt["consume"])})
            raise flt["exc"](104, "transient I/O error injected by the tracing filesystem")
        pos = self.tell()
        ev = {"e": "read", "h": self._h, "f": base(self._path), "pos": pos, "req": -1 if size is None else size}
        s = SCHED[0]
        if s is not None:
            # the request is decided before the yield, the bytes are served after it (file-system semantics)
            ev["t"] = threading.get_ident()
            s.yield_point(ev)
            pos = self.tell()
            ev["pos"] = pos
        if self._dribble and (size is None or size < 0 or size > self._dribble):
            size = self._dribble
        data = super().read(size)
        ev["got"] = len(data)
        if s is None:
            _emit(ev)
        else:
            with _lock:
                if len(LOG) < LOG_CAP:
                    ev["seq"] = len(LOG)
                    LOG.append(ev)
        return data

    def readinto(self, b):
        """a read by another name: served through read() so that it is observed (and scheduled) like one"""
        data = self.read(len(b))
        n = len(data)
        b[:n] = data
        return n

    def read1(self, size=-1):
        return self.read(size)

    def readall(self):
        return self.read(-1)

    def close(self):
        if not self._closed_logged:
            self._closed_logged = True
            _emit({"e": "fclose", "h": self._h, "f": base(self._path)})
        super().close()

    def __del__(self):
        # a handle that is garbage collected without close() is NOT logged as closed (handle-leak detection)
        pass


class TracedBuffered(fsspec.spec.AbstractBufferedFile):
    """the file object of object stores (s3 / gcs / http style): every read is a range request of its own"""

    def __init__(self, fs, path, data):
        self._data = data
        with _lock:
            _handle[0] += 1
            self._h = _handle[0]
        super().__init__(fs, path, mode="rb", block_size=0, cache_type="none", size=len(data))
        _emit({"e": "fopen", "h": self._h, "f": base(path), "path": path})

    def _fetch_range(self, start, end):
        out = self._data[start:end]
        _emit({"e": "read", "h": self._h, "f": base(self.path), "pos": start, "req": end - start, "got": len(out)})
        return out

    def close(self):
        if not self.closed:
            _emit({"e": "fclose", "h": self._h, "f": base(self.path)})
        super().close()


class SharedTracedFile(TracedFile):
    def reopen(self):
        io.BytesIO.seek(self, 0)
        _emit({"e": "fopen", "h": self._h, "f": base(self._path), "path": self._path})
        return self

    def close(self):
        _emit({"e": "fclose", "h": self._h, "f": base(self._path)})


class TraceFS(AbstractFileSystem):
    protocol = "vtrace"
    root_marker = "/"
    cachable = True  # like most fsspec filesystems: one instance per (protocol, options) -- code keyed on the instance sees ONE filesystem

    @classmethod
    def _strip_protocol(cls, path):
        return norm(path)

    def _ls_dict(self, path):
        path = norm(path)
        out = {}
        with _lock:
            for k in STORE:
                if k.startswith(path.rstrip("/") + "/"):
                    rest = k[len(path.rstrip("/")) + 1:]
                    head = rest.split("/", 1)[0]
                    full = path.rstrip("/") + "/" + head
                    if "/" in rest:
                        out[full] = {"name": full, "size": 0, "type": "directory"}
                    else:
                        out[full] = {"name": full, "size": len(_content(k)), "type": "file"}
        return out

    def ls(self, path, detail=True, **kwargs):
        path = norm(path)
        with _lock:
            if path in STORE:
                ent = [{"name": path, "size": len(_content(path)), "type": "file"}]
            else:
                ent = list(self._ls_dict(path).values())
                if not ent:
                    raise _missing(path)
        return ent if detail else [e["name"] for e in ent]

    def info(self, path, **kwargs):
        path = norm(path)
        with _lock:
            if path in STORE:
                return {"name": path, "size": len(_content(path)), "type": "file"}
            if self._ls_dict(path) or path == "/":
                return {"name": path, "size": 0, "type": "directory"}
        raise _missing(path)

    def cat_file(self, path, start=None, end=None, **kwargs):
        path = norm(path)
        with _lock:
            if path not in STORE:
                raise _missing(path)
            data = _content(path)
        flt = _fault_for(path, "cat") if FLAKY else None
        if flt is not None:
            _emit({"e": "fault", "f": base(path), "op": "cat"})
            raise flt["exc"](110, "transient I/O error injected by the tracing filesystem")
        _emit({"e": "cat", "f": base(path), "path": path, "got": len(data[start:end])})
        return data[start:end]

    def _open(self, path, mode="rb", block_size=None, autocommit=True, cache_options=None, **kwargs):
        path = norm(path)
        if "r" not in mode:
            # a reader has no business writing into the product's store: observed, and refused the way a read-only bucket refuses it
            _emit({"e": "write-attempt", "f": base(path), "path": path, "mode": mode})
            raise PermissionError(13, "the tracing store is read-only (write attempt observed)", path)
        with _lock:
            if path not in STORE:
                raise _missing(path)
            data = _content(path)
            shared = any(path.startswith(r + "/") for r in SHARED)
            f = _shared.get(path) if shared else None
        if shared:
            if f is None or f.getvalue() != data:
                f = _shared[path] = SharedTracedFile(path, data)
                return f
            return f.reopen()
        if any(path.startswith(r + "/") for r in BUFFERED):
            return TracedBuffered(self, path, data)
        if block_size == 0 or any(path.startswith(r + "/") for r in STREAMING):
            # a caller that asks for an unbuffered stream gets one (as the http file system does): reads may come up short
            return TracedFile(path, data, dribble=200)
        return TracedFile(path, data)

    def pipe_file(self, path, value, **kwargs):
        with _lock:
            STORE[norm(path)] = bytes(value)

    def rm_file(self, path):
        with _lock:
            STORE.pop(norm(path), None)

    def created(self, path):
        return None

    def modified(self, path):
        return None


def register():
    fsspec.register_implementation("vtrace", TraceFS, clobber=True)


register()
