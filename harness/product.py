"""Whole synthetic products: value plans over the layout, summary text, file naming.

A *plan* assigns to every field of every record a token (the text / integer actually written).  Plans are
deterministic functions of (seed, record, path, class); the ground truth is kept in the builders."""
import hashlib
import struct

from . import layout as L
from .synth import FileBuilder

# ---------------------------------------------------------------------------------------------------------
# constrained fields: what the format requires there (codes, date-time texts); everything else is free
# ---------------------------------------------------------------------------------------------------------
PER_FILE_CONSTANT = {  # line-prefix fields that are constants of the file (surface once, as group attributes)
    "sar_image_data_record_index", "sensor_parameters_update_flag", "scan_id", "sar_channel_code",
    "sar_channel_id", "onboard_range_compressed_flag", "chirp_type_designator",
    "platform_position_parameters_update_flag", "geographic_reference_parameter_update_flag",
    "transmitted_pulse_polarization", "received_pulse_polarization", "alos2_frame_number",
}


def h32(*parts):
    return int.from_bytes(hashlib.sha256("|".join(map(str, parts)).encode()).digest()[:8], "big")


def compact_time(y, mo, d, hh, mm, ss, frac_digits, width):
    return f"{y:04d}{mo:02d}{d:02d}{hh:02d}{mm:02d}{ss:02d}{frac_digits}"


def float_text(h, w, style=None):
    """a distinct, exactly representable-in-text float token fitting w characters"""
    sign = "-" if (h >> 3) & 1 else ""
    mant = 1 + (h >> 8) % 8999
    if w >= 14:
        style = style if style is not None else (h >> 5) % 3
        if style == 0:
            return f"{sign}{mant / 1000:.7f}E+{(h >> 20) % 6:02d}"[:w]
        if style == 1:
            return f"{sign}{mant / 1000:.6f}e-{(h >> 20) % 6:02d}"[:w]
        return f"{sign}{mant}.{(h >> 24) % 1000:03d}"
    return f"{sign}{mant % 100}.{(h >> 24) % 100:02d}"[:w]


def int_text(h, w):
    if w <= 1:
        return str(h % 2)
    v = h % (10 ** min(w - 1, 9))
    if w >= 4 and (h >> 40) & 1:
        t = f"-{v % (10 ** min(w - 2, 9))}"
        return "-2" if t == "-1" else t  # -1 is the reader's 'blank' marker: never write it as a value
    return str(v)


ALNUM = "ABCDEFGHIJKLMNOPQRSTUVWXYZ0123456789"


def str_text(h, w):
    n = 1 + h % min(w, 40)
    return "".join(ALNUM[(h >> (5 * (i % 10)) ^ i * 7) % 36] for i in range(n))


def typical_value(leaf, key, tables):
    """a valid, distinct token for a leaf (role-aware): returns the value to hand to enc()"""
    k, w, r, t = leaf["k"], leaf["w"], leaf["r"], leaf["t"]
    h = h32(*key)
    if t:
        codes = [c for _, c in tables[t]]
        c = codes[h % len(codes)]
        return int(c) if k in ("u8", "u16", "u32", "u64") else c
    if k == "ai":
        return int_text(h, w)
    if k == "af":
        return float_text(h, w)
    if k == "ac":
        return (float_text(h, w // 2), float_text(h >> 7, w // 2))
    if k == "s":
        return str_text(h, w) if w > 0 else ""
    if k == "flag":
        return h % 2
    if k in ("u8", "u16", "u32", "u64"):
        return h % (1 << (8 * w))
    if k == "ydms":
        return (2014 + h % 30, 1 + (h >> 8) % 365, (h >> 20) % 86400000)
    if k == "ydus":
        return (h >> 4) % 86400000000
    if k in ("bytes", "pixels"):
        return None
    raise ValueError(k)


# special fields (by record name, path suffix) -> generator(h) of a valid token
def special_value(recname, path, leaf, h, ctx):
    base = path.split(".")[-1]
    if recname == "dataset_summary" and base == "scene_center_time":
        return ctx.get("scene_center_time", "20200229235959999")
    if recname == "volume_descriptor" and base == "logical_volume_creation_datetime":
        return ctx.get("creation_datetime", "2020030112000000")
    if recname == "platform_position":
        if path == "datetime_of_first_point.date":
            return ctx.get("pp_date", "2020 02 29")
        if path == "datetime_of_first_point.day_of_year":
            return ctx.get("pp_doy", 60)
        if path == "datetime_of_first_point.seconds_of_day":
            return ctx.get("pp_sod", "86399.9990000000000000")
        if base == "occurrence_flag_of_a_leap_second":
            return h % 2
    if recname == "attitude":
        if base == "day_of_year":
            return ctx.get("att_doy", 60)
        if base == "millisecond_of_day":
            return ctx.get("att_ms", 86399999)
        if base in ("pitch_error", "roll_error", "yaw_error"):
            return h % 2
    if recname == "map_projection" and base == "map_projection_designator":
        return ctx.get("designator", "UTM-PROJECTION")
    if recname == "facility_related_data_5" and base == "prf_switching_flag":
        return h % 2
    if recname == "file_descriptor" and base == "sar_data_format_type_code":
        return ctx["type_code"]
    return None


class Built:
    """a built product: files (name -> bytes), builders (name -> FileBuilder), names and metadata"""

    def __init__(self):
        self.files = {}
        self.builders = {}
        self.images = []  # dicts: name, group, kind, n, p, bps, salt, prefix
        self.summary_lines = []
        self.meta = {}

    def write(self, directory):
        import os

        os.makedirs(directory, exist_ok=True)
        for name, data in self.files.items():
            if "/" in name:  # clutter below the product directory (an earlier delivery kept in a subfolder, ...)
                os.makedirs(os.path.join(directory, os.path.dirname(name)), exist_ok=True)
            with open(os.path.join(directory, name), "wb") as f:
                f.write(data)
        return directory


def pixel_bytes(kind, n, p, salt, special=True):
    """sample matrix where every sample names its own cell; returns (bytes per line list, matrix of raw words)"""
    lines = []
    if kind == "processed":  # IU2
        for r in range(n):
            vals = [(salt + r * p + c) % 65536 for c in range(p)]
            lines.append(vals)
        if special and n * p >= 2:
            lines[0][0] = 0
            lines[-1][-1] = 65535
        return [struct.pack(f">{p}H", *row) for row in lines], lines
    # C*8: (re, im) float32 pairs; cell id in re, -(id)-0.5 in im; special bit patterns forced in
    specials = [
        (0x80000000, 0x00000000), (0x00000000, 0x80000000), (0x7F800000, 0xFF800000), (0x7FC00000, 0x3F800000),
        (0x3F800000, 0x7FC00001), (0xFFC12345, 0x7F812345), (0x00000001, 0x807FFFFF), (0x7F7FFFFF, 0xFF7FFFFF),
        (0x80000000, 0x80000000), (0xFF800000, 0x7F800000),
    ]
    raw = []
    out = []
    k = 0
    for r in range(n):
        row = []
        for c in range(p):
            cid = salt + r * p + c
            re_bits = struct.unpack(">I", struct.pack(">f", float(cid % 1000003)))[0]
            im_bits = struct.unpack(">I", struct.pack(">f", -float(cid % 1000003) - 0.5))[0]
            row.append((re_bits, im_bits))
        raw.append(row)
    if special:
        cells = [(r, c) for r in range(n) for c in range(p)]
        step = max(1, len(cells) // len(specials))
        for i, sp in enumerate(specials):
            j = i * step
            if j < len(cells) and (i == 0 or step > 0) and (i * step < len(cells)):
                r, c = cells[j]
                raw[r][c] = sp
    for row in raw:
        out.append(b"".join(struct.pack(">II", a, b) for a, b in row))
    return out, raw


# level 1.0 (raw signal data, type code CI*2 = one signed byte each for I and Q; signal data records like level 1.1): the pinned reader
# refuses the type code ("for now, level 1.1, 1.5, and 3.1 only") -- kept so that a reader that starts to accept it is held to the properties
LEVELS = {"1.1": ("signal", 8, "C*8"), "1.5": ("processed", 2, "IU2"), "3.1": ("processed", 2, "IU2"), "1.0": ("signal", 2, "CI*2")}


def image_filename(pol, scene_id, product_id, scan=None):
    s = f"IMG-{pol}-{scene_id}-{product_id}"
    return s + (f"-{scan}" if scan else "")


def group_name(pol, scan):
    return pol + (f"_scan{scan[1]}" if scan else "")


def fill_builder(fb, filekey, seed, ctx, type_code, tables, plan=None, overrides=None, drift=False, vary_constants=False, desc_key=None):
    """write a valid, distinct token into every value field of every record of one file builder.
    drift: per-line binary numeric fields of an image change by ONE unit from line to line (slowly varying geometry: a look angle
    moving by 1e-6 degree per line) instead of being unrelated from line to line"""
    overrides = overrides or {}
    inst = fb.inst
    counts = {}
    for r, rec in enumerate(inst["records"]):
        nth = counts.get(rec["name"], 0)
        counts[rec["name"]] = nth + 1
        declared = {(rr - 1, pp) for rr, pp, _ in inst["declared"]}
        for line in range(rec.get("count", 1)):
            for path, (off, leaf, arr) in fb.index[r].items():
                if (r, path) in declared:
                    continue
                role = leaf["r"]
                if role in ("preamble", "pixels"):
                    continue
                if role == "spare":
                    continue
                # vary_constants: the fields the reader surfaces once per file (update flags, channel ids, ...) CHANGE along the lines of
                # this file (an update flag raised on some lines is what the flag is for); the reader keeps the first line's value
                lkey = line if (vary_constants or not (filekey.startswith("IMG") and path.split(".")[0] in PER_FILE_CONSTANT)) else 0
                # desc_key: the images of one product carry the SAME file descriptor (as the polarisations of a real scene do)
                fkey = desc_key if (desc_key and rec["name"] == "file_descriptor") else filekey
                h = h32(seed, fkey, rec["name"], nth, path, lkey)
                c = dict(ctx, type_code=type_code)
                v = special_value(rec["name"], path, leaf, h, c)
                if v is None:
                    numeric_line = leaf["k"] in ("u16", "u32", "u64") and not leaf["t"] and rec["name"] == "line"
                    if drift and numeric_line:
                        v0 = typical_value(leaf, (seed, fkey, rec["name"], nth, path, 0), tables) % (1 << (8 * leaf["w"] - 1))
                        d = int(drift)
                        if d == 1:      # a slow ramp: one unit per line
                            v = v0 + lkey
                        elif d == 2:    # plateaus that RETURN to an earlier value (a PRF switched and switched back): A A B B A A B ...
                            v = v0 + (5 if (lkey // 2) % 2 else 0)
                        elif d == 3:    # a ramp that is regular except at one line
                            v = v0 + 7 * lkey + (3 if lkey == 11 else 0)
                        else:           # constant column
                            v = v0
                    else:
                        v = typical_value(leaf, (seed, fkey, rec["name"], nth, path, lkey), tables)
                if plan is not None:
                    pv = plan(filekey, rec["name"], nth, path, leaf, line)
                    if pv is not NOTSET:
                        v = pv
                if (filekey, rec["name"], nth, path) in overrides:
                    v = overrides[(filekey, rec["name"], nth, path)]
                fb.put(r, path, v, line=line)


def build_product(level="1.5", images=(("HH", None, 5, 4),), seed=0, leader=None, nfp=None, scene_id="ALOS2014410740-140829",
                  product_id=None, ctx=None, overrides=None, line_overrides=None, summary_extra=None, plan=None,
                  pixel_special=True, blank=None, kind=None, sample=None, salt_base=None, informational=None, drift=False, vary_first=False, common_descriptor=False,
                  shape_pairs="all"):
    """build a complete product.

    images: sequence of (pol, scan|None, n_lines, n_pixels)
    overrides: {(file key, record name, nth, path): value}   file key in {"VOL","LED","TRL", image file name}
    line_overrides: {(image index, line, path): value}
    plan: optional callable(filekey, recname, nth, path, leaf, line) -> value or NOTSET
    """
    ctx = dict(ctx or {})
    tables = L.tables()
    lkind, bps, type_code = LEVELS[level]
    kind = kind or lkind  # line-record type (prefix length) and sample type are independent in the format
    if sample is not None:
        type_code = sample
        bps = {"C*8": 8, "IU2": 2, "CI*2": 2}[sample]
    skind = "signal" if type_code == "C*8" else "processed"  # which sample encoder to use
    if product_id is None:
        product_id = {"1.1": "WWDR1.1__D", "1.5": "WBDR1.5RUD", "3.1": "FBDR3.1GUA", "1.0": "HBQR1.0__A"}[level]
    b = Built()
    b.meta = dict(level=level, scene_id=scene_id, product_id=product_id, seed=seed)
    overrides = dict(overrides or {})
    line_overrides = dict(line_overrides or {})

    first_image = [None]

    def fill(fb, filekey):
        if filekey.startswith("IMG") and first_image[0] is None:
            first_image[0] = filekey
        fill_builder(fb, filekey, seed, ctx, type_code, tables, plan=plan, overrides=overrides, drift=drift if filekey.startswith("IMG") else 0,
                     vary_constants=bool(vary_first) and filekey == first_image[0], desc_key="IMG-descriptor" if common_descriptor and filekey.startswith("IMG") else None)

    # volume directory
    n_img = len(images)
    vol = FileBuilder(L.instance(file="volume", nfp=(n_img + 2) if nfp is None else nfp))
    fill(vol, "VOL")
    # leader
    lp = dict(L.SMALL_LEADER)
    if level in ("1.1", "1.0"):
        lp["nmap"] = 0
    lp.update(leader or {})
    led = FileBuilder(L.instance(**lp))
    fill(led, "LED")
    vol_name = f"VOL-{scene_id}-{product_id}"
    led_name = f"LED-{scene_id}-{product_id}"
    trl_name = f"TRL-{scene_id}-{product_id}"
    b.builders["VOL"], b.builders["LED"] = vol, led
    b.files[vol_name] = None
    b.files[led_name] = None
    names = [vol_name, led_name]
    # images
    for i, (pol, scan, n, p) in enumerate(images):
        name = image_filename(pol, scene_id, product_id, scan)
        fb = FileBuilder(L.instance(file="image", kind=kind, n=n, ndata=p * bps, bps=bps))
        fill(fb, name)
        salt = (1 + (seed * 7919 + i * 104729) % 60000) if salt_base is None else salt_base + i * 1000
        rows, raw = pixel_bytes(skind, n, p, salt, special=pixel_special)
        for ln in range(n):
            fb.put(1, "data", rows[ln], line=ln)
        for (ii, ln, path), v in line_overrides.items():
            if ii == i:
                fb.put(1, path, v, line=ln)
        b.builders[name] = fb
        b.files[name] = None
        b.images.append(dict(name=name, group=group_name(pol, scan), kind=skind, linekind=kind, n=n, p=p, bps=bps, salt=salt,
                             prefix=fb.inst["records"][1]["len"] - p * bps, raw=raw, type_code=type_code, pol=pol,
                             scan=scan))
        names.append(name)
    # trailer (never read by open_alos2; present for completeness)
    trl = FileBuilder(L.instance(file="trailer", nlow=0, lens=[]))
    b.builders["TRL"] = trl
    names.append(trl_name)
    # blanking requests: {(filekey, recname, nth, path)} -> blank that field
    for key in blank or ():
        filekey, recname, nth, path = key
        fb = b.builders[filekey]
        fb.put(fb.rec(recname, nth), path, None)
    # declared-but-informational values (FileFormat!Informational): alternative number `informational` (0, 1, 2) of each
    if informational is not None:
        for fkey in ("VOL", "LED"):
            fb = b.builders[fkey]
            for r, path, alts in fb.inst.get("informational", []):
                fb.put(r - 1, path, alts[informational % len(alts)])
    b.files[vol_name] = vol.bytes()
    b.files[led_name] = led.bytes()
    for im in b.images:
        b.files[im["name"]] = b.builders[im["name"]].bytes()
    b.files[trl_name] = trl.bytes()
    b.names = dict(vol=vol_name, led=led_name, trl=trl_name, images=[im["name"] for im in b.images])
    b.summary_lines = summary_lines(b, names, level, summary_extra, shape_pairs)
    b.files["summary.txt"] = ("\n".join(b.summary_lines) + "\n").encode()
    return b


class _NotSet:
    def __repr__(self):
        return "NOTSET"


NOTSET = _NotSet()


def summary_lines(b, names, level, extra=None, shape_pairs="all"):
    m = b.meta
    lv = level.replace(".", "")
    lines = [
        'Odi_SiteDateTime="20200301 120000"',
        f'Scs_SceneID="{m["scene_id"]}"',
        'Scs_SceneShift="0"',
        f'Pds_ProductID="{m["product_id"]}"',
        'Pds_ResamplingMethod="NN"',
        'Pds_UTM_ZoneNo="54"',
        'Pds_MapDirection="MapNorth"',
        'Pds_OrbitDataPrecision="Precision"',
        'Pds_AttitudeDataPrecision="Onboard"',
        'Pds_PixelSpacing="25.000000"',
        'Img_SceneCenterDateTime="20140829 03:04:05.678"',
        'Img_SceneStartDateTime="20140829 03:03:39.678"',
        'Img_SceneEndDateTime="20140829 03:04:31.678"',
        'Img_ImageSceneCenterLatitude="35.123"',
        'Img_OffNadirAngle="21.3"',
        'Pdi_ProductFormat="CEOS"',
        f'Pdi_CntOfL{lv}ProductFileName="{len(names)}"',
    ]
    for i, n in enumerate(names):
        lines.append(f'Pdi_L{lv}ProductFileName{i + 1:02d}="{n}"')
    lines.append('Pdi_BitPixel="16"')
    # the image sizes listed in the summary are informational (SummaryGrammar: class "shape"): one pair per image ("all"), no pair
    # ("none"), fewer pairs than images ("fewer": one per scan, say), more pairs than images ("more")
    k_img = len(b.images)
    n_pairs = {"all": k_img, "none": 0, "fewer": max(0, min(k_img - 1, max(1, k_img // 2))), "more": k_img + 2}[shape_pairs]
    for i in range(n_pairs):
        im = b.images[i] if i < k_img else {"p": 11 + i, "n": 7 + i}
        lines.append(f'Pdi_NoOfPixels_{i}="{im["p"]}"')
        lines.append(f'Pdi_NoOfLines_{i}="{im["n"]}"')
    lines += [
        'Pdi_ProductDataSize="1.5"',
        'Ach_TimeCheck="GOOD"',
        'Ach_AttitudeCheck=""',
        'Rad_PracticeResultCode="GOOD"',
        'Lbi_Satellite="ALOS2"',
        'Lbi_Sensor="SAR"',
        f'Lbi_ProcessLevel="{level}"',
        'Lbi_ProcessFacility="SCMO"',
        'Lbi_ObservationDate="20140829"',
    ]
    if extra:
        lines += list(extra)
    return lines
