"""TLAPS: machine-checked proofs of the unbounded chunk arithmetic (spec/ChunkProofs.tla)."""
import os
import re
import shutil
import subprocess
import tempfile

from . import checklib, tlc

MODULES = {
    "ChunkProofs": ("Chunking", ("Min(a, b)", "CeilDiv(a, b)", "NChunks(n, rpc)", "ChunkSize(n, rpc, i)", "SumFast(n, rpc, i)", "NormRpc(rpc, n)"),
                    "Cover, SumAll, SizesInRange, NormSame, RowInChunk for ALL n, rpc >= 1"),
    "IndexProofs": ("PyIndex", ("Clamp(v, s, n)", "Count(lo, hi, s)"),
                    "ClampRange, ProgPos, ProgNeg, CountBound: every position a slice selects lies on the axis, for ALL n, start, stop, step"),
}


def _defs(path, names):
    """definition texts (continuation lines included) with blanks normalised"""
    out = {}
    lines = open(path).read().splitlines()
    for i, ln in enumerate(lines):
        for d in names:
            if ln.startswith(d) and "==" in ln:
                txt = ln.split("\\*")[0]
                j = i + 1
                while j < len(lines) and lines[j].startswith("   ") and "==" not in lines[j].split("\\*")[0][:40].replace("<=", "").replace(">=", ""):
                    txt += " " + lines[j].split("\\*")[0]
                    j += 1
                out[d] = re.sub(r"\s+", " ", txt).strip()
    return out


def prove(chk, module="ChunkProofs"):
    """-> number of proof obligations discharged; the definitions proved about must be those of the TLC-checked module"""
    ref, names, what = MODULES[module]
    a, b = _defs(os.path.join(tlc.SPEC_DIR, ref + ".tla"), names), _defs(os.path.join(tlc.SPEC_DIR, module + ".tla"), names)
    if a != b or len(a) != len(names):
        raise checklib.Machinery(f"{module}.tla does not repeat the definitions of {ref}.tla verbatim: {a} vs {b}")
    d = tempfile.mkdtemp(prefix="tlaps_")
    try:
        shutil.copy(os.path.join(tlc.SPEC_DIR, module + ".tla"), d)
        p = subprocess.run(["tlapm", "--cleanfp", module + ".tla"], cwd=d, stdout=subprocess.PIPE, stderr=subprocess.STDOUT, text=True, timeout=1500)
    finally:
        shutil.rmtree(d, ignore_errors=True)
    m = re.search(r"All (\d+) obligations proved", p.stdout)
    if not m:
        raise checklib.Machinery(f"TLAPS did not prove {module}.tla:\n" + p.stdout[-1500:])
    n = int(m.group(1))
    chk.cov["obligations"] = chk.cov.get("obligations", 0) + n
    chk.cov["discharged"] = chk.cov.get("discharged", 0) + n
    chk.cov["checker_cmd"] = f"tlapm --cleanfp spec/{module}.tla"
    chk.note(f"TLAPS: all {n} obligations of {module}.tla proved ({what})")
    chk.rule_extra.append(f"proof: {n} TLAPS obligations of {module}.tla discharged ({what})")
    chk.assumptions.append(f"unbounded arithmetic: proved by TLAPS ({module}.tla), not only evaluated on TLC's finite family")
    return n
