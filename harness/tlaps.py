"""TLAPS: machine-checked proofs of what TLC only sees on a grid: the unbounded chunk arithmetic (ChunkProofs), slice positions (IndexProofs),
and the concurrent-load protocol for ANY number of threads (LoadsProofs, LoadsLockProofs: these EXTEND the TLC-checked Loads.tla itself)."""
import os
import re
import shutil
import subprocess
import tempfile

from . import checklib, tlc

MODULES = {
    "ChunkProofs": ("Chunking", ("Min(a, b)", "CeilDiv(a, b)", "NChunks(n, rpc)", "ChunkSize(n, rpc, i)", "SumFast(n, rpc, i)", "NormRpc(rpc, n)"),
                    "Cover, SumAll, SizesInRange, NormSame, RowInChunk for ALL n, rpc >= 1"),
    "IndexProofs": ("PyIndex", ("Clamp(v, s, n)", "Count(lo, hi, s)"),
                    "ClampRange, ProgPos, ProgNeg, CountBound: every position a slice selects lies on the axis, for ALL n, start, stop, step"),
    "CacheRuleProofs": (None, ("CacheRule",), "SourceKnown, NoConsultWhenDisabled, OnlyCompleteIndexes, UsableIsUsed, WritesOnlyWhenAsked: consequences of the cache rule for ALL cell states"),
    # proof modules that EXTEND the TLC-checked module: no definitions to compare; instead TLC evaluates the proof module's ASSUMEs on a
    # concrete instance (the assumptions are satisfiable, and the TLC configuration is an instance of the theorem)
    "LoadsProofs": (None, ("Loads",), "PrivateHandlesSafe: with a handle per load every read is served from the offset its own thread sought, for ANY threads and chunk counts",
                    """---- MODULE MC_LoadsProofs ----
EXTENDS LoadsProofs
V3 == (1 :> "v" @@ 2 :> "v" @@ 3 :> "w")
C3 == (1 :> 1 @@ 2 :> 2 @@ 3 :> 1)
====
""", """SPECIFICATION Spec
CONSTANTS
  Threads = {1, 2, 3}
  VarOf <- V3
  LockOf <- V3
  Chunks <- C3
  SharedHandle = FALSE
  UseLock = {uselock}
INVARIANT ServedIsWanted
CHECK_DEADLOCK FALSE
""", ("SharedHandle = FALSE", "SharedHandle = TRUE")),
    "LoadsLockProofs": (None, ("Loads",), "LockedSafe: with the lock of its variable taken by every load, mutual exclusion per variable and reads served from the own offset, "
                                           "for ANY threads, variables and chunk counts, shared or private handles",
                        """---- MODULE MC_LoadsLockProofs ----
EXTENDS LoadsLockProofs
V3 == (1 :> "v" @@ 2 :> "v" @@ 3 :> "w")
C3 == (1 :> 1 @@ 2 :> 2 @@ 3 :> 1)
====
""", """SPECIFICATION Spec
CONSTANTS
  Threads = {1, 2, 3}
  VarOf <- V3
  LockOf <- V3
  Chunks <- C3
  SharedHandle = TRUE
  UseLock = {uselock}
INVARIANT ServedIsWanted
INVARIANT MutualExclusion
CHECK_DEADLOCK FALSE
""", ("UseLock = TRUE", "UseLock = FALSE")),
}
STDLIB = "/opt/veriftools/tlapm/lib/tlapm/stdlib"


def _defs(path, names):
    """definition texts (continuation lines included) with blanks normalised"""
    out = {}
    lines = open(path).read().splitlines()
    for i, ln in enumerate(lines):
        for d in names:
            if ln.startswith(d) and "==" in ln:
                txt = ln.split("\\*")[0]
                j = i + 1
                while j < len(lines) and lines[j].startswith("   ") and "==" not in lines[j].split("\\*")[0][:40].replace("<=", "").replace(">=", ""):
                    txt += " " + lines[j].split("\\*")[0]
                    j += 1
                out[d] = re.sub(r"\s+", " ", txt).strip()
    return out


def _tlapm(module, cwd, timeout=2400):
    """tlapm in a session of its own: back-end provers that outlive their time-out (an SMT solver tlapm gave up on keeps running, with
    gigabytes of memory) are killed with the whole group when tlapm is done"""
    import signal

    proc = subprocess.Popen(["tlapm", "--cleanfp", "--stretch", "4", module + ".tla"], cwd=cwd, stdout=subprocess.PIPE, stderr=subprocess.STDOUT, text=True, start_new_session=True)
    try:
        out, _ = proc.communicate(timeout=timeout)
    except subprocess.TimeoutExpired:
        out = "tlapm timed out"
    finally:
        try:
            os.killpg(proc.pid, signal.SIGKILL)
        except ProcessLookupError:
            pass
        proc.wait()

    class R:
        stdout = out
        returncode = proc.returncode
    return R


def prove(chk, module="ChunkProofs"):
    """-> number of proof obligations discharged; the definitions proved about must be those of the TLC-checked module"""
    ent = MODULES[module]
    ref, names, what = ent[0], ent[1], ent[2]
    d = tempfile.mkdtemp(prefix="tlaps_")
    try:
        shutil.copy(os.path.join(tlc.SPEC_DIR, module + ".tla"), d)
        if ref is not None:
            a, b = _defs(os.path.join(tlc.SPEC_DIR, ref + ".tla"), names), _defs(os.path.join(tlc.SPEC_DIR, module + ".tla"), names)
            if a != b or len(a) != len(names):
                raise checklib.Machinery(f"{module}.tla does not repeat the definitions of {ref}.tla verbatim: {a} vs {b}")
        else:
            for dep in names:
                shutil.copy(os.path.join(tlc.SPEC_DIR, dep + ".tla"), d)
        p = _tlapm(module, d)
        if ref is None and "obligations proved" in p.stdout and len(ent) > 3:
            # the ASSUMEs of the proof module evaluated by TLC on a concrete instance; with the key assumption negated TLC must object
            mc, cfg, (good, bad) = ent[3], ent[4], ent[5]
            for f in ("TLAPS.tla", "SequenceTheorems.tla", "NaturalsInduction.tla", "WellFoundedInduction.tla", "FunctionTheorems.tla"):
                shutil.copy(os.path.join(STDLIB, f), d)
            open(os.path.join(d, f"MC_{module}.tla"), "w").write(mc)
            base = cfg.replace("{uselock}", "TRUE")
            assert good in base
            open(os.path.join(d, "good.cfg"), "w").write(base)
            open(os.path.join(d, "bad.cfg"), "w").write(base.replace(good, bad))
            rg = tlc.run(f"MC_{module}", "good", workers=2, cwd=d)
            if not rg.no_error:
                raise checklib.Machinery(f"the assumptions of {module}.tla do not hold on the TLC instance:\n" + rg.out[-1200:])
            chk.tlc_stats(rg)
            rb = tlc.run(f"MC_{module}", "bad", workers=2, cwd=d)
            if "Assumption" not in rb.out or rb.no_error:
                raise checklib.Machinery(f"negative control: TLC accepted an instance that contradicts an assumption of {module}.tla")
    finally:
        shutil.rmtree(d, ignore_errors=True)
    m = re.search(r"All (\d+) obligations proved", p.stdout)
    if not m:
        raise checklib.Machinery(f"TLAPS did not prove {module}.tla:\n" + p.stdout[-1500:])
    n = int(m.group(1))
    chk.cov["obligations"] = chk.cov.get("obligations", 0) + n
    chk.cov["discharged"] = chk.cov.get("discharged", 0) + n
    chk.cov["checker_cmd"] = f"tlapm --cleanfp spec/{module}.tla"
    chk.note(f"TLAPS: all {n} obligations of {module}.tla proved ({what})")
    chk.rule_extra.append(f"proof: {n} TLAPS obligations of {module}.tla discharged ({what})")
    chk.assumptions.append(f"unbounded arithmetic: proved by TLAPS ({module}.tla), not only evaluated on TLC's finite family")
    return n
