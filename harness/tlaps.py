"""TLAPS: machine-checked proofs of the unbounded chunk arithmetic (spec/ChunkProofs.tla)."""
import os
import re
import shutil
import subprocess
import tempfile

from . import checklib, tlc

DEFS = ("Min(a, b)", "CeilDiv(a, b)", "NChunks(n, rpc)", "ChunkSize(n, rpc, i)", "SumFast(n, rpc, i)", "NormRpc(rpc, n)")


def _defs(path):
    out = {}
    for ln in open(path):
        for d in DEFS:
            if ln.startswith(d) and "==" in ln:
                out[d] = re.sub(r"\s+", " ", ln.split("\\*")[0]).strip()
    return out


def prove(chk):
    """-> number of proof obligations discharged; the definitions proved about must be those of Chunking.tla"""
    a, b = _defs(os.path.join(tlc.SPEC_DIR, "Chunking.tla")), _defs(os.path.join(tlc.SPEC_DIR, "ChunkProofs.tla"))
    if a != b or len(a) != len(DEFS):
        raise checklib.Machinery(f"ChunkProofs.tla does not repeat the definitions of Chunking.tla verbatim: {a} vs {b}")
    d = tempfile.mkdtemp(prefix="tlaps_")
    try:
        shutil.copy(os.path.join(tlc.SPEC_DIR, "ChunkProofs.tla"), d)
        p = subprocess.run(["tlapm", "--cleanfp", "ChunkProofs.tla"], cwd=d, stdout=subprocess.PIPE, stderr=subprocess.STDOUT, text=True, timeout=1500)
    finally:
        shutil.rmtree(d, ignore_errors=True)
    m = re.search(r"All (\d+) obligations proved", p.stdout)
    if not m:
        raise checklib.Machinery("TLAPS did not prove ChunkProofs.tla:\n" + p.stdout[-1500:])
    n = int(m.group(1))
    chk.cov["obligations"] = chk.cov.get("obligations", 0) + n
    chk.cov["discharged"] = chk.cov.get("discharged", 0) + n
    chk.cov["checker_cmd"] = "tlapm --cleanfp spec/ChunkProofs.tla"
    chk.note(f"TLAPS: all {n} obligations of ChunkProofs.tla proved (Cover, SumAll, SizesInRange, NormSame, RowInChunk for ALL n, rpc >= 1)")
    chk.assumptions.append("unbounded chunk arithmetic: proved by TLAPS (ChunkProofs.tla), not only evaluated on TLC's grid")
    return n
