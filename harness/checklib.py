"""Shared scaffolding of the registered checks: tiers, seeds, scratch space, violations vs known findings,
replay files, evidence files (schema-validated before writing), exit codes.

exit 0  property held on everything explored (KNOWN-FINDING lines allowed)
exit 1  at least one VIOLATION line was printed
exit 2  machinery failure (TLC error, a negative control was accepted, oracle self-check failed)"""
import argparse
import atexit
import json
import os
import shutil
import sys
import tempfile
import time
import traceback

VERIF = os.path.dirname(os.path.dirname(os.path.abspath(__file__)))
EVIDENCE_SCHEMA = "/root/.vp/EVIDENCE.schema.json"
KNOWN_FILE = os.path.join(VERIF, "KNOWN_FINDINGS.txt")
# VERIF_OUT (self-validation only, tools/seed_matrix.py): evidence/ and replays/ of a run against a scratch worktree go there
OUT = os.environ.get("VERIF_OUT") or VERIF


class Machinery(Exception):
    pass


class Check:
    def __init__(self, pid, level="model_checking"):
        ap = argparse.ArgumentParser()
        ap.add_argument("--tier", default=os.environ.get("VERIF_TIER", "quick"), choices=["quick", "thorough"])
        ap.add_argument("--replay", default=None)
        ap.add_argument("--seed", type=int, default=int(os.environ.get("VERIF_SEED", "0") or 0))
        self.args, _ = ap.parse_known_args()
        self.pid = pid
        self.tier = self.args.tier
        self.seed = self.args.seed
        self.level = level
        self.t0 = time.time()
        self.violations = []  # (key, message, replay path)
        self.known_hits = {}
        self.cov = {"samples": [], "states": 0, "transitions": 0, "traces_validated_against_impl": 0, "evaluations": 0,
                    "distinct_nontrivial": 0}
        self._distinct = set()
        self.assumptions = []
        self.known = load_known(pid)
        self.scratch = tempfile.mkdtemp(prefix=f"verif_{pid}_")
        atexit.register(shutil.rmtree, self.scratch, True)
        self.replay_dir = os.path.join(OUT, "replays", pid)
        self.info = []
        self.rule_extra = []  # parts of the check that describe their own enumeration (sessions, proofs, stress, ...)

    # ---------------------------------------------------------------- bookkeeping
    def tlc_stats(self, res):
        self.cov["states"] += res.distinct
        self.cov["transitions"] += res.generated

    def count(self, n=1, nontrivial_key=None):
        self.cov["evaluations"] += n
        if nontrivial_key is not None and nontrivial_key not in self._distinct:
            self._distinct.add(nontrivial_key)
            self.cov["distinct_nontrivial"] = max(self.cov["distinct_nontrivial"], len(self._distinct))

    def sample(self, s, cap=6):
        if len(self.cov["samples"]) < cap:
            self.cov["samples"].append(s)

    def traces(self, n):
        self.cov["traces_validated_against_impl"] += n

    def note(self, msg):
        self.info.append(msg)
        print("INFO:", msg)

    # ---------------------------------------------------------------- verdicts
    def violation(self, key, message, replay=None):
        """report a failing case.  key identifies the failing input / call site / history (stable across runs)."""
        for k in self.known:
            if k["key"] == key or (k["key"].endswith("*") and key.startswith(k["key"][:-1])):
                if k["key"] not in self.known_hits:
                    self.known_hits[k["key"]] = (k, message)
                return False
        if len(self.violations) < 50:
            path = self.write_replay(key, message, replay)
            self.violations.append((key, message, path))
        else:
            self.violations.append((key, message, None))
        return True

    def write_replay(self, key, message, replay):
        os.makedirs(self.replay_dir, exist_ok=True)
        safe = "".join(c if c.isalnum() or c in "-_." else "_" for c in key)[:100]
        path = os.path.join(self.replay_dir, f"{safe}.json")
        with open(path, "w") as f:
            json.dump({"property": self.pid, "key": key, "message": message, "seed": self.seed, "tier": self.tier,
                       "case": jsonable(replay)}, f, indent=1, default=repr)
        return path

    # ---------------------------------------------------------------- finish
    def finish(self, rule, exhaustive=False, extra=None):
        for key, (k, msg) in self.known_hits.items():
            print(f"KNOWN-FINDING: property={self.pid} {k['text']} [{key}]")
        shown = 0
        for key, msg, path in self.violations:
            if path is None:
                continue
            print(f"VIOLATION property={self.pid} replay={path}")
            print(f"  {key}: {msg}")
            shown += 1
        cov = dict(self.cov)
        cov["rule"] = rule + ("  ||  " + "  |  ".join(self.rule_extra) if self.rule_extra else "")
        cov["exhaustive"] = bool(exhaustive)
        if extra:
            cov.update(extra)
        if not cov["samples"]:
            cov["samples"] = ["(no sample recorded)"]
        if self.level == "model_checking" and (cov["states"] < 1 or cov["transitions"] < 1):
            raise Machinery("model_checking evidence without TLC statistics")
        ev = {
            "property_id": self.pid,
            "tier": self.tier,
            "seed": self.seed,
            "level": self.level,
            "coverage": cov,
            "assumptions": self.assumptions,
            "wall_s": round(time.time() - self.t0, 2),
            "violations": len(self.violations),
            "known_findings_hit": sorted(self.known_hits),
            "info": self.info[:50],
        }
        write_evidence(self.pid, ev)
        print(f"{self.pid} {self.tier}: evaluations={cov['evaluations']} distinct_nontrivial={cov['distinct_nontrivial']} "
              f"states={cov['states']} traces={cov['traces_validated_against_impl']} violations={len(self.violations)} "
              f"known={len(self.known_hits)} wall={ev['wall_s']}s")
        sys.exit(1 if self.violations else 0)


def full_traceback(e):
    return "".join(traceback.format_exception(type(e), e, e.__traceback__))


def raised_inside_implementation(e):
    """innermost frames (also of a worker process: multiprocessing attaches the remote traceback as text) lie in ceos_alos2 -- the package
    under test, wherever it is checked out -- with no frame of /verif below the last ceos_alos2 frame"""
    text = full_traceback(e)
    cause = getattr(e, "__cause__", None)
    if cause is not None and hasattr(cause, "tb"):
        text = str(cause.tb)
    frames = [ln.strip() for ln in text.splitlines() if ln.strip().startswith('File "')]
    impl = [i for i, ln in enumerate(frames) if "/ceos_alos2/" in ln and "/ceos_alos2/tests/" not in ln]
    if not impl:
        return False
    # (the tracing filesystem below the implementation is the ENVIRONMENT answering it -- a refused write, an injected fault -- not harness logic)
    return not any((VERIF in ln or "/harness/" in ln or "/checks/" in ln) and "/harness/tracefs.py" not in ln for ln in frames[impl[-1] + 1:])


def jsonable(x):
    if isinstance(x, dict):
        return {(k if isinstance(k, (str, int, float, bool)) or k is None else repr(k)): jsonable(v) for k, v in x.items()}
    if isinstance(x, (list, tuple, set)):
        return [jsonable(v) for v in x]
    if isinstance(x, (bytes, bytearray)):
        return bytes(x).hex()
    return x


def write_evidence(pid, ev):
    import shutil as _sh
    import subprocess

    d = os.path.join(OUT, "evidence")
    os.makedirs(d, exist_ok=True)
    tmp = os.path.join(d, f".{pid}.json.tmp")
    with open(tmp, "w") as f:
        json.dump(ev, f, indent=1, default=repr)
    vt = _sh.which("python3-vt")
    if vt and os.path.exists(EVIDENCE_SCHEMA):  # jsonschema lives in the tooling venv, not in /venv
        code = ("import json,sys,jsonschema; jsonschema.validate(json.load(open(sys.argv[1])), "
                "json.load(open(sys.argv[2])))")
        p = subprocess.run([vt, "-c", code, tmp, EVIDENCE_SCHEMA], stdout=subprocess.PIPE, stderr=subprocess.STDOUT, text=True)
        if p.returncode != 0:
            raise Machinery("evidence does not validate against the schema:\n" + p.stdout[-1500:])
    os.replace(tmp, os.path.join(d, f"{pid}.json"))


def load_known(pid):
    """KNOWN_FINDINGS.txt lines:  finding: property=<id> key=<key> <text>   |   fixed: property=<id> <commit> <text>"""
    out = []
    if not os.path.exists(KNOWN_FILE):
        return out
    for ln in open(KNOWN_FILE):
        ln = ln.strip()
        if not ln.startswith("finding:"):
            continue
        parts = ln.split()
        d = dict(p.split("=", 1) for p in parts[1:3] if "=" in p)
        if d.get("property") == pid and "key" in d:
            out.append({"key": d["key"], "text": " ".join(parts[3:])})
    return out


def main(fn, pid, level="model_checking"):
    """run a check body fn(check) with the exit-code discipline"""
    chk = None
    try:
        chk = Check(pid, level)
        fn(chk)
        raise Machinery("check body did not call finish()")
    except SystemExit:
        raise
    except Exception as e:  # machinery failure: never a verdict
        traceback.print_exc()
        print(f"MACHINERY-FAILURE {pid}: {type(e).__name__}: {e}")
        if chk is not None and not chk.violations and raised_inside_implementation(e):
            # an exception that comes out of the implementation at a place where this check does not expect one (on the unchanged tree it
            # never does): the implementation refused something the check considers well formed.  It is attributed only when the innermost
            # frames belong to ceos_alos2 (or libraries it called) with no harness frame below them.
            chk.violation("unexpected-exception-from-implementation", f"{type(e).__name__}: {str(e)[:300]}", {"traceback": full_traceback(e)[-4000:]})
        if chk is not None and chk.violations:
            # violations with replay files were already established before the machinery broke (typically BECAUSE the implementation
            # is broken in a way a later part of the check did not expect): they stand
            chk.info.append(f"the check aborted after these violations: {type(e).__name__}: {str(e)[:300]}")
            chk.cov["states"] = max(chk.cov["states"], 1)
            chk.cov["transitions"] = max(chk.cov["transitions"], 1)
            try:
                chk.finish(rule="aborted by a machinery failure after violations had been found; coverage figures are partial")
            except SystemExit:
                raise
            except Exception:
                for key, msg, path in chk.violations:
                    if path:
                        print(f"VIOLATION property={pid} replay={path}")
                sys.exit(1)
        sys.exit(2)


# -------------------------------------------------------------------------------------------------------
# running the implementation in worker processes with a private user-cache directory
# -------------------------------------------------------------------------------------------------------
def worker_env(cache_home):
    env = dict(os.environ)
    env["XDG_CACHE_HOME"] = cache_home
    env["PYTHONHASHSEED"] = "0"
    env["PYTHONPATH"] = VERIF + os.pathsep + env.get("PYTHONPATH", "")
    env["PYTHONWARNINGS"] = "ignore"
    return env


def init_worker_cache(cache_home=None):
    """call BEFORE importing ceos_alos2 in a process (the cache root is computed at import)"""
    if "ceos_alos2" in sys.modules:
        raise Machinery("ceos_alos2 imported before the private cache directory was set")
    d = cache_home or tempfile.mkdtemp(prefix="verif_cache_")
    os.environ["XDG_CACHE_HOME"] = d
    if cache_home is None:
        atexit.register(shutil.rmtree, d, True)
    return d


# -------------------------------------------------------------------------------------------------------
# process pool whose workers import ceos_alos2 only after a private XDG_CACHE_HOME is in place
# -------------------------------------------------------------------------------------------------------
_WORKER_DIR = None


def _pool_init(base):
    global _WORKER_DIR
    import warnings

    warnings.simplefilter("ignore")
    _WORKER_DIR = tempfile.mkdtemp(prefix="w_", dir=base)
    os.environ["XDG_CACHE_HOME"] = os.path.join(_WORKER_DIR, "xdg_cache")
    os.makedirs(os.environ["XDG_CACHE_HOME"], exist_ok=True)
    if "ceos_alos2" in sys.modules:
        raise Machinery("ceos_alos2 imported in the parent before forking workers")


def worker_dir():
    """private scratch directory of the current worker process"""
    global _WORKER_DIR
    if _WORKER_DIR is None:
        _pool_init(tempfile.gettempdir())
    return _WORKER_DIR


def fresh_dir(prefix="p_"):
    return tempfile.mkdtemp(prefix=prefix, dir=worker_dir())


class TookTooLong(Exception):
    pass


class time_limit:
    """with time_limit(s): ...  -- raises TookTooLong inside the block when it runs longer (main thread of a worker process only; the
    interval timer interrupts pure-Python loops and blocking system calls alike)"""

    def __init__(self, seconds):
        self.seconds = seconds

    def __enter__(self):
        import signal
        import threading

        self.armed = threading.current_thread() is threading.main_thread()
        if self.armed:
            def onalarm(signum, frame):
                raise TookTooLong(f"no result after {self.seconds} s")

            self.old = signal.signal(signal.SIGALRM, onalarm)
            signal.setitimer(signal.ITIMER_REAL, self.seconds)
        return self

    def __exit__(self, *a):
        import signal

        if self.armed:
            signal.setitimer(signal.ITIMER_REAL, 0)
            signal.signal(signal.SIGALRM, self.old)
        return False


def run_child(cmd, env, timeout=1200, cwd=None):
    """a child interpreter with a watchdog: -> (output text, timed out?)"""
    import subprocess

    try:
        p = subprocess.run(cmd, env=env, cwd=cwd, stdout=subprocess.PIPE, stderr=subprocess.STDOUT, text=True, timeout=timeout)
        return p.stdout, False
    except subprocess.TimeoutExpired as e:
        out = e.stdout.decode(errors="replace") if isinstance(e.stdout, bytes) else (e.stdout or "")
        return out + f"\n[the child interpreter did not finish within {timeout} s and was killed]", True


def pmap(func, items, base, procs=None, chunksize=1):
    """ordered parallel map over worker processes (fork), results as a list"""
    import multiprocessing as mp

    items = list(items)
    if not items:
        return []
    procs = procs or min(16, os.cpu_count() or 4, max(1, len(items)))
    if "ceos_alos2" in sys.modules:  # (the workers would refuse to start, and the pool would respawn them for ever)
        raise Machinery("ceos_alos2 imported in the parent before forking workers")
    ctx = mp.get_context("fork")
    with ctx.Pool(procs, initializer=_pool_init, initargs=(base,)) as pool:
        return pool.map(func, items, chunksize)
