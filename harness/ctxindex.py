"""Selections whose lines come from MANY request groups (up to one per line of an 1100-line image), made from different calling
contexts of a fresh interpreter: plain top-level code, inside a running asyncio event loop (a notebook cell, an async handler), deep in
the caller's own stack, from a worker thread.  Each lazy selection must equal the same selection of the in-memory twin evaluated in the
same context (PyIndex.tla: the result is a function of the expression and the axis length -- not of how many groups the lines fall
into, nor of who calls)."""
import json
import os
import subprocess
import sys

from . import checklib, product

CHILD = r"""
import json, sys
import numpy as np, xarray as xr
spec = json.load(open(sys.argv[1]))
import ceos_alos2
twin_m = np.load(spec["matrix"])
n = twin_m.shape[0]
twin = xr.DataArray(twin_m, dims=("rows", "columns"))
SELS = {
    "whole": slice(None), "from-50": slice(50, None), "reversed": slice(None, None, -1), "every-2nd": slice(0, None, 2), "every-3rd-reversed": slice(None, None, -3),
    "three-lines": np.array([0, n // 2, n - 1]), "every-7th-array": np.arange(0, n, 7), "mask-odd": (np.arange(n) % 2 == 1), "last-int": n - 1, "empty": slice(0, 0),
    "first-chunk": slice(0, 1), "window": slice(n // 3, n // 3 + 40),
    # a block-by-block walk (each block starts where the previous one ended, on and off request-group boundaries), evaluated in this order
    **{f"walk-{a}": slice(a, a + 2) for a in range(0, 12, 2)}, **{f"walk256-{a}": slice(a, min(n, a + 256)) for a in range(0, n, 256)},
    # lines far apart in the file (megabytes of unselected lines between two selected ones of the same request group)
    "every-14th": slice(0, None, 14), "ends": np.array([0, n - 1]), "first-middle-last-reversed": np.array([n - 1, n // 2, 0]), "every-19th-from-3": slice(3, None, 19),
}
OPENED = {}
def work(rpc):
    out = {}
    try:
        tree = OPENED.get(rpc) or ceos_alos2.open_alos2(spec["dir"], backend_options={"use_cache": False, "records_per_chunk": rpc})
        da = tree["imagery/" + spec["group"] + "/data"]
    except BaseException as e:
        return {"open": f"{type(e).__name__}: {str(e)[:160]}"}
    for name, key in SELS.items():
        try:
            want = twin.isel(rows=key)
        except BaseException as e:
            out[name] = f"twin-failed {type(e).__name__}"
            continue
        try:
            got = da.isel(rows=key)
            v = got.values
            if got.dims != want.dims or v.shape != want.shape:
                out[name] = f"dims/shape {got.dims} {v.shape}, the in-memory image gives {want.dims} {want.shape}"
            elif not np.array_equal(v, want.values):
                out[name] = "values differ from the in-memory image"
            else:
                out[name] = None
        except BaseException as e:
            out[name] = f"raised {type(e).__name__}: {str(e)[:120]} (the same selection of the in-memory image, made in the same context, answers)"
    return out
def deep(k, rpc):
    return work(rpc) if k == 0 else deep(k - 1, rpc)
res = {}
ctx = spec["ctx"]
if ctx == "many-trees":
    # a long-running caller that keeps many opened trees around, each read from at least once (a catalogue, a mosaic), in a process with
    # an ordinary descriptor limit: what a selection yields does not depend on how many other trees are alive
    import resource
    soft, hard = resource.getrlimit(resource.RLIMIT_NOFILE)
    resource.setrlimit(resource.RLIMIT_NOFILE, (min(soft, 96), hard))
    keep, out = [], {}
    for k in range(160):
        name = f"tree-{k}"
        try:
            tree = ceos_alos2.open_alos2(spec["dir"], backend_options={"use_cache": False, "records_per_chunk": spec["rpcs"][k % len(spec["rpcs"])]})
            da = tree["imagery/" + spec["group"] + "/data"]
            key = slice(k % (n - 3), k % (n - 3) + 3)
            v = da.isel(rows=key).values
            keep.append((tree, da))
            out[name] = None if np.array_equal(v, twin.isel(rows=key).values) else "values differ from the in-memory image"
        except BaseException as e:
            out[name] = f"raised {type(e).__name__}: {str(e)[:120]} ({k} other opened trees are alive, each read from once; the in-memory image answers)"
            break
    res["many"] = out
    spec["rpcs"] = []
    resource.setrlimit(resource.RLIMIT_NOFILE, (soft, hard))
for rpc in spec["rpcs"]:
    if ctx == "asyncio":
        import asyncio
        async def main():
            return work(rpc)
        res[str(rpc)] = asyncio.run(main())
    elif ctx.startswith("deep-"):
        res[str(rpc)] = deep(int(ctx[5:]), rpc)
    elif ctx == "thread":
        import threading
        box = []
        t = threading.Thread(target=lambda: box.append(work(rpc))); t.start(); t.join()
        res[str(rpc)] = box[0]
    elif ctx == "atexit":
        pass
    else:
        res[str(rpc)] = work(rpc)
if ctx == "atexit":
    # the caller evaluates its selections while the interpreter shuts down (an atexit handler flushing results, an exit-time __del__)
    import atexit
    # (the trees are opened while the interpreter is alive: libraries that start helper threads on first use cannot do so any more at exit)
    for rpc in spec["rpcs"]:
        OPENED[rpc] = ceos_alos2.open_alos2(spec["dir"], backend_options={"use_cache": False, "records_per_chunk": rpc})
        twin.isel(rows=slice(0, 1)).values
    def late():
        for rpc in spec["rpcs"]:
            res[str(rpc)] = work(rpc)
        json.dump(res, open(sys.argv[2], "w"))
    atexit.register(late)
else:
    json.dump(res, open(sys.argv[2], "w"))
"""

CONTEXTS = ["plain", "asyncio", "deep-300", "deep-500", "thread", "atexit"]
N = 1100
WIDE = (40, 40000)


def task(t):
    import numpy as np

    base = checklib.fresh_dir("ctxidx_")
    if t.get("wide"):
        # 40 lines of 80 kB: two selected lines of one request group can lie more than a megabyte apart in the file
        from . import bigimg

        b = bigimg.build("1.5", WIDE[0], WIDE[1], t["seed"])
        im = b.images[0]
        np.save(os.path.join(base, "m.npy"), bigimg.expected_iu2(im["salt"], range(im["n"]), range(im["p"])))
    else:
        b = product.build_product(level="1.5", images=(("HH", None, N, 2),), seed=t["seed"])
        im = b.images[0]
        np.save(os.path.join(base, "m.npy"), np.array(im["raw"], dtype="uint16"))
    d = b.write(os.path.join(base, "product"))
    spec, out = os.path.join(base, "spec.json"), os.path.join(base, "out.json")
    json.dump({"dir": d, "group": im["group"], "matrix": os.path.join(base, "m.npy"), "ctx": t["ctx"], "rpcs": t["rpcs"]}, open(spec, "w"))
    env = checklib.worker_env(os.path.join(base, "xdg"))
    txt, _ = checklib.run_child([sys.executable, "-W", "ignore", "-c", CHILD, spec, out], env)
    res = {"task": t, "bad": [], "n": 0}
    if not os.path.exists(out):
        res["bad"].append(("interpreter-died", "*", txt[-400:]))
        return res
    for rpc, sels in json.load(open(out)).items():
        if "open" in sels:
            res["bad"].append(("open", rpc, f"open_alos2 raised {sels['open']}"))
            continue
        for name, msg in sels.items():
            res["n"] += 1
            if msg and msg.startswith("twin-failed"):
                res.setdefault("twin_failed", []).append((rpc, name, msg))
            elif msg:
                res["bad"].append((name, rpc, msg))
    return res


def run(chk):
    from . import layout as L

    L.instances([dict(file="image", kind="processed", n=N, ndata=4, bps=2), dict(file="image", kind="processed", n=1, ndata=2, bps=2),
                 dict(file="image", kind="processed", n=WIDE[0], ndata=2 * WIDE[1], bps=2)])
    rpcs = [1, 2, 3, 1024] if chk.tier == "quick" else [1, 2, 3, 5, 7, 64, 1024, 1099, 1100]
    tasks = [dict(ctx=c, rpcs=rpcs, seed=chk.seed + 500 + i) for i, c in enumerate(CONTEXTS)]
    tasks += [dict(ctx=c, rpcs=[1024, 20, 7], seed=chk.seed + 520 + i, wide=True) for i, c in enumerate(("plain", "thread"))]
    tasks += [dict(ctx="many-trees", rpcs=[1, 7, 1024], seed=chk.seed + 530)]
    for res in checklib.pmap(task, tasks, chk.scratch, procs=len(tasks)):
        chk.count(res["n"], f"context:{res['task']['ctx']}")
        if res.get("twin_failed"):
            raise checklib.Machinery(f"the in-memory twin could not evaluate a selection in context {res['task']['ctx']}: {res['twin_failed'][:2]}")
        seen = set()
        for name, rpc, msg in res["bad"]:
            if name in seen:
                continue
            seen.add(name)
            chk.violation(f"index:context:{res['task']['ctx']}:{name}", f"{'%d x %d' % WIDE if res['task'].get('wide') else '%d-line' % N} image, records_per_chunk={rpc}, selection '{name}' made {res['task']['ctx']}: {msg}",
                          {"task": res["task"], "selection": name, "rpc": rpc})
    chk.traces(len(tasks))
    chk.rule_extra.append(f"calling contexts x many request groups: 34 selections (incl. two block-by-block walks) of an {N}-line image (whole, windows, reversed, strided, arrays, mask, int, empty) with "
                          f"records_per_chunk in {rpcs} (up to {N} groups in one selection) made by a fresh interpreter from top-level code, inside a running asyncio loop, "
                          "300 and 500 frames deep, from a worker thread, and from an atexit handler; each compared with the in-memory image in the same context")
