"""Replaying behaviours of spec/Alos2.tla -- the reader as ONE system, many calls in ONE process -- into the real library.

Spec action          real step (all in the same Python process, so that every piece of module-level state the library keeps
                     between calls is exposed to the history)
Open(l,uc,cc,r,t)    tree[t] = open_alos2(url[l], backend_options={...})          (+ complete load of the returned tree)
Load(t,m,k)          tree[t]["imagery/<m>/data"] selection of class k -> values   (arrays are kept: they are the user's)
Mutate(t,m)          every array obtained from (t,m) so far is overwritten in place
Copy(t,t2)           tree[t2] = pickle.loads(pickle.dumps(tree[t]))
Drop(t)              del tree[t]
Cli(l,m,r,target)    ceos-alos2-create-cache --rpc r <image> [<user cache entry of the product>]
Redeliver(l,v)       every file of the product at l is overwritten by version v (same names, other bytes everywhere)
Damage / Restore     a file is removed / truncated at a seeded length / the current version is written again
CellSet              an index file is removed / replaced by a strict prefix of a complete document
CacheDir(ok)         $XDG_CACHE_HOME/xarray-ceos-alos2 becomes a regular file (ENOTDIR for everything below) / is put back

After every step the observable result is compared with the spec's `last` record: outcome class; for a judged tree the
COMPLETE projection of the tree against a reference computed in a FRESH PROCESS from an untouched copy of that product
version (so the reference shares no state with the session); cells, product directory, user cache directory, option dict.
Differences are classified (root_attrs, summary, leader, structure, line_meta, image_attrs, pixels, chunks, types,
spurious_error, not_failstop, wrong_error_class, product_modified, cache_unasked, options_mutated, load_values, ...) and
each registered check judges the classes its property owns."""
import copy
import glob
import hashlib
import json
import os
import pickle
import random
import shutil
import subprocess
import sys

from . import checklib, oracle, product, project, tracefs

RPC_MAP = {1: 2, 2: 1024, 3: 3}
DEFAULTS = {"use_cache": True, "create_cache": False, "records_per_chunk": 1024}

REF_CHILD = r"""
import json, sys, os
import ceos_alos2
from harness import project
out = []
for d in sys.argv[2:]:
    tree = ceos_alos2.open_alos2(d, backend_options={"use_cache": False})
    out.append(project.fingerprint(tree))
json.dump(out, open(sys.argv[1], "w"))
"""


# ----------------------------------------------------------------------------------------------------------------
# a product location on one of the four filesystems
# ----------------------------------------------------------------------------------------------------------------
class Place:
    def __init__(self, fsname, tag, base=None, sub=None):
        self.fsname = fsname
        if fsname in ("local", "file"):
            # the locations of one session are SIBLINGS that differ only in letter case / Unicode normal form (ALOS2/Kyushu next to
            # alos2/kyushu: distinct directories on a case-sensitive disk); the product directories themselves have the same name
            self.dir = os.path.join(base or checklib.fresh_dir("loc_"), sub or "", "product")
            os.makedirs(self.dir)
            self.url = ("file://" if fsname == "file" else "") + self.dir
        elif fsname == "memory":
            import fsspec

            self.fs = fsspec.filesystem("memory")
            self.root = f"/verif_{os.getpid()}_{tag}"
            self.url = "memory://" + self.root
        else:
            self.root = f"/s{os.getpid()}_{tag}"
            self.url = "vtrace://" + self.root

    def put(self, name, data, replace=False, old_times=False):
        if self.fsname in ("local", "file"):
            dst = os.path.join(self.dir, name)
            if replace:  # delivered the way rsync / a download manager does it: a new file renamed over the old one (new inode)
                tmp = os.path.join(os.path.dirname(self.dir), f".incoming_{name}")
                with open(tmp, "wb") as f:
                    f.write(data)
                if old_times:
                    os.utime(tmp, (978307200, 978307200))
                os.replace(tmp, dst)
                return
            with open(dst, "wb") as f:
                f.write(data)
            if old_times:  # delivered with the ORIGINAL file times kept (rsync -t, cp -p, tar x): older than any index written meanwhile
                os.utime(dst, (978307200, 978307200))
        elif self.fsname == "memory":
            self.fs.pipe(f"{self.root}/{name}", bytes(data))
        else:
            tracefs.STORE[f"{self.root}/{name}"] = bytes(data)

    def get(self, name):
        if self.fsname in ("local", "file"):
            p = os.path.join(self.dir, name)
            return open(p, "rb").read() if os.path.exists(p) else None
        if self.fsname == "memory":
            p = f"{self.root}/{name}"
            return self.fs.cat(p) if self.fs.exists(p) else None
        return tracefs.STORE.get(f"{self.root}/{name}")

    def remove(self, name):
        if self.fsname in ("local", "file"):
            p = os.path.join(self.dir, name)
            if os.path.exists(p):
                os.remove(p)
        elif self.fsname == "memory":
            p = f"{self.root}/{name}"
            if self.fs.exists(p):
                self.fs.rm(p)
        else:
            tracefs.STORE.pop(f"{self.root}/{name}", None)

    def listing(self):
        if self.fsname in ("local", "file"):
            out = {n: hashlib.sha256(open(os.path.join(self.dir, n), "rb").read()).hexdigest()[:16] + f"@{os.stat(os.path.join(self.dir, n)).st_mtime_ns}"
                   for n in sorted(os.listdir(self.dir))}
            out["."] = str(os.stat(self.dir).st_mtime_ns)   # entries created and removed again inside the directory leave this trace
            return out
        if self.fsname == "memory":
            return {p[len(self.root) + 1:]: hashlib.sha256(self.fs.cat(p)).hexdigest()[:16] for p in self.fs.find(self.root)}
        return {k[len(self.root) + 1:]: hashlib.sha256(v).hexdigest()[:16] for k, v in tracefs.STORE.items() if k.startswith(self.root + "/")}

    def bare_root(self):
        import fsspec

        return fsspec.get_mapper(self.url).root

    def close(self):
        if self.fsname in ("local", "file"):
            shutil.rmtree(os.path.dirname(self.dir), ignore_errors=True)
        elif self.fsname == "memory":
            try:
                self.fs.rm(self.root, recursive=True)
            except Exception:
                pass
        else:
            tracefs.remove(self.url)


def snapshot(d):
    out = {}
    for root, _dirs, files in os.walk(d):
        for f in files:
            p = os.path.join(root, f)
            with open(p, "rb") as fh:
                out[os.path.relpath(p, d)] = hashlib.sha256(fh.read()).hexdigest()[:16] + f"@{os.stat(p).st_mtime_ns}"   # (a rewrite with the same content is still a write)
    return out


def classify_doc(data):
    if data is None:
        return "absent"
    try:
        doc = json.loads(data)
        return "full" if isinstance(doc, dict) and doc.get("__type__") == "group" else "torn"
    except Exception:
        return "torn"


# ----------------------------------------------------------------------------------------------------------------
# classification of the differences between two projections
# ----------------------------------------------------------------------------------------------------------------
def _area(node):
    if node == "/":
        return "root"
    if node.startswith("/summary"):
        return "summary"
    if node.startswith("/metadata"):
        return "leader"
    if node == "/imagery":
        return "imagery"
    if node.startswith("/imagery/"):
        return "image"
    return "other"


def categorise(ref, got):
    """-> {category: [message, ...]} ; ref / got are project.fingerprint() values"""
    cats = {}

    def add(c, msg):
        cats.setdefault(c, [])
        if len(cats[c]) < 4:
            cats[c].append(msg[:300])

    for node in sorted(ref.keys() | got.keys()):
        if node not in got:
            add("structure", f"group {node} is missing")
            continue
        if node not in ref:
            add("structure", f"unexpected group {node}")
            continue
        r, g = ref[node], got[node]
        area = _area(node)
        if r["children"] != g["children"]:
            add("structure", f"{node}: children {g['children']}, expected {r['children']}")
        if r["attrs"] != g["attrs"]:
            d = project.diff(r["attrs"], g["attrs"], f"{node}@")
            add({"root": "root_attrs", "summary": "summary", "leader": "leader", "image": "image_attrs"}.get(area, "structure"), "; ".join(d[:3]))
        if r["order"] != g["order"]:
            add("structure" if set(r["order"]) != set(g["order"]) else "var_order", f"{node}: variables {g['order'][:12]}, expected {r['order'][:12]}")
        for name in r["vars"].keys() & g["vars"].keys():
            a, b = r["vars"][name], g["vars"][name]
            if a == b:
                continue
            for key in a.keys() | b.keys():
                if a.get(key) == b.get(key):
                    continue
                msg = f"{node}/{name}.{key}: " + "; ".join(project.diff(a.get(key), b.get(key), "")[:2])
                if key in ("dims", "shape", "dtype_kind", "dtype_is_numpy", "loaded_kind", "loaded_shape", "is_coord"):
                    add("types" if key != "is_coord" else "structure", msg)
                elif key == "encoding":
                    add("chunks", msg)
                elif key == "values":
                    add("pixels" if (area == "image" and name == "data") else {"image": "line_meta", "leader": "leader", "summary": "summary"}.get(area, "structure"), msg)
                else:  # attrs of a variable
                    add({"image": "line_meta", "leader": "leader", "summary": "summary"}.get(area, "structure"), msg)
    return cats


def patch_rpc(fp, rpc):
    """the only permitted dependence of a tree on records_per_chunk (C06): preferred chunk size = min(rpc, lines)"""
    out = copy.deepcopy(fp)
    for node, g in out.items():
        if node.startswith("/imagery/") and "data" in g["vars"]:
            v = g["vars"]["data"]
            enc = v.get("encoding") or {}
            if "preferred_chunksizes" in enc:
                enc["preferred_chunksizes"]["rows"] = min(rpc, v["shape"][0])
    return out


# ----------------------------------------------------------------------------------------------------------------
class Session:
    def __init__(self, level, fsname, seed, locs=("P", "Q"), versions=(0, 1), storage_options=False):
        self.level, self.fsname, self.seed = level, fsname, seed
        self.rng = random.Random(seed)
        base = (("HH", "F1", 4, 3), ("HH", "F2", 3, 2)) if level == "1.1" else (("HH", None, 4, 3), ("HV", None, 3, 2))
        if seed % 8 == 5:  # longer images: per-line columns long enough for an index to "compress" them (ramps, plateaus)
            base = tuple((pol, sc, n * 5, p) for pol, sc, n, p in base)
        self.built = {}
        for li, l in enumerate(locs):
            for v in versions:
                imgs = tuple((pol, sc, n + (v if i == 0 else 0), p) for i, (pol, sc, n, p) in enumerate(base))
                self.built[f"{l}{v}"] = product.build_product(level=level, images=imgs, seed=seed * 16 + li * 4 + v + 1,
                                                           ctx={"creation_datetime": f"20200301120{li}{v}000"}, drift=(0, 1, 2, 3, 4)[seed % 5], common_descriptor=bool(seed % 2))
        b0 = self.built[f"{locs[0]}{versions[0]}"]
        self.img = {"a": 0, "b": 1}
        self.names = {m: b0.images[i]["name"] for m, i in self.img.items()}
        self.groups = {m: b0.images[i]["group"] for m, i in self.img.items()}
        self.filekey = {"summary": "summary.txt", "vol": b0.names["vol"], "led": b0.names["led"], "trl": b0.names["trl"], **self.names}
        self.cache_home = os.environ["XDG_CACHE_HOME"]
        self.cache_root = os.path.join(self.cache_home, "xarray-ceos-alos2")
        self.unbreak()
        shutil.rmtree(self.cache_root, ignore_errors=True)
        base = checklib.fresh_dir("ses_") if fsname in ("local", "file") else None
        # (ASCII only: ceos-alos2-create-cache cannot be given images below directories whose names need URL quoting -- blanks, '%', '#',
        # non-ASCII letters: it goes through Path.as_uri() and the quoted path does not exist; observed, outside the properties, see DESIGN 6)
        subs = ["ALOS2/Kyushu", "alos2/kyushu", "ALOS2/KYUSHU", "other"]
        self.place = {l: Place(fsname, f"{seed}_{l}", base=base, sub=subs[i % len(subs)]) for i, l in enumerate(locs)}
        self.twin = {l: os.path.join(checklib.fresh_dir("twin_"), "product") for l in locs}  # local mirror (CLI on non-local fs)
        self.cur = {}
        self.storage_options = storage_options
        for l in locs:
            os.makedirs(self.twin[l])
            self.deliver(l, f"{l}{versions[0]}")
        self.refs = self._references()
        # the application's logging configuration must not matter
        import logging

        self._loglevels = (logging.getLogger("ceos_alos2").level, logging.getLogger().level)
        if seed % 3 == 0:
            logging.getLogger("ceos_alos2").setLevel(logging.DEBUG)
            logging.getLogger().setLevel(logging.DEBUG)
        self.trees = {}
        self.arrays = {}  # (slot, image) -> [(array, expected copy or None)]
        self.docs = {}
        self.damaged = {}

    # ------------------------------------------------------------------ environment
    def deliver(self, l, v):
        replace = self.rng.random() < 0.5
        old_times = self.rng.random() < 0.4
        for name, data in self.built[v].files.items():
            self.place[l].put(name, data, replace=replace, old_times=old_times)
            with open(os.path.join(self.twin[l], name), "wb") as f:
                f.write(data)
        self.cur[l] = v

    def _references(self):
        dirs, keys = [], []
        base = checklib.fresh_dir("ref_")
        for v, b in self.built.items():
            d = os.path.join(base, v, "product")
            b.write(d)
            dirs.append(d)
            keys.append(v)
        out = os.path.join(base, "refs.json")
        env = checklib.worker_env(os.path.join(base, "xdg"))
        p = subprocess.run([sys.executable, "-W", "ignore", "-c", REF_CHILD, out] + dirs, env=env, stdout=subprocess.PIPE, stderr=subprocess.STDOUT, text=True)
        if p.returncode != 0:
            raise checklib.Machinery("reference child failed:\n" + p.stdout[-2000:])
        fps = json.load(open(out))
        shutil.rmtree(base, ignore_errors=True)
        return dict(zip(keys, fps))

    def unbreak(self):
        hidden = self.cache_root + ".hidden"
        if os.path.isfile(self.cache_root) and not os.path.islink(self.cache_root):
            os.remove(self.cache_root)
        if os.path.isdir(hidden):
            os.rename(hidden, self.cache_root)

    def break_cache_dir(self):
        if os.path.isdir(self.cache_root):
            os.rename(self.cache_root, self.cache_root + ".hidden")
        os.makedirs(self.cache_home, exist_ok=True)
        with open(self.cache_root, "w") as f:
            f.write("not a directory\n")

    def local_path(self, l, m):
        root = self.place[l].bare_root()
        return os.path.join(self.cache_root, hashlib.sha256(root.encode()).hexdigest(), self.names[m] + ".index")

    def read_local(self, l, m):
        p = self.local_path(l, m)
        for cand in (p, p.replace(self.cache_root, self.cache_root + ".hidden", 1)):
            if os.path.isfile(cand):
                return open(cand, "rb").read()
        return None

    def local_state(self, l, m):
        p = self.local_path(l, m)
        if any(os.path.isdir(c) for c in (p, p.replace(self.cache_root, self.cache_root + ".hidden", 1))):
            return "blocked"
        return classify_doc(self.read_local(l, m))

    def cells(self):
        return {"local": {l: {m: self.local_state(l, m) for m in self.names} for l in self.place},
                "adjacent": {l: {m: classify_doc(self.place[l].get(self.names[m] + ".index")) for m in self.names} for l in self.place}}

    def complete_doc(self, l, m):
        """a complete index document of image m of the version currently at l (CLI on an untouched scratch copy)"""
        from . import cacherun

        k = (l, self.cur[l], m)
        if k not in self.docs:
            src = os.path.join(checklib.fresh_dir("doc_"), "product")
            self.built[self.cur[l]].write(src)
            target = checklib.fresh_dir("doct_")
            rc = cacherun.run_cli(os.path.join(src, self.names[m]), 7, target)
            p = os.path.join(target, self.names[m] + ".index")
            self.docs[k] = open(p, "rb").read() if rc == 0 and os.path.exists(p) else b'{"__type__": "group", "url": null, "data": {}, "path": "/", "attrs": {}}'
        return self.docs[k]

    # ------------------------------------------------------------------ one step
    def step(self, last):
        """execute the step described by the spec's `last` record -> observation {"findings": {category: [msg]}, ...}"""
        import ceos_alos2

        op = last["op"]
        obs = {"op": op, "findings": {}, "drift": []}

        def find(cat, msg):
            obs["findings"].setdefault(cat, []).append(str(msg)[:400])

        before_prod = {l: pl.listing() for l, pl in self.place.items()}
        before_cache = snapshot(self.cache_home)
        tracefs.take_log()
        if op == "open":
            l, rpc = last["loc"], RPC_MAP[last["rpc"]]
            opts = {"use_cache": last["uc"], "create_cache": last["cc"], "records_per_chunk": rpc}
            style = self.rng.randrange(3)
            if style == 1:  # spell only what differs from the documented defaults
                opts = {k: v for k, v in opts.items() if v != DEFAULTS[k]}
            if self.storage_options and style != 2:
                opts["storage_options"] = {} if self.fsname != "local" else {"auto_mkdir": False}
            keep = copy.deepcopy(opts)
            # how the caller spells the location: as it is, or -- on a local disk -- relative to the working directory it happens to be
            # in (the product directories of all locations have the same name: only the working directory tells them apart)
            target, cwd0 = self.place[l].url, None
            if self.fsname == "local" and self.rng.random() < 0.4:
                cwd0 = os.getcwd()
                os.chdir(os.path.dirname(self.place[l].dir))
                target = self.rng.choice(["product", "./product", "product/"])
            try:
                tree = ceos_alos2.open_alos2(target, backend_options=opts)
                outcome = "tree"
            except BaseException as e:  # noqa: B902 -- the outcome is data
                tree = None
                outcome = "oserror" if isinstance(e, OSError) else "error"
                obs["error"] = f"{type(e).__name__}: {str(e)[:200]}"
            finally:
                if cwd0 is not None:
                    os.chdir(cwd0)
            obs["outcome"] = outcome
            evs = tracefs.take_log()
            want = last["outcome"]
            tolerated = False
            if want == "tree" and outcome != "tree":
                if last["judged"]:
                    find("spurious_error", f"open raised {obs['error']} although every file it needs is intact")
            elif want != "tree" and outcome == "tree" and last.get("cause") == "cachedir":
                obs["drift"].append("the unusable user cache directory was tolerated (open returned a tree)")
                tolerated = True
            elif want != "tree" and outcome == "tree":
                find("not_failstop", f"open returned a tree although it should fail ({want}): {self.damage_text(l)}")
            elif want == "oserror" and outcome == "error":
                find("wrong_error_class", f"a missing file / unusable directory was reported as {obs['error']} (not an OSError)")
            if tree is not None:
                self.trees[last["slot"]] = (tree, l, last["ver"], dict(last["cver"]))
                for k in [k for k in self.arrays if k[0] == last["slot"]]:
                    del self.arrays[k]
                try:
                    fp = project.fingerprint(tree)
                except BaseException as e:  # noqa: B902
                    fp = None
                    if last["judged"] and want == "tree":
                        find("unloadable", f"the returned tree cannot be loaded / projected: {type(e).__name__}: {str(e)[:200]}")
                if fp is not None and (want == "tree" or tolerated) and last["judged"]:
                    ref = patch_rpc(self.refs[last["ver"]], rpc)
                    for cat, msgs in categorise(ref, fp).items():
                        for msg in msgs:
                            find(cat, msg)
                    try:
                        for txt in (repr(tree), str(tree["imagery"])):
                            assert isinstance(txt, str)
                        _ = tree.nbytes if hasattr(tree, "nbytes") else None
                        for g in self.groups.values():
                            _ = tree[f"imagery/{g}"].to_dataset().nbytes
                    except BaseException as e:  # noqa: B902
                        find("types", f"repr / nbytes of the tree failed: {type(e).__name__}: {str(e)[:160]}")
                if self.fsname == "vtrace" and want == "tree":
                    src = {}
                    for m, name in self.names.items():
                        parsed = any(e["e"] == "read" and e["f"] == name and e["pos"] == 0 for e in evs)
                        adj = any(e["e"] == "cat" and e["f"] == name + ".index" for e in evs)
                        src[m] = "parse" if parsed else ("adjacent" if adj else "local")
                    if not last["uc"] and (any(s != "parse" for s in src.values()) or any(e["e"] == "cat" and e["f"].endswith(".index") for e in evs)):
                        find("cache_consulted_when_disabled", f"use_cache=False but served {src}")
                    if src != last["src"]:
                        obs["drift"].append(f"served from {src}, spec expects {last['src']}")
            if opts != keep:
                find("options_mutated", f"the caller's option dict was modified: {keep} -> {opts}")
            if not (ceos_alos2.open_alos2.__defaults__ == (None, {}) and not ceos_alos2.io.open.__kwdefaults__["storage_options"]):
                find("options_mutated", "a mutable default argument was modified")
        elif op == "load":
            t, m = last["slot"], last["img"]
            if t in self.trees:
                tree, l, ver, cver = self.trees[t]
                im = self.built[ver].images[self.img[m]]
                n, p = im["n"], im["p"]
                key, rows, cols = self.selection(last["sel"], n, p)
                try:
                    da = tree[f"imagery/{self.groups[m]}/data"]
                    sel = da.isel(rows=key[0], columns=key[1]) if key[1] is not None else da.isel(rows=key[0])
                    vals = sel.values
                    obs["outcome"] = "loaded"
                except BaseException as e:  # noqa: B902
                    vals = None
                    obs["outcome"] = "error"
                    if last["judged"]:
                        find("load_error", f"loading {last['sel']} rows={key[0]} cols={key[1]} raised {type(e).__name__}: {str(e)[:200]}")
                if vals is not None and last["judged"]:
                    import numpy as np

                    v2 = np.asarray(vals)
                    if isinstance(key[0], int):
                        v2 = v2.reshape(1, -1)
                    if isinstance(key[1], int):
                        v2 = v2.reshape(len(rows), 1)
                    msg = oracle.pixels_match(v2, im, rows=rows, cols=cols)
                    if msg is not None:
                        find("load_values", f"selection {last['sel']} rows={key[0]} cols={key[1]}: {msg}")
                    # what the user obtained EARLIER is theirs: a later request must not change it behind their back
                    for (t0, m0), held in self.arrays.items():
                        for hi, (arr, snap, what) in enumerate(held):
                            if arr is not vals and snap is not None and np.asarray(arr).tobytes() != snap:
                                find("load_values", f"an array obtained earlier ({what}) changed when {last['sel']} rows={key[0]} was loaded afterwards")
                                held[hi] = (arr, None, what)
                    self.arrays.setdefault((t, m), []).append((vals, v2.tobytes() if msg is None else None, f"slot {t} image {m} {last['sel']} rows={key[0]}"))
        elif op == "mutate":
            import numpy as np

            # ... and the per-line coordinates of that image in the user's tree (an antimeridian wrap lon[lon > 180] -= 360, a unit change):
            # the tree is the user's, later opens must not see it
            if last["slot"] in self.trees:
                try:
                    node = self.trees[last["slot"]][0][f"imagery/{self.groups[last['img']]}"]
                    for name in list(node.variables)[:60]:
                        v = node[name].values
                        if name != "data" and isinstance(v, np.ndarray) and v.dtype.kind in "fiu" and v.flags.writeable and v.size:
                            v[...] = 0
                except Exception:
                    pass
            held = self.arrays.get((last["slot"], last["img"]), [])
            for i, (arr, snap, what) in enumerate(held):
                a = np.asarray(arr)
                if a.flags.writeable and a.size:
                    a[...] = 0
                    held[i] = (arr, None, what)  # the user's own modification: no longer compared
        elif op == "copy":
            t, t2 = last["slot"], last["into"]
            if t in self.trees:
                tree, l, ver, cver = self.trees[t]
                try:
                    route = self.rng.randrange(3)
                    cp = pickle.loads(pickle.dumps(tree)) if route == 0 else (copy.deepcopy(tree) if route == 1 else tree.copy(deep=True))
                    self.trees[t2] = (cp, l, ver, cver)
                    try:  # a copy is a tree like any other: declared dtypes, sizes and reprs work
                        import numpy as np

                        for g in self.groups.values():
                            v = cp[f"imagery/{g}/data"]
                            if not isinstance(v.dtype, np.dtype):
                                find("types", f"copy ({('pickle', 'deepcopy', 'tree.copy')[route]}): /imagery/{g}/data declares dtype {v.dtype!r} ({type(v.dtype).__name__})")
                            _ = cp[f"imagery/{g}"].to_dataset().nbytes
                        assert isinstance(repr(cp), str)
                    except BaseException as e:  # noqa: B902
                        find("types", f"copy ({('pickle', 'deepcopy', 'tree.copy')[route]}): repr / nbytes failed: {type(e).__name__}: {str(e)[:160]}")
                    for k in [k for k in self.arrays if k[0] == t2]:
                        del self.arrays[k]
                except BaseException as e:  # noqa: B902
                    find("unpicklable", f"pickling a tree failed: {type(e).__name__}: {str(e)[:200]}")
        elif op == "drop":
            self.trees.pop(last["slot"], None)
        elif op == "close":
            # the tree stays in its variable: loads after this go on as before (checked by the loads that follow)
            t_ = self.trees.get(last["slot"])
            if t_ is not None:
                try:
                    t_[0].close()
                except BaseException as e:  # noqa: B902
                    find("spurious_error", f"tree.close() raised {type(e).__name__}: {str(e)[:160]}")
        elif op == "cli":
            from . import cacherun

            l, m, rpc = last["loc"], last["img"], RPC_MAP[last["rpc"]]
            name = self.names[m]
            local_fs = self.fsname in ("local", "file")
            src_dir = self.place[l].dir if local_fs else self.twin[l]
            target = None
            if last["target"] == "cachedir":
                target = os.path.dirname(self.local_path(l, m))
                try:
                    os.makedirs(target, exist_ok=True)
                except OSError:
                    pass
            rc = cacherun.run_cli(os.path.join(src_dir, name), rpc, target)
            if not local_fs and last["target"] == "adjacent":
                p = os.path.join(src_dir, name + ".index")
                if os.path.exists(p):
                    if rc == 0:
                        self.place[l].put(name + ".index", open(p, "rb").read())
                    os.remove(p)
            obs["outcome"] = "ok" if rc == 0 else "fail"
            if last["outcome"] == "ok" and rc != 0:
                find("cli_failed", f"ceos-alos2-create-cache failed on an intact image: {rc}")
            if last["outcome"] == "fail" and rc == 0:
                obs["drift"].append(f"ceos-alos2-create-cache reported success on a damaged image ({self.damage_text(l)})")
        elif op == "redeliver":
            self.deliver(last["loc"], last["ver"])
            self.damaged[last["loc"]] = {}
        elif op == "copyto":
            src, dst = last["loc"], last["dst"]
            for n in [x for x in self.place[dst].listing() if x != "."]:
                self.place[dst].remove(n)
            for n in os.listdir(self.twin[dst]):
                os.remove(os.path.join(self.twin[dst], n))
            for n in [x for x in self.place[src].listing() if x != "."]:
                data = self.place[src].get(n)
                self.place[dst].put(n, data)
                if not n.endswith(".index"):
                    with open(os.path.join(self.twin[dst], n), "wb") as fh:
                        fh.write(data)
            self.cur[dst] = self.cur[src]
            self.damaged[dst] = dict(self.damaged.get(src, {}))
        elif op == "damage":
            l, f, how = last["loc"], last["file"], last["how"]
            name = self.filekey[f]
            data = self.built[self.cur[l]].files[name]
            if how == "missing":
                self.place[l].remove(name)
                if os.path.exists(os.path.join(self.twin[l], name)):
                    os.remove(os.path.join(self.twin[l], name))
                cut = None
            else:
                cut = self.cut_point(f, data, l)
                self.place[l].put(name, data[:cut])
                with open(os.path.join(self.twin[l], name), "wb") as fh:
                    fh.write(data[:cut])
            self.damaged.setdefault(l, {})[f] = (how, cut, len(data))
        elif op == "restore":
            self.deliver(last["loc"], self.cur[last["loc"]])
            self.damaged[last["loc"]] = {}
        elif op == "block":
            p = self.local_path(last["loc"], last["img"])
            if os.path.isfile(p):
                os.remove(p)
            os.makedirs(p, exist_ok=True)
        elif op in ("delete", "tear"):
            l, m = last["loc"], last["img"]
            if last["cell"] == "local" and os.path.isdir(self.local_path(l, m)):
                shutil.rmtree(self.local_path(l, m))
            data = None
            if op == "tear":
                doc = self.complete_doc(l, m)
                data = doc[: self.rng.choice([0, 1, len(doc) // 3, len(doc) // 2, len(doc) - 2, len(doc) - 1])]
            if last["cell"] == "local":
                p = self.local_path(l, m)
                if data is None:
                    if os.path.exists(p):
                        os.remove(p)
                else:
                    os.makedirs(os.path.dirname(p), exist_ok=True)
                    with open(p, "wb") as f:
                        f.write(data)
            else:
                if data is None:
                    self.place[l].remove(self.names[m] + ".index")
                else:
                    self.place[l].put(self.names[m] + ".index", data)
        elif op == "purge":
            if last["scope"] == "all":
                if self.rng.random() < 0.5:
                    shutil.rmtree(self.cache_root, ignore_errors=True)
                else:  # everything below $XDG_CACHE_HOME (the directory itself stays: it is the worker's)
                    for n in os.listdir(self.cache_home):
                        q = os.path.join(self.cache_home, n)
                        shutil.rmtree(q, ignore_errors=True) if os.path.isdir(q) else os.remove(q)
            else:
                shutil.rmtree(os.path.dirname(self.local_path(last["scope"], "a")), ignore_errors=True)
        elif op == "cachedir":
            if last["usable"]:
                self.unbreak()
            else:
                self.break_cache_dir()
        # ---- purity: what may an API call change on disk?
        if op in ("open", "load", "copy", "mutate", "drop", "close", "cli"):
            for l, pl in self.place.items():
                after = pl.listing()
                delta = sorted(k for k in after.keys() | before_prod[l].keys() if after.get(k) != before_prod[l].get(k))
                allowed = {self.names[last["img"]] + ".index", "."} if (op == "cli" and last["loc"] == l and last["target"] == "adjacent") else set()
                if any(d not in allowed for d in delta):
                    find("product_modified", f"{op} changed the product directory at {l}: {delta}")
            after_cache = snapshot(self.cache_home)
            cdelta = sorted(k for k in after_cache.keys() | before_cache.keys() if after_cache.get(k) != before_cache.get(k))
            if op == "open":
                hashdir = os.path.relpath(os.path.dirname(self.local_path(last["loc"], "a")), self.cache_home)
                okset = {os.path.join(hashdir, self.names[m] + ".index") for m in self.names} if last["cc"] else set()
                if any(d not in okset for d in cdelta):
                    find("cache_unasked", f"open(create_cache={last['cc']}) changed the user cache directory: {cdelta}")
                wrote = {m for m in self.names if os.path.join(hashdir, self.names[m] + ".index") in cdelta}
                if wrote - set(last["written"]):
                    obs["drift"].append(f"index files written for {sorted(wrote)}, spec expects {sorted(last['written'])}")
                if last["cc"] and last["outcome"] == "tree" and obs.get("outcome") == "tree":
                    for m in self.names:
                        if last["src"][m] == "parse" and self.local_state(last["loc"], m) != "full":
                            find("not_repaired", f"open(create_cache=True) succeeded but the index of image {m} is {self.local_state(last['loc'], m)}")
            elif op == "cli":
                if last["target"] == "adjacent" and cdelta:
                    find("cache_unasked", f"the CLI (adjacent target) changed the user cache directory: {cdelta}")
            elif cdelta:
                find("cache_unasked", f"{op} changed the user cache directory: {cdelta}")
        obs["cells"] = self.cells()
        # time passes: index files (in the user cache directory and next to the images) become more than a year old now and then
        if op in ("open", "cli") and self.fsname in ("local", "file") and self.rng.random() < 0.35:
            import glob

            old = 1262304000 + self.rng.randrange(10**6)   # some day in 2010
            for f in glob.glob(os.path.join(self.cache_home, "**", "*.index"), recursive=True) + [
                    os.path.join(pl.dir, n) for pl in self.place.values() for n in os.listdir(pl.dir) if n.endswith(".index")]:
                if os.path.isfile(f):
                    os.utime(f, (old, old))
        return obs

    def damage_text(self, l):
        return f"damage at {l}: {self.damaged.get(l, {})}"

    def cut_point(self, f, data, l):
        n = len(data)
        if f in self.names:  # image: descriptor, inside the first record, a record boundary, inside the last record, last byte
            b = self.built[self.cur[l]].images[self.img[f]]
            rec = b["prefix"] + b["p"] * b["bps"]
            cands = [0, 1, 719, 720, 721, 720 + rec - 1, 720 + rec, 720 + rec + 1, 720 + rec * (b["n"] - 1), n - rec + 1, n - 2, n - 1]
            return self.rng.choice([c for c in cands if 0 <= c < n])
        return self.rng.choice([0, 1, n // 3, n // 2, n - 2, n - 1])

    def selection(self, kind, n, p):
        """rows are a function of (session, kind, n): a repeated Load of the same class asks for the SAME lines again
        (possibly another pixel window) -- that is what exposes anything the library keeps from the previous request"""
        r = random.Random(f"{self.seed}|{kind}|{n}")
        rc = self.rng
        allc = list(range(p))
        if kind == "all":
            return (slice(None), None), list(range(n)), allc
        if kind == "rows":
            a = r.randrange(n)
            b = r.randrange(a, n + 1)
            s = slice(a, b, r.choice([1, 1, 2]))
            return (s, None), list(range(n))[s], allc
        if kind == "window":
            a = r.randrange(n)
            s = slice(a, r.randrange(a, n + 1) or None)
            c0 = rc.randrange(p)
            cs = slice(c0, rc.randrange(c0 + 1, p + 1))
            return (s, cs), list(range(n))[s], allc[cs]
        if kind == "int":
            i = r.randrange(-n, n)
            return (i, None), [i % n], allc
        if kind == "empty":
            a = r.randrange(n + 1)
            return (slice(a, a), None), [], allc
        rows = [r.randrange(n) for _ in range(r.randrange(1, n + 2))]
        return (rows, None), rows, allc

    def close(self):
        import logging

        logging.getLogger("ceos_alos2").setLevel(self._loglevels[0])
        logging.getLogger().setLevel(self._loglevels[1])
        self.unbreak()
        for pl in self.place.values():
            pl.close()
        for d in self.twin.values():
            shutil.rmtree(os.path.dirname(d), ignore_errors=True)
        shutil.rmtree(self.cache_root, ignore_errors=True)
        shutil.rmtree(self.cache_root + ".hidden", ignore_errors=True)


def spec_cells(state, locs, images=("a", "b")):
    return {w: {l: {m: state[w][l][m]["st"] for m in images} for l in locs} for w in ("local", "adjacent")}


def replay(task):
    """task: level, fs, seed, steps=[{"last":..., "cells":...}], locs -> {"findings": [(category, step index, message, history)], "drift": [...], "nsteps"}"""
    locs = task["locs"]
    out = {"task": {k: task[k] for k in ("level", "fs", "seed", "bid", "cfg")}, "findings": [], "drift": [], "nsteps": 0, "ops": {}, "judged_opens": 0}
    try:
        s = Session(task["level"], task["fs"], task["seed"], locs=tuple(locs), versions=tuple(task.get("versions", (0, 1))),
                    storage_options=task.get("storage_options", False))
    except checklib.Machinery as e:
        if "reference child failed" not in str(e):
            raise
        out["findings"].append(("spurious_error", 0, "an intact product could not be opened in a fresh process: " + str(e)[-300:], []))
        return out
    hist = []
    try:
        for k, st in enumerate(task["steps"]):
            last = st["last"]
            hist.append(last)
            obs = s.step(last)
            out["nsteps"] += 1
            out["ops"][last["op"]] = out["ops"].get(last["op"], 0) + 1
            if last["op"] == "open" and last.get("judged") and last["outcome"] == "tree":
                out["judged_opens"] += 1
            for cat, msgs in obs["findings"].items():
                for msg in msgs[:3]:
                    out["findings"].append((cat, k, msg, hist[:]))
            for d in obs["drift"]:
                out["drift"].append(f"step {k + 1} {last['op']}: {d}")
            want = st["cells"]
            got = obs["cells"]
            # an unusable user cache dir hides the local cells from the library, not from this observer
            if got != want:
                # the real cache state left the Design model (e.g. the CLI indexing a shortened image without complaint, which no
                # listed property forbids): the spec's expectations for the rest of this behaviour no longer apply
                out["drift"].append(f"step {k + 1} {last['op']}: cells {got}, spec {want}")
                break
            if any(c in ("spurious_error", "cli_failed", "unloadable") for c in obs["findings"]):
                break  # later expectations assume this step worked
    finally:
        s.close()
    return out


def behaviours_to_tasks(bs, cfg, seed, fss=("local", "vtrace", "memory", "file"), levels=("1.5", "1.1"), locs=("P", "Q"), versions=(0, 1),
                        storage_options=False):
    tasks = []
    for i, beh in enumerate(bs):
        steps = [{"last": st["state"]["last"], "cells": spec_cells(st["state"], locs)} for st in beh if st["state"].get("last", {}).get("op") != "init"]
        if not steps:
            continue
        tasks.append(dict(level=levels[i % len(levels)], fs=fss[i % len(fss)], seed=seed + i, steps=steps, bid=i, cfg=cfg, locs=list(locs),
                          versions=list(versions), storage_options=storage_options))
    return tasks
