"""Client of the TLC layout service (spec/Export.tla): placed file instances by parameter set.

Every offset / width / kind / unit / role the synthesiser and the oracles use comes from TLC's evaluation of
Layout.tla + FileFormat.tla.  Instances are memoised under build/layouts keyed by the parameters AND the hash
of the spec sources, so an edit to the spec invalidates them."""
import hashlib
import json
import os
import tempfile

from . import tlc

_mem = {}
_tables = None

DEFAULT_LEADER = dict(file="leader", nmap=1, np=22, attlen=16384, nch=2, f1=325000, f2=511000, f3=3072, f4=728000)
SMALL_LEADER = dict(file="leader", nmap=1, np=3, attlen=16384, nch=2, f1=66, f2=100, f3=200, f4=300)


def _spec_hash():
    h = hashlib.sha256()
    for n in ("Layout.tla", "FileFormat.tla", "Export.tla", "OutMap.tla"):
        with open(os.path.join(tlc.SPEC_DIR, n), "rb") as f:
            h.update(f.read())
    return h.hexdigest()[:12]


_SH = None


def _key(params):
    global _SH
    if _SH is None:
        _SH = _spec_hash()
    return hashlib.sha256((json.dumps(params, sort_keys=True) + _SH).encode()).hexdigest()[:24]


def _cache_dir():
    d = os.path.join(tlc.BUILD_DIR, "layouts")
    os.makedirs(d, exist_ok=True)
    return d


def instances(param_list):
    """-> list of placed instances (dicts) for the given parameter dicts (one TLC run for all the missing ones)"""
    out = [None] * len(param_list)
    missing = []
    d = _cache_dir()
    for i, p in enumerate(param_list):
        k = _key(p)
        if k in _mem:
            out[i] = _mem[k]
            continue
        path = os.path.join(d, k + ".json")
        if os.path.exists(path):
            try:
                _mem[k] = out[i] = tlc.load_json(path)
                continue
            except Exception:
                pass
        missing.append((i, p, k, path))
    if missing:
        with tempfile.TemporaryDirectory(prefix="layoutreq_") as t:
            req = []
            seen = {}
            for i, p, k, path in missing:
                if k in seen:
                    continue
                seen[k] = path
                req.append(dict(p, out=os.path.join(t, k + ".json")))
            rf = os.path.join(t, "req.json")
            with open(rf, "w") as f:
                json.dump(req, f)
            tf = os.path.join(d, f"tables.json.{os.getpid()}.tmp")
            of = os.path.join(d, f"outmap.json.{os.getpid()}.tmp")
            r = tlc.run_ok("Export", env={"REQ_FILE": rf, "TABLES_FILE": tf, "OUTMAP_FILE": of})
            if f'"EXPORTED", {len(req)}' not in r.out:
                raise tlc.TlcError("layout export incomplete:\n" + r.out[-2000:])
            os.replace(tf, os.path.join(d, "tables.json"))
            os.replace(of, os.path.join(d, "outmap.json"))
            for k, path in seen.items():
                tmp = path + f".{os.getpid()}.tmp"
                with open(os.path.join(t, k + ".json")) as f:
                    data = f.read()
                with open(tmp, "w") as f:
                    f.write(data)
                os.replace(tmp, path)
        for i, p, k, path in missing:
            if k not in _mem:
                _mem[k] = tlc.load_json(path)
            out[i] = _mem[k]
    return out


def instance(**params):
    return instances([params])[0]


def tables():
    global _tables
    if _tables is None:
        p = os.path.join(_cache_dir(), "tables.json")
        if not os.path.exists(p):
            instances([dict(file="volume", nfp=0)])
            if not os.path.exists(p):
                # force one export
                _mem.clear()
                for f in os.listdir(_cache_dir()):
                    os.remove(os.path.join(_cache_dir(), f))
                instances([dict(file="volume", nfp=0)])
        _tables = tlc.load_json(p)
    return _tables


def leaves(rec, expand=True):
    """iterate (path, abs offset within record, leaf) over a record's leaves; arrays expanded with [i] in the path"""
    for lf in rec["leaves"]:
        if lf["k"] == "array":
            for i in range(lf["c"]):
                for el in lf["el"]:
                    path = f"{lf['p']}[{i}]" + ("." + el["p"] if el["p"] else "")
                    yield path, lf["off"] + i * lf["stride"] + el["off"], el, (lf["p"], lf["d"], i, el["p"])
        else:
            yield lf["p"], lf["off"], lf, None


_outmap = None


def outmap():
    """{(file kind, record, path): entry} from spec/OutMap.tla (TLC-exported)"""
    global _outmap
    if _outmap is None:
        tables()
        rows = tlc.load_json(os.path.join(_cache_dir(), "outmap.json"))
        _outmap = {(r["f"], r["r"], r["p"]): r for r in rows}
    return _outmap
