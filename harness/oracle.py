"""Expected tree leaves of a synthesised product, from the ground truth (what was written), spec/Layout.tla
(kind, scale, unit, role) and spec/OutMap.tla (placement).  Nothing here reads the code under test."""
import datetime as dt
import math

from . import layout as L
from . import project
from .synth import exact_float

EPOCH = dt.datetime(1970, 1, 1)


def ns_of(d):
    delta = d - EPOCH
    return (delta.days * 86400 + delta.seconds) * 10**9 + delta.microseconds * 1000


def ydms_instant(y, doy, ms):
    """day-of-year 1 = 1 January (the convention of property C17)"""
    return dt.datetime(y, 1, 1) + dt.timedelta(days=doy - 1, milliseconds=ms)


def parse_compact(text):
    """'YYYYMMDDhhmmss' + fraction digits -> datetime (microsecond resolution)"""
    t = text.strip()
    base = dt.datetime.strptime(t[:14], "%Y%m%d%H%M%S")
    frac = t[14:]
    us = int((frac + "000000")[:6]) if frac else 0
    return base + dt.timedelta(microseconds=us)


def parse_iso(s):
    return dt.datetime.fromisoformat(s)


def convert(leaf, v, tr, tables):
    """tagged expected value of token v (None = blank) for a leaf under conversion tr"""
    k, e, t = leaf["k"], leaf["e"], leaf["t"]
    if isinstance(v, (bytes, bytearray)):
        v = bytes(v).decode("ascii")  # verbatim (e.g. left-justified) ASCII token
    if isinstance(v, tuple) and k == "ac":
        v = tuple(x.decode("ascii") if isinstance(x, (bytes, bytearray)) else x for x in v)
    if tr == "enum" or (t and tr == ""):
        lab = [lab for lab, code in tables[t] if str(code) == str(v).strip()]
        return ("U", lab[0]) if lab else ("invalid-code", v)
    if k == "ai":
        if v is None or (isinstance(v, str) and not v.strip()):
            return ("i", -1)
        iv = int(v)
        return ("b", bool(iv)) if tr == "bool" else ("i", iv)
    if k == "af":
        if v is None or (isinstance(v, str) and not v.strip()):
            return ("f", float("nan"))
        if e:
            # scaled: the exactly scaled rational rounded once, or the double product / quotient (double rounding of
            # subnormal or huge inputs is not a defect) -- all three are "the value converted with the scale factor"
            x = exact_float(v, 0)
            return ("f-any", (exact_float(v, e), x * 10.0**e, x / 10.0**(-e)))
        return ("f", exact_float(v, e))
    if k == "ac":
        if v is None:
            return ("c", (float("nan"), float("nan")))
        ba = v[0] is None or not str(v[0]).strip()
        bb = v[1] is None or not str(v[1]).strip()
        a = float("nan") if ba else exact_float(v[0])
        b = float("nan") if bb else exact_float(v[1])
        if ba != bb:
            # one half blank: that component is missing (NaN), never a fabricated number; the other one keeps its value or is
            # dropped with it -- both are "missing", an exception is not
            return ("c-any", [(a, b), (float("nan"), float("nan"))])
        return ("c", (a, b))
    if k == "s":
        return ("U", "" if v is None else v.rstrip("\0").strip())  # padding = blanks and trailing NULs
    if k in ("u8", "u16", "u32", "u64"):
        if e:
            from fractions import Fraction

            return ("f", float(Fraction(int(v)) * Fraction(10) ** e))
        return ("i", int(v))
    if k == "flag":
        return ("b", bool(v))
    raise ValueError(f"no conversion for kind {k}")


class Expectation:
    __slots__ = ("node", "name", "kind", "dims", "ix", "value", "unit", "tr", "src", "present", "ulp")

    def __init__(self, **kw):
        for k in self.__slots__:
            setattr(self, k, kw.get(k))

    def describe(self):
        return f"{self.node}:{self.name}[{self.ix}] <- {self.src}"


def designator_cond(built):
    led = built.builders["LED"]
    try:
        r = led.rec("map_projection")
    except IndexError:
        return None
    d = led.truth.get((r, "map_projection_designator", 0))
    des = str(d).lower().split("-", 1)[0]
    return {"utm": "utm", "ups": "ups", "lcc": "nsp", "mer": "nsp"}.get(des)


def pp_instant(date_text, sod_text):
    """platform-position first point: three I4 integers (year, month, day; any padding) + decimal seconds of day -> datetime
    at microsecond resolution (the resolution of the ISO attribute)"""
    from fractions import Fraction

    y, mo, d = (int(t) for t in str(date_text).split())
    t = str(sod_text).strip().lower()
    if "e" in t:
        m, x = t.split("e")
        fr = Fraction(m) * Fraction(10) ** int(x)
    else:
        fr = Fraction(t)
    return dt.datetime(y, mo, d) + dt.timedelta(microseconds=round(fr * 10**6))


def expectations(built, files=("VOL", "LED", "IMG"), skip_tr=("att_time",)):
    """-> list of Expectation for every mapped field of the product"""
    om = L.outmap()
    tables = L.tables()
    cond = designator_cond(built)
    out = []
    for fkey, fb in built.builders.items():
        fk = "IMG" if fkey.startswith("IMG") else fkey
        if fk not in files or fk == "TRL":
            continue
        image = next((im for im in built.images if im["name"] == fkey), None)
        seen_rec = {}
        for r, rec in enumerate(fb.inst["records"]):
            nth = seen_rec.get(rec["name"], 0)
            seen_rec[rec["name"]] = nth + 1
            if fk == "VOL" and rec["name"] == "file_descriptors":
                continue
            for path, (off, leaf, arr) in fb.index[r].items():
                if arr is not None:
                    key = (fk, rec["name"], arr[0] + "[]" + ("." + arr[3] if arr[3] else ""))
                else:
                    key = (fk, rec["name"], path)
                m = om.get(key)
                if m is None or m["tr"] in skip_tr:
                    continue
                if m["c"] and m["c"] != cond:
                    continue
                node = m["g"].replace("<image>", image["group"]) if image else m["g"]
                per_line = fk == "IMG" and rec["name"] == "line"
                lines = range(rec.get("count", 1)) if per_line else [0]
                for line in lines:
                    v = fb.truth.get((r, path, line))
                    ix = m["ix"]
                    if ix == -1:
                        ix = line if per_line else arr[2]
                    if per_line and m["k"] == "attr" and line > 0:
                        continue
                    e = Expectation(node=node, name=m["n"], kind=m["k"], dims=m["d"], ix=ix, unit=leaf["u"], tr=m["tr"],
                                    src=f"{fkey}:{rec['name']}#{nth}:{path}@{line}", present=True, ulp=4)
                    if isinstance(v, (bytes, bytearray)) and leaf["k"] in ("ai", "af", "s"):
                        v = bytes(v).decode("ascii")
                    if m["tr"] == "ydms":
                        e.value = ("M", ns_of(ydms_instant(*v)))
                    elif m["tr"] == "ydus":
                        y, doy, _ = fb.truth[(r, "sensor_acquisition_date", line)]
                        day = dt.datetime(y, 1, 1) + dt.timedelta(days=doy - 1)
                        e.value = ("M", ns_of(day) + int(v) * 1000)
                    elif m["tr"] == "pp_datetime":
                        if not path.endswith("seconds_of_day"):
                            continue
                        e.value = ("instant-us", pp_instant(fb.truth[(r, "datetime_of_first_point.date", line)], v))
                    elif m["tr"] == "iso":
                        e.value = ("instant", parse_compact(v))
                    elif m["tr"] == "range0":
                        if v is None or not str(v).strip():
                            e.present = False
                        else:
                            e.value = ("list", [("i", 0), ("i", int(v))])
                    else:
                        e.value = convert(leaf, v, m["tr"], tables)
                        if m["g"].startswith("/imagery") and m["k"] == "attr" and rec["name"] == "file_descriptor":
                            # header-derived attributes are present exactly when the field is non-blank
                            if v is None or not str(v).strip():
                                e.present = False
                    out.append(e)
    return out


def check(proj, exps):
    """compare a projected tree with expectations -> list of (expectation, message)"""
    bad = []
    for e in exps:
        if e.tr == "nested":
            msg = check_nested(proj, e)
            if msg:
                bad.append((e, msg))
            continue
        g = proj.get(e.node)
        if g is None:
            bad.append((e, f"group {e.node} missing"))
            continue
        if e.kind == "attr":
            if not e.present:
                if e.name in g["attrs"]:
                    # an empty string for a blank text field is a legitimate 'missing' marker
                    if g["attrs"][e.name] != ("U", ""):
                        bad.append((e, f"attribute {e.name} present ({g['attrs'][e.name]}) although the field is blank"))
                continue
            if e.name not in g["attrs"]:
                bad.append((e, f"attribute {e.name} missing (expected {e.value})"))
                continue
            got = g["attrs"][e.name]
            if not value_matches(got, e.value, e.ulp):
                bad.append((e, f"attribute {e.name} = {got}, expected {e.value}"))
            continue
        v = g["vars"].get(e.name)
        if v is None:
            bad.append((e, f"variable {e.name} missing in {e.node}"))
            continue
        if list(v["dims"]) != list(e.dims):
            bad.append((e, f"variable {e.name} dims {v['dims']}, expected {e.dims}"))
            continue
        flat = v.get("values")
        idx = 0 if e.ix in (-2, None) else e.ix
        if flat is None or idx >= len(flat):
            bad.append((e, f"variable {e.name} has no element {idx} (size {None if flat is None else len(flat)})"))
            continue
        if not value_matches(flat[idx], e.value, e.ulp):
            bad.append((e, f"variable {e.name}[{idx}] = {flat[idx]}, expected {e.value}"))
            continue
        if e.unit:
            u = v["attrs"].get("units")
            if u != ("U", e.unit):
                bad.append((e, f"variable {e.name} units {u}, expected {e.unit!r}"))
    return bad


def check_nested(proj, e):
    """level-1.1 nested per-line struct field `outer.inner`: placement is not prescribed -- any numeric per-line variable
    under the image group whose qualified name contains both components must hold the written value"""
    import re

    outer, inner = e.name.split(".")
    want_tokens = set(re.split(r"[^a-z0-9]+", outer)) | {inner}
    found = False
    for node, g in proj.items():
        if not (node == e.node or node.startswith(e.node + "/")):
            continue
        for name, v in g["vars"].items():
            q = (node[len(e.node):] + "/" + name).lower()
            toks = set(re.split(r"[^a-z0-9]+", q))
            if not want_tokens <= toks:
                continue
            found = True
            flat = v.get("values") or []
            if v.get("loaded_kind") not in ("i", "u", "f"):
                return f"nested field {e.name} surfaces in {node}:{name} with dtype kind {v.get('loaded_kind')!r} (not numeric)"
            if e.ix >= len(flat) or not value_matches(flat[e.ix], e.value, e.ulp):
                return f"nested field {e.name}: {node}:{name}[{e.ix}] = {flat[e.ix] if e.ix < len(flat) else None}, expected {e.value}"
            if e.unit and v["attrs"].get("units") != ("U", e.unit):
                return f"nested field {e.name}: units {v['attrs'].get('units')}, expected {e.unit!r}"
            return None
    if not found:
        return f"nested field {e.name}: no numeric per-line variable whose qualified name contains both components"
    return None


def value_matches(got, want, ulp=4):
    if want[0] == "instant":
        if got[0] != "U":
            return False
        try:
            return parse_iso(got[1]) == want[1]
        except ValueError:
            return False
    if want[0] == "instant-us":  # decimal seconds through a double: one microsecond of slack
        if got[0] != "U":
            return False
        try:
            return abs((parse_iso(got[1]) - want[1]).total_seconds()) <= 1.5e-6
        except ValueError:
            return False
    if want[0] == "c-any":
        return got[0] == "c" and any(project._feq(got[1][0], w[0], ulp) and project._feq(got[1][1], w[1], ulp) for w in want[1])
    if want[0] == "f-any":
        return got[0] == "f" and any(project._feq(got[1], w, ulp) for w in want[1])
    if want[0] == "f" and got[0] == "f":
        return project._feq(got[1], want[1], ulp)
    return project.same_value(got, want, ulp)


def pixel_expected(im):
    """expected raw words of an image: list of rows of ints (IU2) or (re_bits, im_bits) pairs (C*8)"""
    return im["raw"]


def pixels_match(values, im, rows=None, cols=None):
    """bit-exact comparison of a loaded numpy array with the synthesised sample matrix (optionally a selection)"""
    import numpy as np

    raw = im["raw"]
    rows = range(im["n"]) if rows is None else rows
    cols = range(im["p"]) if cols is None else cols
    a = np.asarray(values)
    if a.shape != (len(rows), len(cols)):
        return f"shape {a.shape}, expected {(len(rows), len(cols))}"
    if im.get("big"):  # size-family images (harness/bigimg.py): the sample pattern is a formula, compared vectorised
        from . import bigimg

        if im["kind"] != "processed":
            return None if not a.any() else "non-zero sample in an all-zero C*8 image"
        want = bigimg.expected_iu2(im["salt"], rows, cols)
        if a.dtype.kind != "u" or a.dtype.itemsize != 2:
            return f"dtype {a.dtype}, expected uint16"
        bad = np.argwhere(a != want)
        if len(bad):
            i, j = bad[0]
            return f"cell ({list(rows)[i]},{list(cols)[j]}) = {int(a[i, j])}, file holds {int(want[i, j])}"
        return None
    if im["kind"] == "processed":
        for i, r in enumerate(rows):
            for j, c in enumerate(cols):
                if int(a[i, j]) != raw[r][c]:
                    return f"cell ({r},{c}) = {int(a[i, j])}, file holds {raw[r][c]}"
        return None
    if a.dtype.kind != "c":
        return f"dtype {a.dtype}, expected complex"
    c64 = a.astype(np.complex64) if a.dtype != np.complex64 else a
    if a.dtype != np.complex64:
        return f"dtype {a.dtype}, expected complex64"
    re_bits = np.ascontiguousarray(c64.real).view(np.uint32)
    im_bits = np.ascontiguousarray(c64.imag).view(np.uint32)
    for i, r in enumerate(rows):
        for j, c in enumerate(cols):
            wr, wi = raw[r][c]
            gr, gi = int(re_bits[i, j]), int(im_bits[i, j])
            if (gr, gi) != (wr, wi):
                return f"cell ({r},{c}) = bits ({gr:08x},{gi:08x}), file holds ({wr:08x},{wi:08x})"
    return None
