"""Independent encoder of CEOS ALOS-2 product files, driven by the TLC-exported layout instances.

The synthesiser knows how to write a value of each KIND at an offset (ASCII justified text, big-endian binary,
blank) and nothing about any particular field: which field sits where comes from spec/Layout.tla through
harness.layout.  It records what it wrote (the ground truth) so that oracles never read anything back from the
code under test."""
import struct
from fractions import Fraction

from . import layout as L

ASCII_KINDS = ("ai", "af", "ac", "s")
BIN_WIDTH = {"u8": 1, "u16": 2, "u32": 4, "u64": 8}


def enc(leaf, v):
    """bytes of value v for a leaf; None = blank (ASCII) / zero (binary); bytes = verbatim"""
    k, w = leaf["k"], leaf["w"]
    if isinstance(v, (bytes, bytearray)):
        if len(v) != w:
            raise ValueError(f"raw value of {len(v)} bytes for a {w}-byte field {leaf.get('p')}")
        return bytes(v)
    if k in ASCII_KINDS:
        if v is None:
            return b" " * w
        if k == "ac":
            a, b = v
            h = w // 2
            return (b" " * h if a is None else _txt(a, h, right=True)) + (b" " * h if b is None else _txt(b, h, right=True))
        if k == "s":
            return _txt(v, w, right=False)
        return _txt(v if isinstance(v, str) else str(v), w, right=True)
    if k in BIN_WIDTH or k == "flag":
        return int(v or 0).to_bytes(w, "big")
    if k == "ydms":
        y, d, ms = v or (0, 0, 0)
        return struct.pack(">LLL", y, d, ms)
    if k == "ydus":
        return int(v or 0).to_bytes(8, "big")
    if k in ("bytes", "pixels"):
        if v is None:
            return b"\x00" * w
        raise ValueError("bytes/pixels need raw bytes")
    raise ValueError(f"unknown kind {k}")


def _txt(s, w, right):
    if isinstance(s, (bytes, bytearray)):  # verbatim token (e.g. left-justified): must be exactly w bytes
        if len(s) != w:
            raise ValueError(f"verbatim token {s!r} is not {w} bytes")
        return bytes(s)
    if not isinstance(s, str):
        s = str(s)
    b = s.encode("ascii")
    if len(b) > w:
        raise ValueError(f"text {s!r} does not fit {w} bytes")
    return b.rjust(w) if right else b.ljust(w)


class FileBuilder:
    """one product file: a placed instance + a byte buffer + the record of what was written"""

    def __init__(self, inst):
        self.inst = inst
        self.buf = bytearray(b" " * inst["total"])
        self.truth = {}  # (record index, path) -> value as given
        self.index = []
        for r, rec in enumerate(inst["records"]):
            idx = {}
            for path, off, leaf, arr in L.leaves(rec):
                idx[path] = (off, leaf, arr)
            self.index.append(idx)
            if inst["file"] == "image" and r == 1:
                # binary line prefixes start zeroed
                for i in range(rec["count"]):
                    s = rec["off"] + i * rec["len"]
                    self.buf[s:s + rec["len"]] = b"\x00" * rec["len"]
        if inst["file"] == "trailer":
            for rec in inst["records"][1:]:
                self.buf[rec["off"]:rec["off"] + rec["len"]] = b"\x00" * rec["len"]
        # binary preambles zeroed, then the values the framing obliges the file to declare
        for r, rec in enumerate(inst["records"]):
            for i in range(rec.get("count", 1)):
                s = rec["off"] + i * rec["len"]
                if "preamble.record_length" in self.index[r]:
                    self.buf[s:s + 12] = b"\x00" * 12
        for r, path, val in inst["declared"]:
            rec = inst["records"][r - 1]
            for i in range(rec.get("count", 1)):
                self.put(r - 1, path, val, line=i, declared=True)

    def rec(self, name, nth=0):
        """index of the nth record called name"""
        hits = [i for i, r in enumerate(self.inst["records"]) if r["name"] == name]
        return hits[nth]

    def where(self, r, path, line=0):
        off, leaf, _ = self.index[r][path]
        rec = self.inst["records"][r]
        return rec["off"] + line * rec["len"] + off, leaf

    def put(self, r, path, value, line=0, declared=False):
        pos, leaf = self.where(r, path, line)
        b = enc(leaf, value)
        self.buf[pos:pos + len(b)] = b
        self.truth[(r, path, line)] = value
        return pos

    def raw(self, r, path, line=0):
        pos, leaf = self.where(r, path, line)
        return bytes(self.buf[pos:pos + leaf["w"]])

    def paths(self, r):
        return list(self.index[r].keys())

    def bytes(self):
        return bytes(self.buf)


# ----------------------------------------------------------------------------------------------------------
# exact value of what a text / binary token denotes (the harness owns the token -> value map)
# ----------------------------------------------------------------------------------------------------------
def exact_float(text, e=0):
    """the real number an ASCII float token denotes, scaled by 10**e, rounded once to the nearest double"""
    t = text.strip().lower()
    if t in ("nan", "+nan", "-nan"):
        return float("nan")
    if t in ("inf", "+inf", "infinity", "+infinity"):
        return float("inf")
    if t in ("-inf", "-infinity"):
        return float("-inf")
    if "e" in t:
        m, x = t.split("e")
        fr = Fraction(m) * Fraction(10) ** int(x)
    else:
        fr = Fraction(t)
    fr *= Fraction(10) ** e
    if fr == 0 and t.startswith("-"):
        return -0.0
    try:
        return float(fr)
    except OverflowError:
        return float("inf") if fr > 0 else float("-inf")


def scaled_int(v, e):
    return float(Fraction(v) * Fraction(10) ** e) if e else v


def ulps(a, b):
    """distance in units in the last place between two finite doubles"""
    import math

    if a == b:
        return 0
    if math.isnan(a) or math.isnan(b) or math.isinf(a) or math.isinf(b):
        return float("inf")

    def key(x):
        (i,) = struct.unpack(">q", struct.pack(">d", x))
        return i if i >= 0 else -(i & 0x7FFFFFFFFFFFFFFF)

    return abs(key(a) - key(b))
