"""Projection of a real xarray.DataTree into the abstract tree of the specification:
    path -> leaf  with  leaf = kind (var | coord | attr), dims, dtype kind, shape, unit / attrs, values.

Only public xarray API is used.  Values are normalised to plain Python (NaN-aware comparison helpers below)."""
import math

import numpy as np


def norm_scalar(v):
    """numpy scalar / python scalar -> tagged plain python value"""
    if isinstance(v, (np.generic,)):
        if isinstance(v, np.datetime64):
            return ("M", int(v.astype("datetime64[ns]").astype("int64")))
        if isinstance(v, np.timedelta64):
            return ("m", int(v.astype("timedelta64[ns]").astype("int64")))
        v = v.item()
    if isinstance(v, bool):
        return ("b", v)
    if isinstance(v, int):
        return ("i", v)
    if isinstance(v, float):
        return ("f", v)
    if isinstance(v, complex):
        return ("c", (v.real, v.imag))
    if isinstance(v, str):
        return ("U", v)
    if isinstance(v, bytes):
        return ("S", v)
    if v is None:
        return ("none", None)
    if isinstance(v, (list, tuple)):
        return ("list" if isinstance(v, list) else "tuple", [norm_scalar(x) for x in v])
    if isinstance(v, np.ndarray):
        return ("ndarray:" + v.dtype.kind, [norm_scalar(x) for x in v.tolist()] if v.dtype.kind != "O" else
                [("obj", repr(type(x).__name__)) for x in v.ravel().tolist()])
    if isinstance(v, dict):
        return ("dict", {k: norm_scalar(x) for k, x in v.items()})
    return ("opaque", type(v).__name__)


def values_of(arr):
    """ndarray -> nested python lists of tagged scalars (flattened row-major) + dtype kind"""
    a = np.asarray(arr)
    kind = a.dtype.kind
    if kind == "M":
        flat = [("M", int(x)) for x in a.astype("datetime64[ns]").astype("int64").ravel().tolist()]
    elif kind == "m":
        flat = [("m", int(x)) for x in a.astype("timedelta64[ns]").astype("int64").ravel().tolist()]
    elif kind == "O":
        flat = [norm_scalar(x) for x in a.ravel().tolist()]
    elif kind == "c":
        flat = [("c", (complex(x).real, complex(x).imag)) for x in a.ravel().tolist()]
    else:
        flat = [norm_scalar(x) for x in a.ravel().tolist()]
    return kind, flat


def project_tree(tree, load=True, skip_data=("data",)):
    """-> {node path: {"vars": {name: leaf}, "attrs": {name: tagged}, "coords": [names], "order": [var names]}}"""
    out = {}
    for node in tree.subtree:
        ds = node.to_dataset(inherit=False)
        vars_ = {}
        for name, var in ds.variables.items():
            leaf = {
                "dims": list(var.dims),
                "shape": list(var.shape),
                "dtype_kind": getattr(var.dtype, "kind", None),
                "dtype_is_numpy": isinstance(var.dtype, np.dtype),
                "attrs": {k: norm_scalar(v) for k, v in var.attrs.items()},
                "is_coord": name in ds.coords,
                "encoding": dict(var.encoding),
            }
            if load and not (name in skip_data):
                k, flat = values_of(var.values)
                leaf["values"] = flat
                leaf["loaded_kind"] = k
                leaf["loaded_shape"] = list(np.asarray(var.values).shape)
            vars_[name] = leaf
        out[node.path] = {
            "vars": vars_,
            "attrs": {k: norm_scalar(v) for k, v in ds.attrs.items()},
            "order": list(ds.variables),
            "children": list(node.children),
        }
    return out


def same_value(a, b, ulp=0):
    """tagged values equal (NaN == NaN; -0.0 distinguished only when ulp == 0 and both floats)"""
    ta, va = a
    tb, vb = b
    if ta != tb:
        # int vs float with the same numeric value is still a type difference
        return False
    if ta == "f":
        return _feq(va, vb, ulp)
    if ta == "c":
        return _feq(va[0], vb[0], ulp) and _feq(va[1], vb[1], ulp)
    if ta in ("list", "tuple") or ta.startswith("ndarray"):
        return len(va) == len(vb) and all(same_value(x, y, ulp) for x, y in zip(va, vb))
    if ta == "dict":
        return va.keys() == vb.keys() and all(same_value(va[k], vb[k], ulp) for k in va)
    return va == vb


def _feq(x, y, ulp):
    if math.isnan(x) or math.isnan(y):
        return math.isnan(x) and math.isnan(y)
    if x == y:
        return True
    if ulp:
        from .synth import ulps

        return ulps(x, y) <= ulp
    return False


def fingerprint(tree, load_data=True):
    """canonical, comparable form of a whole tree incl. pixel values (used for 'identical trees' comparisons)"""
    import hashlib
    import json

    proj = project_tree(tree, load=True, skip_data=())
    # make NaN comparable
    def canon(x):
        if isinstance(x, float):
            if math.isnan(x):
                return "NaN"
            if x == 0 and math.copysign(1, x) < 0:
                return "-0.0"
            return repr(x)
        if isinstance(x, (list, tuple)):
            return [canon(i) for i in x]
        if isinstance(x, dict):
            return {str(k): canon(v) for k, v in x.items()}
        if isinstance(x, bytes):
            return x.hex()
        return x

    return canon(proj)


def diff(a, b, path=""):
    """first differences between two canonical projections (list of strings, capped)"""
    out = []

    def rec(x, y, p):
        if len(out) > 20:
            return
        if type(x) is not type(y):
            out.append(f"{p}: type {type(x).__name__} vs {type(y).__name__}: {str(x)[:80]} | {str(y)[:80]}")
        elif isinstance(x, dict):
            for k in x.keys() | y.keys():
                if k not in x:
                    out.append(f"{p}/{k}: only in second")
                elif k not in y:
                    out.append(f"{p}/{k}: only in first")
                else:
                    rec(x[k], y[k], f"{p}/{k}")
            if list(x.keys()) != list(y.keys()) and x.keys() == y.keys():
                out.append(f"{p}: key order differs: {list(x.keys())[:8]} vs {list(y.keys())[:8]}")
        elif isinstance(x, list):
            if len(x) != len(y):
                out.append(f"{p}: length {len(x)} vs {len(y)}")
            else:
                for i, (u, v) in enumerate(zip(x, y)):
                    rec(u, v, f"{p}[{i}]")
        elif x != y:
            out.append(f"{p}: {str(x)[:80]} != {str(y)[:80]}")

    rec(a, b, path)
    return out
