"""The same products opened by FRESH interpreters under different process-level settings and with the different spellings of the path
argument the public function accepts; every tree must equal the one a plain interpreter returns for the plain string path.

  interpreter   python  |  python -O (asserts stripped)  |  python -OO  |  -X dev
  path          str  |  pathlib.Path  |  relative to the working directory  |  trailing slash  |  file:// URL  |  with a storage_options dict

(Alos2.tla: the result of Open is a function of the product and the options -- not of the interpreter's optimisation level nor of how
the location was spelled.)  Differences are classified like session findings and reported by the property that owns the class."""
import json
import os
import subprocess
import sys

from . import checklib, product, session

CHILD = r"""
import json, os, sys, pathlib
spec = json.load(open(sys.argv[1]))
import ceos_alos2
from harness import project
out = []
def work(item):
    d, form = item["dir"], item["form"]
    try:
        if form == "str":
            arg, opts = d, {}
        elif form == "Path":
            arg, opts = pathlib.Path(d), {}
        elif form == "relative":
            os.chdir(os.path.dirname(d)); arg, opts = os.path.basename(d), {}
        elif form == "relative-dot":
            os.chdir(os.path.dirname(d)); arg, opts = "./" + os.path.basename(d), {}
        elif form == "slash":
            arg, opts = d + "/", {}
        elif form == "url":
            arg, opts = "file://" + d, {}
        elif form == "storage_options":
            arg, opts = d, {"storage_options": {"auto_mkdir": False}}
        opts = dict(opts, use_cache=False, records_per_chunk=item.get("rpc", 2))
        tree = ceos_alos2.open_alos2(arg, backend_options=opts)
        fp = project.fingerprint(tree)
        rep = repr(tree)
        import numpy as np
        def plain(v, depth=0):
            if isinstance(v, (str, bool, int, float, np.generic)):
                return True
            if isinstance(v, (list, tuple)) and depth < 6:
                return all(plain(x, depth + 1) for x in v)
            return False
        odd = []
        for node in tree.subtree:
            ds = node.to_dataset(inherit=False)
            odd += [f"{node.path}@{k}: {type(v).__name__}" for k, v in ds.attrs.items() if not plain(v)]
            for name, var in ds.variables.items():
                odd += [f"{node.path}/{name}@{k}: {type(v).__name__}" for k, v in var.attrs.items() if not plain(v)]
                if not isinstance(var.dtype, np.dtype) or var.dtype.kind not in "biufcMmU":
                    odd.append(f"{node.path}/{name}: dtype {var.dtype!r}")
        loads = {}
        for node in tree["imagery"].children:
            da = tree[f"imagery/{node}/data"]
            n_ = da.shape[0]
            loads[node] = [da.isel(rows=s_).values.tobytes().hex() for s_ in (slice(None), slice(1, n_), slice(0, n_, 2), slice(None, None, -1), [0, n_ - 1])]
        return {"ok": True, "fp": fp, "odd": odd, "loads": loads}
    except BaseException as e:
        return {"ok": False, "err": f"{type(e).__name__}: {str(e)[:200]}"}
def deep(k, item):
    return work(item) if k == 0 else deep(k - 1, item)
ctx = spec.get("ctx", "plain")
for item in spec["items"]:
    if ctx == "asyncio":      # the caller is inside a running event loop (a notebook cell, an async request handler)
        import asyncio
        async def main():
            return work(item)
        out.append(asyncio.run(main()))
    elif ctx == "deep-stack":  # the caller is already 600 frames deep in its own code
        out.append(deep(600, item))
    elif ctx == "thread":      # the caller is a worker thread, not the main thread
        import threading
        box = []
        t = threading.Thread(target=lambda: box.append(work(item))); t.start(); t.join()
        out.append(box[0])
    elif ctx == "decimal-prec-6":  # the application lowered the precision of its (thread-local) decimal context
        import decimal
        decimal.getcontext().prec = 6
        out.append(work(item))
    elif ctx == "numpy-errors-raise":  # the application turned NumPy floating-point warnings into errors
        import numpy
        numpy.seterr(all="raise")
        out.append(work(item))
    else:
        out.append(work(item))
json.dump(out, open(sys.argv[2], "w"))
"""

INTERPRETERS = {"python": [], "python -O": ["-O"], "python -OO": ["-OO"], "python -X dev": ["-X", "dev"],
                # bytes/str comparisons are errors; every warning is an error (pytest's filterwarnings = error of a downstream project);
                # other string-hash seeds (set / dict-key-intersection orders differ between interpreters)
                "python -bb": ["-bb"], "python -W error": ["-W", "error"], "PYTHONHASHSEED=1": ["@PYTHONHASHSEED=1"], "PYTHONHASHSEED=4": ["@PYTHONHASHSEED=4"],
                "PYTHONHASHSEED=random": ["@PYTHONHASHSEED=random"]}
FORMS = ["Path", "relative", "relative-dot", "slash", "url", "storage_options"]


def _child(flags, items, base, tag, ctx="plain"):
    spec, out = os.path.join(base, f"spec_{tag}.json"), os.path.join(base, f"out_{tag}.json")
    json.dump({"items": items, "ctx": ctx}, open(spec, "w"))
    env = checklib.worker_env(os.path.join(base, f"xdg_{tag}"))
    env.pop("PYTHONOPTIMIZE", None)
    for f in [f for f in flags if f.startswith("@")]:
        k, v = f[1:].split("=", 1)
        env[k] = v
    flags = [f for f in flags if not f.startswith("@")]
    # (-W ignore first: a later -W error on the command line overrides it)
    txt, _ = checklib.run_child([sys.executable, "-W", "ignore"] + flags + ["-c", CHILD, spec, out], env)
    if not os.path.exists(out):
        return None, txt[-600:]
    return json.load(open(out)), ""


def task(t):
    base = checklib.fresh_dir("env_")
    prods = []
    for i, (level, images) in enumerate([("1.5", (("HH", None, 4, 3), ("HV", None, 3, 2))), ("1.1", (("HH", "F1", 3, 2), ("HH", "F2", 4, 1)))]):
        b = product.build_product(level=level, images=images, seed=t["seed"] + i, drift=i)
        prods.append(b.write(os.path.join(base, f"prod{i}", "product")))
    out = {"task": t, "bad": []}
    ref, err = _child([], [{"dir": d, "form": "str"} for d in prods], base, "ref")
    if ref is None or not all(r["ok"] for r in ref):
        out["bad"].append(("spurious_error", f"a plain interpreter could not open an intact product: {err or [r.get('err') for r in ref]}"))
        return out
    if t["kind"] == "interpreter":
        items = [{"dir": d, "form": "str"} for d in prods]
        got, err = _child(INTERPRETERS[t["what"]], items, base, "v")
    elif t["kind"] == "context":
        items = [{"dir": d, "form": "str", "rpc": 1} for d in prods]
        ref, err = _child([], items, base, "ref1")
        got, err = _child([], items, base, "v", ctx=t["what"])
    else:
        items = [{"dir": d, "form": t["what"]} for d in prods]
        got, err = _child([], items, base, "v")
    if got is None:
        out["bad"].append(("spurious_error", f"{t['what']}: the interpreter died: {err}"))
        return out
    for r0, r1, d in zip(ref, got, prods):
        if not r1["ok"]:
            out["bad"].append(("spurious_error", f"{t['what']}: open_alos2 raised {r1['err']} (a plain interpreter with the plain string path opens the product)"))
            continue
        for o in r1.get("odd", [])[:3]:
            out["bad"].append(("types", f"{t['what']}: not a plain attribute / numpy dtype: {o}"))
        if r0.get("loads") != r1.get("loads"):
            out["bad"].append(("load_values", f"{t['what']}: selections loaded from the tree differ from those a plain interpreter loads"))
        for cat, msgs in session.categorise(r0["fp"], r1["fp"]).items():
            out["bad"].append((cat, f"{t['what']}: the tree differs from the one a plain interpreter returns for the string path: {msgs[0]}"))
    return out


def run(chk, owners):
    """owners: finding classes this property reports (others are noted)"""
    from . import sessioncheck

    sessioncheck.prepare_layouts()
    from . import layout as L

    L.instances([dict(file="image", kind="signal", n=3, ndata=16, bps=8), dict(file="image", kind="signal", n=4, ndata=8, bps=8)])
    tasks = [dict(kind="interpreter", what=w, seed=chk.seed + 7 * i) for i, w in enumerate(INTERPRETERS) if w != "python"]
    tasks += [dict(kind="path", what=w, seed=chk.seed + 100 + 7 * i) for i, w in enumerate(FORMS)]
    tasks += [dict(kind="context", what=w, seed=chk.seed + 200 + 7 * i) for i, w in enumerate(("asyncio", "deep-stack", "thread", "decimal-prec-6", "numpy-errors-raise"))]
    others = {}
    for res in checklib.pmap(task, tasks, chk.scratch, procs=len(tasks)):
        chk.count(2, f"env:{res['task']['what']}")
        for cat, msg in res["bad"]:
            if cat in owners:
                chk.violation(f"environment:{cat}:{res['task']['what']}", msg, {"task": res["task"]})
            else:
                others[cat] = others.get(cat, 0) + 1
    chk.traces(len(tasks))
    chk.rule_extra.append("process settings: the same two products opened by fresh interpreters (plain, -O, -OO, -X dev, -bb, -W error, three other string-hash seeds) and with 6 spellings of the path argument "
                          "(Path object, relative, ./relative, trailing slash, file:// URL, storage_options) and from 3 calling contexts (inside a running asyncio "
                          "event loop, 600 frames deep, a worker thread, decimal precision 6, NumPy errors raised; records_per_chunk=1), complete trees and five selections per image compared with the plain one")
    if others:
        chk.note(f"process-setting differences of classes owned by other properties: {others}")
