"""C09 at system-call grain: the real writer is recorded once with strace; then, for EVERY call boundary k, the state a crash right
after the k-th call leaves on disk is materialised and the property's three steps are run on it (default open = uncached tree;
create_cache=True succeeds and repairs; the cached open is right).  Unlike planted byte prefixes this follows whatever the writer
really does (in-place truncate + write, temp file + rename, lock files, several passes).  The recorded calls are also validated by
TLC against the writer model (spec/Trace_CacheSys.tla)."""
import json
import os
import shutil
import sys

from . import checklib, product, project, systrace

WRITER = {
    "option": 'import sys, ceos_alos2; ceos_alos2.open_alos2(sys.argv[1], backend_options={"create_cache": True, "use_cache": False, "records_per_chunk": 2})',
    "option-default": 'import sys, ceos_alos2; ceos_alos2.open_alos2(sys.argv[1], backend_options={"create_cache": True})',
    "cli": 'import sys, os\nfrom harness import cacherun\nfor n in sorted(os.listdir(sys.argv[1])):\n    if n.startswith("IMG-") and not n.endswith(".index"):\n        cacherun.run_cli(os.path.join(sys.argv[1], n), 5)\n',
}


def classify(path, idx_paths, dirs):
    for m, p in idx_paths.items():
        if path == p:
            return f"idx:{m}"
    if path in dirs or any(p.startswith(path.rstrip("/") + "/") for p in idx_paths.values()):
        return "dir"
    if os.path.dirname(path) in {os.path.dirname(p) for p in idx_paths.values()}:
        return "tmp:" + os.path.basename(path)[:40]
    return "other"


def scenario(task):
    import ceos_alos2

    xdg = os.environ["XDG_CACHE_HOME"]
    cache_root = os.path.join(xdg, "xarray-ceos-alos2")
    shutil.rmtree(cache_root, ignore_errors=True)
    images = (("HH", "F1", 4, 3), ("HH", "F2", 3, 2)) if task["level"] == "1.1" else (("HH", None, 4, 3), ("HV", None, 3, 2))
    b = product.build_product(level=task["level"], images=images, seed=task["seed"])
    pdir = b.write(os.path.join(checklib.fresh_dir("sys_"), "product"))
    out = {"task": task, "bad": [], "states": 0, "lines": [], "calls": 0}
    env = checklib.worker_env(xdg)
    names = [im["name"] for im in b.images]
    try:
        ref = project.fingerprint(ceos_alos2.open_alos2(pdir, backend_options={"use_cache": False}))
        roots = [cache_root, pdir]
        os.makedirs(cache_root, exist_ok=True)
        # ---- what lies there before the writer starts
        if task["pre"] in ("complete", "torn"):
            import subprocess

            p = subprocess.run([sys.executable, "-W", "ignore", "-c", WRITER[task["producer"]], pdir], env=env, stdout=subprocess.PIPE, stderr=subprocess.STDOUT, text=True)
            if p.returncode != 0:
                out["bad"].append(("writer-failed", f"uninterrupted {task['producer']} writer failed: {p.stdout[-300:]}"))
                return out
            if task["pre"] == "torn":
                for pth, data in systrace.final_contents(roots).items():
                    if pth.endswith(".index"):
                        with open(pth, "wb") as f:
                            f.write(data[: len(data) // 3])
        initial = systrace.final_contents(roots)
        # ---- record the writer
        rc, evs, txt = systrace.record([sys.executable, "-W", "ignore", "-c", WRITER[task["producer"]], pdir], env, roots)
        if rc != 0:
            out["bad"].append(("writer-failed", f"the {task['producer']} writer failed under strace: {txt[-300:]}"))
            return out
        wrote = {e["path"] for e in evs if e["call"] == "open" and e["ok"]}
        evs = [e for e in evs if not (e["call"] == "close" and e["path"] not in wrote)]
        final = systrace.final_contents(roots)
        idx = {os.path.basename(p)[:-6]: p for p in final if p.endswith(".index") and p not in initial or (p.endswith(".index") and final[p] != initial.get(p))}
        idx = {m: p for m, p in idx.items() if m in names} or {os.path.basename(p)[:-6]: p for p in final if p.endswith(".index")}
        out["calls"] = len(evs)
        # ---- the trace for TLC
        dirs = {e["path"] for e in evs if e["call"] == "mkdir"}
        lines = [{"e": "hdr", "tid": 0, "doclen": {f"idx:{m}": len(final[p]) for m, p in idx.items()}}]
        for e in evs:
            if not e["ok"] and e["call"] != "write":
                continue
            f = classify(e["path"], idx, dirs)
            if e["call"] == "open":
                lines.append({"e": "open", "f": f, "trunc": "O_TRUNC" in e["flags"]})
            elif e["call"] == "write":
                lines.append({"e": "write", "f": f, "off": e["off"] if e["off"] >= 0 else -1, "n": e["n"]})
            elif e["call"] == "rename":
                lines.append({"e": "rename", "f": f, "to": classify(e["path2"], idx, dirs)})
            elif e["call"] in ("mkdir", "unlink", "rmdir", "close"):
                lines.append({"e": e["call"], "f": f})
            else:
                lines.append({"e": e["call"], "f": f})
        lines.append({"e": "exit", "status": rc})
        out["lines"] = lines
        # ---- every call boundary as a crash point
        def ideal(tag, opts):
            try:
                d = project.diff(ref, project.fingerprint(ceos_alos2.open_alos2(pdir, backend_options=dict(opts))))
                if d:
                    out["bad"].append((tag + ":wrong-tree", f"{d[:2]}"))
                return not d
            except BaseException as e:  # noqa: B902
                out["bad"].append((tag + ":raises", f"{type(e).__name__}: {str(e)[:140]}"))
                return False

        for k, st in systrace.crash_states(evs, initial, final):
            what = "nothing yet" if k == 0 else f"call {k}/{len(evs)} {evs[k - 1]['call']}({os.path.basename(evs[k - 1]['path'])[-28:]})"
            # put the state in place: the cache root entirely, the product directory's non-product files
            systrace.materialise({p: v for p, v in st.items() if p.startswith(cache_root)}, cache_root, cache_root)
            for n in os.listdir(pdir):
                if n not in b.files:
                    q = os.path.join(pdir, n)
                    shutil.rmtree(q) if os.path.isdir(q) else os.remove(q)
            for p, v in st.items():
                if p.startswith(pdir + "/") and os.path.basename(p) not in b.files:
                    if v is None:
                        os.makedirs(p, exist_ok=True)
                    else:
                        with open(p, "wb") as f:
                            f.write(v)
            out["states"] += 1
            nb = len(out["bad"])
            ideal(f"default-open-after-crash", {})
            if ideal(f"create-after-crash", {"create_cache": True}):
                # "repairs it": afterwards every image has a usable index in the place a cached open looks first (Alos2!Src # "parse")
                now = systrace.final_contents([cache_root, pdir])

                def state(data):
                    if data is None:
                        return "absent"
                    try:
                        return "full" if json.loads(data).get("__type__") == "group" else "torn"
                    except Exception:
                        return "torn"

                for m in names:
                    loc = state(next((v for p, v in now.items() if p.startswith(cache_root) and os.path.basename(p) == m + ".index"), None))
                    adj = state(now.get(os.path.join(pdir, m + ".index")))
                    if not (loc == "full" or (loc == "absent" and adj == "full")):
                        out["bad"].append(("not-repaired", f"create_cache=True succeeded but image {m} has no usable index (user cache: {loc}, adjacent: {adj})"))
            ideal(f"cached-open-after-repair", {"use_cache": True})
            for i in range(nb, len(out["bad"])):
                out["bad"][i] = (out["bad"][i][0], f"crash after {what} [{task['producer']} writer, cache {task['pre']} before]: {out['bad'][i][1]}")
            if len(out["bad"]) > nb:
                out["first_bad_state"] = {os.path.relpath(p, os.path.dirname(cache_root)) if p.startswith(cache_root) else os.path.basename(p): (None if v is None else len(v))
                                          for p, v in st.items() if not os.path.basename(p) in b.files}
                break
    finally:
        shutil.rmtree(os.path.dirname(pdir), ignore_errors=True)
        shutil.rmtree(cache_root, ignore_errors=True)
    return out
