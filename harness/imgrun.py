"""Worker-side driver: build one product, open it through open_alos2 on one or more filesystems, load selections,
compare pixels bit for bit with the synthesised matrix and return the recorded I/O events (vtrace)."""
import os
import time

import numpy as np

from . import checklib, iotrace, oracle, product, tracefs


def put_on_fs(b, fsname, tag):
    """-> url/path for open_alos2"""
    if fsname == "local":
        return b.write(checklib.fresh_dir("prod_"))
    if fsname == "file":
        return "file://" + b.write(checklib.fresh_dir("prod_"))
    if fsname == "memory":
        import fsspec

        fs = fsspec.filesystem("memory")
        root = f"/verif_{os.getpid()}_{tag}"
        for name, data in b.files.items():
            fs.pipe(f"{root}/{name}", data)
        return "memory://" + root
    if fsname == "vtrace":
        return tracefs.put_product(f"p{os.getpid()}_{tag}", b.files)
    if fsname == "vtrace-buffered":   # an object-store style file system: files are fsspec AbstractBufferedFile objects
        url = tracefs.put_product(f"p{os.getpid()}_{tag}", b.files)
        tracefs.BUFFERED.add(tracefs.norm(url))
        return url
    if fsname == "local%":   # a directory name with characters that mean something to string formatting / URL quoting
        return b.write(os.path.join(checklib.fresh_dir("prod_"), "ALOS2%20data 100%d", "50%_done"))
    if fsname in ("zip", "tar"):   # the product as a folder inside an archive, opened through fsspec's chained URLs
        stage = b.write(os.path.join(checklib.fresh_dir("arch_"), "stage", "prod"))
        return _pack(stage, fsname)
    raise ValueError(fsname)


def _pack(stage, kind):
    """(re)build the archive next to the staging directory -> chained url"""
    base = os.path.dirname(os.path.dirname(stage))
    arc = os.path.join(base, "product." + kind)
    if os.path.exists(arc):
        os.remove(arc)
    names = sorted(os.listdir(stage))
    if kind == "zip":
        import zipfile

        with zipfile.ZipFile(arc, "w") as z:
            for n in names:
                z.write(os.path.join(stage, n), f"prod/{n}")
    else:
        import tarfile

        with tarfile.open(arc, "w") as t:
            for n in names:
                t.add(os.path.join(stage, n), f"prod/{n}")
    return f"{kind}://prod::{arc}"


def _stage_of(url):
    return os.path.join(os.path.dirname(url.split("::", 1)[1]), "stage", "prod")


def drop_from_fs(url, fsname):
    if fsname == "memory":
        import fsspec

        fs = fsspec.filesystem("memory")
        try:
            fs.rm(url[len("memory://"):], recursive=True)
        except Exception:
            pass
    elif fsname in ("vtrace", "vtrace-buffered"):
        tracefs.remove(url)
        tracefs.BUFFERED.discard(tracefs.norm(url))
    elif fsname in ("zip", "tar"):
        import shutil

        shutil.rmtree(os.path.dirname(url.split("::", 1)[1]), ignore_errors=True)
    else:
        import shutil

        shutil.rmtree(url.replace("file://", ""), ignore_errors=True)


def apply_fault(url, fsname, name, kind, cut):
    if fsname == "vtrace":
        if kind == "missing":
            tracefs.remove(url, name)
        else:
            tracefs.set_fault_len(url, name, cut)
    elif fsname in ("local", "file", "local%", "zip", "tar"):
        d = _stage_of(url) if fsname in ("zip", "tar") else url.replace("file://", "")
        p = os.path.join(d, name)
        if kind == "missing":
            os.remove(p)
        else:
            with open(p, "r+b") as f:
                f.truncate(cut)
        if fsname in ("zip", "tar"):
            import fsspec

            _pack(d, fsname)
            fsspec.filesystem(fsname, fo=url.split("::", 1)[1]).clear_instance_cache()
    elif fsname == "memory":
        import fsspec

        fs = fsspec.filesystem("memory")
        p = url[len("memory://"):] + "/" + name
        if kind == "missing":
            fs.rm(p)
        else:
            fs.pipe(p, fs.cat(p)[:cut])


def rows_of(sel, n):
    """sel: ("all",) | ("slice", a, b, s) | ("int", i) | ("list", [..]) -> (xarray key, kind, expected rows)"""
    if sel[0] == "all":
        return slice(None), "slice", list(range(n))
    if sel[0] == "slice":
        s = slice(sel[1], sel[2], sel[3])
        rows = list(range(n))[s]
        return s, "slice", rows
    if sel[0] == "int":
        return sel[1], "int", [sel[1] % n]
    if sel[0] == "list":
        return list(sel[1]), "array", [r % n for r in sel[1]]
    if sel[0] == "cells":   # every cell on its own: da.isel(rows=i, columns=j) and da[i, j] (0-d results)
        return None, "cells", list(range(n))
    if sel[0] == "points":  # pointwise (vectorised) selection: (row_k, column_k) pairs
        return list(sel[1]), "points", [r % n for r in sel[1]]
    raise ValueError(sel)


def exercise(case):
    """a case may ask for PROCESS-LEVEL resource limits of the caller (batch nodes and notebook servers run their workers under `ulimit -v`):
    as_limit = soft RLIMIT_AS in bytes for the duration of the case.  The limit is only set when the worker's present address space leaves
    2 GiB of head room under it (otherwise the case runs without it and says so) -- a limit that makes allocations fail would be a fault
    injected by the harness, not a property of the code."""
    lim = case.get("as_limit")
    if not lim:
        return _exercise(case)
    import resource

    old = resource.getrlimit(resource.RLIMIT_AS)
    vm = 0
    for line in open("/proc/self/status"):
        if line.startswith("VmSize:"):
            vm = int(line.split()[1]) * 1024
    applied = vm + (2 << 30) <= lim and (old[1] == resource.RLIM_INFINITY or lim <= old[1])
    if applied:
        resource.setrlimit(resource.RLIMIT_AS, (lim, old[1]))
    try:
        out = _exercise(case)
    finally:
        if applied:
            resource.setrlimit(resource.RLIMIT_AS, old)
    out["as_limit_applied"] = applied
    return out


def _exercise(case):
    """case: dict(level, kind, sample, images=[(pol, scan, n, p)], rpc, seed, fss=[...], sels=[...], cut=None|(image idx, len),
    which image(s) to load: all"""
    import ceos_alos2

    if case.get("big"):
        from . import bigimg

        (pol, scan, n_, p_), = case["images"]
        b = bigimg.build(case.get("level", "1.5"), n_, p_, case["seed"], pol=pol, scan=scan)
    else:
        b = product.build_product(level=case.get("level", "1.5"), kind=case.get("kind"), sample=case.get("sample"),
                                  images=case["images"], seed=case["seed"], pixel_special=case.get("special", True), common_descriptor=case.get("common_descriptor", False))
    out = {"case": case, "runs": []}
    opts = dict(case.get("options") or {})
    if case.get("rpc") is not None:
        opts["records_per_chunk"] = case["rpc"]
    opts.setdefault("use_cache", False)
    for fsname in case["fss"]:
        url = put_on_fs(b, fsname, f"{case['seed']}_{fsname}")
        run = {"fs": fsname, "images": []}
        try:
            cut = case.get("cut")
            faults = list(case.get("faults") or [])
            if cut is not None:
                faults.append(dict(file=f"img{cut[0] + 1}", kind="truncated", cut=cut[1]))
            for ft in faults:
                role = ft["file"]
                nm = {"summary": "summary.txt", "vol": b.names["vol"], "led": b.names["led"], "trl": b.names["trl"]}.get(role)
                if nm is None:
                    nm = b.images[int(role[3:]) - 1]["name"]
                apply_fault(url, fsname, nm, ft["kind"], ft.get("cut", 0))
            tracefs.take_log()
            if case.get("flaky_open") and fsname == "vtrace":
                fo = case["flaky_open"]
                nm = {"summary": "summary.txt", "vol": b.names["vol"], "led": b.names["led"]}.get(fo["file"]) or b.images[int(fo["file"][3:]) - 1]["name"]
                tracefs.arm_fault(url, nm, op=fo.get("op", "cat"), nth=fo.get("nth", 1), consume=fo.get("consume", 0.5), exc=TimeoutError)
            t0 = time.time()
            try:
                with checklib.time_limit(case.get("time_limit", 600)):   # "terminates promptly": an open that never ends is an outcome too
                    tree = ceos_alos2.open_alos2(url, backend_options=dict(opts))
                run["open"] = "ok"
            except BaseException as e:  # noqa: B902 -- the outcome is data here
                tree = None
                run["open"] = f"error:{type(e).__name__}"
                run["open_msg"] = str(e)[:200]
                run["oserror"] = isinstance(e, OSError)
            run["open_s"] = round(time.time() - t0, 3)
            run["open_fault_fired"] = bool(tracefs.clear_flaky())
            run["open_events"] = tracefs.take_log() if fsname == "vtrace" else []
            if tree is not None and case.get("via_copy"):
                # the tree reaches the code that loads from it through a copy (a worker process, a deep copy kept by the application)
                import copy as _copy
                import pickle as _pickle

                tree = {"pickle": lambda t: _pickle.loads(_pickle.dumps(t)), "deepcopy": _copy.deepcopy, "tree.copy": lambda t: t.copy(deep=True)}[case["via_copy"]](tree)
            if tree is not None and case.get("close_first"):
                # the caller keeps the variables and closes the tree (tree.close(), or the end of a `with open_alos2(...)` block) before it
                # loads from them: closing holds nothing the loads need, so nothing changes
                held = {im["group"]: tree[f"imagery/{im['group']}/data"] for im in b.images}
                tracefs.take_log()
                tree.close()
                run["close_events"] = [e for e in tracefs.take_log() if e.get("e") in ("read", "cat", "fopen")]
            for i, im in enumerate(b.images):
                rec = {"group": im["group"], "name": im["name"], "n": im["n"], "p": im["p"], "prefix": im["prefix"],
                       "bps": im["bps"], "loads": []}
                run["images"].append(rec)
                if tree is None:
                    continue
                try:
                    da = held[im["group"]] if case.get("close_first") else tree[f"imagery/{im['group']}/data"]
                    rec["shape"] = list(da.shape)
                    rec["dtype"] = str(da.dtype)
                    rec["enc"] = {k: (dict(v) if isinstance(v, dict) else v) for k, v in da.encoding.items()}
                except Exception as e:
                    rec["shape_error"] = f"{type(e).__name__}: {e}"[:200]
                    continue
                for sel in case["sels"]:
                    key, kind, rows = rows_of(sel, im["n"])
                    ld = {"sel": list(sel), "kind": kind, "rows": rows}
                    tracefs.take_log()
                    if case.get("bigread_limit") and fsname == "vtrace":
                        tracefs.BIGREAD[f"{tracefs.norm(url)}/{im['name']}"] = [case["bigread_limit"], 0]
                    if case.get("flaky_load") and fsname == "vtrace":
                        fl = case["flaky_load"]
                        tracefs.arm_fault(url, im["name"], op="read", nth=fl.get("nth", 1), consume=fl.get("consume", 0.5))
                    try:
                        if kind == "cells":
                            msg = None
                            cells = [(i_, j_) for i_ in range(im["n"]) for j_ in range(im["p"])]
                            if len(cells) > 96:
                                cells = cells[:: max(1, len(cells) // 96)]
                            for i_, j_ in cells:
                                for how, v_ in (("isel", da.isel(rows=i_, columns=j_).values), ("[]", da[i_, j_].values)):
                                    if np.ndim(v_) != 0:
                                        msg = msg or f"cell ({i_},{j_}) through {how}: {np.ndim(v_)}-d result, expected 0-d"
                                    m1 = oracle.pixels_match(np.asarray(v_).reshape(1, 1), im, rows=[i_], cols=[j_])
                                    msg = msg or (m1 and f"single cell through {how}: {m1}")
                            ld["outcome"] = "equal" if msg is None else "differ"
                            ld["msg"] = msg
                            ld["skip_trace"] = True
                            raise StopIteration
                        if kind == "points":
                            import xarray as xr

                            cols_ = [c % im["p"] for c in sel[2]]
                            vals = da.isel(rows=xr.DataArray(key, dims="z"), columns=xr.DataArray(cols_, dims="z")).values
                            full = np.asarray(vals).reshape(-1)
                            msg = None
                            for kk, (r_, c_) in enumerate(zip(rows, cols_)):
                                m1 = oracle.pixels_match(full[kk:kk + 1].reshape(1, 1), im, rows=[r_], cols=[c_])
                                msg = msg or m1
                            ld["outcome"] = "equal" if msg is None else "differ"
                            ld["msg"] = msg
                            raise StopIteration
                        vals = da.isel(rows=key).values
                        if kind == "int":
                            ld["ndim"] = int(np.ndim(vals))
                            vals = np.asarray(vals).reshape(1, -1) if np.ndim(vals) == 1 else vals
                        msg = oracle.pixels_match(vals, im, rows=rows)
                        ld["outcome"] = "equal" if msg is None else "differ"
                        ld["msg"] = msg
                    except StopIteration:
                        pass
                    except BaseException as e:  # noqa: B902
                        ld["outcome"] = "error"
                        ld["msg"] = f"{type(e).__name__}: {e}"[:200]
                    ld["fault_fired"] = bool(tracefs.clear_flaky())
                    if case.get("bigread_limit") and fsname == "vtrace":
                        ld["fault_fired"] = ld["fault_fired"] or tracefs.BIGREAD.pop(f"{tracefs.norm(url)}/{im['name']}", [0, 0])[1] > 0
                    ld["events"] = tracefs.take_log() if (fsname == "vtrace" and not ld.get("skip_trace")) else []
                    rec["loads"].append(ld)
        finally:
            tracefs.clear_faults()
            drop_from_fs(url, fsname)
        out["runs"].append(run)
    return out


def add_traces(batch, result, expect_open="ok"):
    """turn the vtrace runs of an exercise() result into traces of the batch -> list of (tid, description)"""
    tids = []
    case = result["case"]
    for run in result["runs"]:
        if run["fs"] != "vtrace":
            continue
        names = {im["name"] for im in run["images"]}
        for idx, im in enumerate(run["images"]):
            cut = case.get("cut")
            flen = cut[1] if cut is not None and cut[0] == idx else None
            rpc = case.get("rpc") if case.get("rpc") is not None else 1024
            if isinstance(rpc, str):
                # a request size given as a byte size: the number of lines per group is what the opened image itself advertises
                rpc = int((im.get("enc") or {}).get("preferred_chunksizes", {}).get("rows", im["n"]))
            geom = iotrace.geom_of(im, min(int(rpc), im["n"] + 1), flen)
            tid = batch.start(geom, meta={"case": case, "image": im["name"]})
            batch.mark(tid, e="begin_open")
            for ev in run["open_events"]:
                if ev["f"] in names and ev["f"] != im["name"]:
                    continue  # another image of the product, opened in the same call
                batch.event(tid, ev, im["name"])
            ok = run["open"] == "ok" and "shape" in im
            batch.mark(tid, e="opened", outcome="ok" if ok else "error", shape=im.get("shape", [0, 0]), expect=expect_open)
            for ld in im["loads"]:
                if ld.get("skip_trace"):
                    continue  # many single-cell loads judged by value only
                batch.mark(tid, e="begin_load", rows=ld["rows"], kind=ld["kind"],
                           brows=iotrace.backend_rows(ld["kind"], ld["rows"], im["n"]))
                for ev in ld["events"]:
                    batch.event(tid, ev, im["name"])
                batch.mark(tid, e="loaded", outcome=ld["outcome"])
            tids.append(tid)
    return tids
