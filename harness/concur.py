"""Concurrent opens: several threads call open_alos2 on DIFFERENT products at the same time (a thread pool / dask worker), with a
1 microsecond interpreter switch interval so that a switch falls inside the parsing of a record.  Each result must equal the tree
the same product yields when opened alone.  (Alos2.tla states every call's result as a function of the product only; anything the
parser keeps on shared module-level objects between two steps of one parse breaks that under this schedule family.)"""
import sys
from concurrent.futures import ThreadPoolExecutor

from . import imgrun, product, project


def stress(task):
    import ceos_alos2

    variants = [dict(np=1, nch=1, f1=66, f2=100, f3=200, f4=300), dict(np=5, nch=2, f1=90, f2=70, f3=260, f4=120), dict(np=3, nch=4, f1=200, f2=66, f3=66, f4=500)]
    built, urls, refs = [], [], []
    out = {"task": task, "bad": [], "opens": 0}
    try:
        for i, v in enumerate(variants):
            b = product.build_product(level=("1.5", "1.1")[(i + task["seed"]) % 2], images=(("HH", None, 2 + i, 2),), seed=task["seed"] * 10 + i, leader=v)
            built.append(b)
            urls.append(imgrun.put_on_fs(b, task["fs"], f"cc_{task['seed']}_{i}"))
        for i, u in enumerate(urls):
            try:
                refs.append(project.fingerprint(ceos_alos2.open_alos2(u, backend_options={"use_cache": False})))
            except BaseException as e:  # noqa: B902 -- a well-formed product that does not even open alone
                out["bad"].append(("raises", f"product {i} (leader variant {variants[i]}) opened alone raised {type(e).__name__}: {str(e)[:160]}"))
                return out
        old = sys.getswitchinterval()
        sys.setswitchinterval(1e-6)
        try:
            def one(i):
                try:
                    return i, project.fingerprint(ceos_alos2.open_alos2(urls[i], backend_options={"use_cache": False, "records_per_chunk": 1 + i})), None
                except BaseException as e:  # noqa: B902
                    return i, None, f"{type(e).__name__}: {str(e)[:160]}"

            for rnd in range(task["rounds"]):
                # one thread per product (the same product is never opened twice at once: fsspec's memory filesystem hands out ONE file
                # object per path, which two concurrent opens of the same image would share)
                with ThreadPoolExecutor(len(urls)) as ex:
                    for i, fp, err in ex.map(one, [(rnd + k) % len(urls) for k in range(len(urls))]):
                        out["opens"] += 1
                        if err:
                            out["bad"].append(("raises", f"round {rnd}: concurrent open of product {i} raised {err}"))
                        else:
                            from . import session

                            d = session.categorise(session.patch_rpc(refs[i], 1 + i), fp)
                            if d:
                                c = sorted(d)[0]
                                out["bad"].append((f"differs:{c}", f"round {rnd}: concurrent open of product {i} differs from the same product opened alone: {d[c][:2]}"))
                if out["bad"]:
                    break
        finally:
            sys.setswitchinterval(old)
    finally:
        for u in urls:
            imgrun.drop_from_fs(u, task["fs"])
    return out


def layouts():
    from . import layout as L

    L.tables()
    want = [dict(file="volume", nfp=3), dict(file="trailer", nlow=0, lens=[])]
    for v in [dict(np=1, nch=1, f1=66, f2=100, f3=200, f4=300), dict(np=5, nch=2, f1=90, f2=70, f3=260, f4=120), dict(np=3, nch=4, f1=200, f2=66, f3=66, f4=500)]:
        for nmap in (0, 1):
            want.append(dict(file="leader", nmap=nmap, attlen=16384, **v))
    for n in (2, 3, 4):
        want += [dict(file="image", kind="processed", n=n, ndata=4, bps=2), dict(file="image", kind="signal", n=n, ndata=16, bps=8)]
    L.instances(want)


def run(chk, rounds=None):
    from . import checklib

    layouts()
    rounds = rounds or (10 if chk.tier == "quick" else 100)
    tasks = [dict(seed=chk.seed + 50 + i, fs=("local", "memory", "vtrace", "file")[i % 4], rounds=rounds) for i in range(8)]
    results = checklib.pmap(stress, tasks, chk.scratch, procs=8)
    for res in results:
        chk.count(res["opens"], f"concurrent-opens:{res['task']['fs']}")
        for what, msg in res["bad"][:2]:
            chk.violation(f"concurrent-open:{what}", f"[{res['task']['fs']}] {msg}", {"task": res["task"]})
    chk.rule_extra.append("concurrent opens: one thread per product (3 products with different leader framing), 1 us switch interval, every result compared with the product opened alone")
    chk.traces(len(results))
    chk.sample({"concurrent_opens": sum(r["opens"] for r in results), "threads": 4, "switch_interval_s": 1e-6})
    return results
