"""Syscall-level observation of the cache writers (strace), and crash states derived from it.

record()      runs a writer process under `strace -f -y` and returns the system calls that touch anything below the given roots
              (mkdir / openat / write / pwrite64 / lseek / ftruncate / rename* / unlink* / rmdir / close), with file offsets tracked
              per descriptor.
crash_states() replays the first k calls, for every k, on a model file system: the state a crash (SIGKILL, power loss of the
              process) right after the k-th call leaves behind -- whatever the writer's design is (in-place truncate + write, temp
              file + rename, lock files, several passes).  File CONTENT is taken from the files as they are after the complete run
              (an object's bytes at [off, off+n) are the final bytes there), tracked through renames.
materialise()  writes such a state into a directory.

The traces are also validated by TLC (spec/Trace_CacheSys.tla) against the writer of Cache.tla (Trunc, WriteBlk in order)."""
import os
import re
import shutil
import subprocess

CALLS = "openat,open,creat,write,pwrite64,writev,lseek,ftruncate,truncate,rename,renameat,renameat2,unlink,unlinkat,rmdir,mkdir,mkdirat,close,link,linkat,symlink,symlinkat"
LINE = re.compile(r"^(\d+)\s+(\w+)\((.*)\)\s+=\s+(-?\d+)(.*)$")
FDPATH = re.compile(r"^(\d+)<([^>]*)>")


def _args(s):
    """split a strace argument list at top-level commas"""
    out, depth, cur, q = [], 0, "", False
    i = 0
    while i < len(s):
        c = s[i]
        if q:
            cur += c
            if c == "\\":
                cur += s[i + 1]
                i += 1
            elif c == '"':
                q = False
        elif c == '"':
            q = True
            cur += c
        elif c in "([{<":
            depth += 1
            cur += c
        elif c in ")]}>":
            depth -= 1
            cur += c
        elif c == "," and depth == 0:
            out.append(cur.strip())
            cur = ""
        else:
            cur += c
        i += 1
    if cur.strip():
        out.append(cur.strip())
    return out


def _str(a):
    m = re.match(r'^"((?:[^"\\]|\\.)*)"', a)
    return bytes(m.group(1), "utf-8").decode("unicode_escape").encode("latin-1").decode("utf-8", "replace") if m else None


def _at(dirarg, path):
    """absolute path of `path` relative to an annotated directory argument (AT_FDCWD</cwd> or 7</some/dir>)"""
    if path is None or path.startswith("/"):
        return path
    m = re.search(r"<([^>]*)>", dirarg)
    return os.path.normpath(os.path.join(m.group(1) if m else "", path))


def record(cmd, env, roots, cwd=None, timeout=120):
    """-> (exit status, [events]) ; event: dict(call, path, path2, n, off, flags, ok)"""
    out = os.path.join(roots[0], "..", f".strace_{os.getpid()}.txt")
    out = os.path.normpath(out)
    p = subprocess.run(["strace", "-f", "-y", "-qq", "-s", "0", "-o", out, "-e", "trace=" + CALLS] + list(cmd), env=env, cwd=cwd,
                       stdout=subprocess.PIPE, stderr=subprocess.STDOUT, text=True, timeout=timeout)
    evs = []
    offs = {}  # (pid, fd) -> [path, offset, append]
    under = lambda q: q is not None and any(q == r or q.startswith(r.rstrip("/") + "/") for r in roots)  # noqa: E731
    try:
        for ln in open(out, errors="replace"):
            m = LINE.match(ln.rstrip("\n"))
            if not m:
                continue
            pid, call, argstr, ret = int(m.group(1)), m.group(2), m.group(3), int(m.group(4))
            a = _args(argstr)
            ok = ret >= 0
            if call in ("openat", "open", "creat"):
                if call == "openat":
                    path, flags = _at(a[0], _str(a[1])), a[2] if len(a) > 2 else ""
                else:
                    path, flags = _at("AT_FDCWD<>", _str(a[0])), (a[1] if len(a) > 1 and call == "open" else "O_WRONLY|O_CREAT|O_TRUNC")
                if ok:
                    offs[(pid, ret)] = [path, 0, "O_APPEND" in flags]
                if under(path) and any(f in flags for f in ("O_WRONLY", "O_RDWR", "O_CREAT", "O_TRUNC")):
                    evs.append(dict(call="open", path=path, flags=flags, ok=ok, fd=ret))
            elif call in ("write", "pwrite64", "writev"):
                m2 = FDPATH.match(a[0])
                if not m2:
                    continue
                fd, path = int(m2.group(1)), m2.group(2)
                st = offs.setdefault((pid, fd), [path, 0, False])
                if call == "pwrite64":
                    off = int(a[3])
                else:
                    off = st[1]
                    if ok:
                        st[1] += ret
                if under(path):
                    evs.append(dict(call="write", path=path, off=-1 if st[2] else off, n=max(ret, 0), req=int(a[2]) if a[2].isdigit() else max(ret, 0), ok=ok, fd=fd))
            elif call == "lseek":
                m2 = FDPATH.match(a[0])
                if m2 and ok:
                    st = offs.setdefault((pid, int(m2.group(1))), [m2.group(2), 0, False])
                    st[1] = ret
            elif call in ("ftruncate", "truncate"):
                m2 = FDPATH.match(a[0])
                path = m2.group(2) if m2 else _str(a[0])
                if under(path):
                    evs.append(dict(call="truncate", path=path, n=int(a[1]), ok=ok))
            elif call in ("rename", "renameat", "renameat2", "link", "linkat"):
                if call in ("rename", "link"):
                    src, dst = _at("AT_FDCWD<>", _str(a[0])), _at("AT_FDCWD<>", _str(a[1]))
                else:
                    src, dst = _at(a[0], _str(a[1])), _at(a[2], _str(a[3]))
                if under(src) or under(dst):
                    evs.append(dict(call="rename" if call.startswith("rename") else "link", path=src, path2=dst, ok=ok))
            elif call in ("unlink", "unlinkat", "rmdir"):
                path = _at("AT_FDCWD<>", _str(a[0])) if call != "unlinkat" else _at(a[0], _str(a[1]))
                if under(path):
                    evs.append(dict(call="rmdir" if (call == "rmdir" or "AT_REMOVEDIR" in argstr) else "unlink", path=path, ok=ok))
            elif call in ("mkdir", "mkdirat"):
                path = _at("AT_FDCWD<>", _str(a[0])) if call == "mkdir" else _at(a[0], _str(a[1]))
                if under(path):
                    evs.append(dict(call="mkdir", path=path, ok=ok))
            elif call in ("symlink", "symlinkat"):
                path = _at("AT_FDCWD<>", _str(a[1])) if call == "symlink" else _at(a[1], _str(a[2]))
                if under(path):
                    evs.append(dict(call="symlink", path=path, ok=ok))
            elif call == "close":
                m2 = FDPATH.match(a[0])
                if m2:
                    fd, path = int(m2.group(1)), m2.group(2)
                    offs.pop((pid, fd), None)
                    if under(path) and not os.path.isdir(path):
                        evs.append(dict(call="close", path=path, ok=ok))
    finally:
        if os.path.exists(out):
            os.remove(out)
    return p.returncode, evs, p.stdout


def final_contents(roots):
    out = {}
    for r in roots:
        for d, _dirs, files in os.walk(r):
            for f in files:
                p = os.path.join(d, f)
                with open(p, "rb") as fh:
                    out[p] = fh.read()
    return out


def crash_states(evs, initial, final):
    """initial / final: {path: bytes} (files) before / after the run.  Yields (k, {path: bytes | None (= directory)}) for k = 0..len(evs):
    the file-system state below the roots after the first k calls."""
    # objects: id -> bytearray ; names: path -> id | "DIR"
    objs, names = {}, {}
    for p, data in initial.items():
        objs[len(objs)] = bytearray(data)
        names[p] = len(objs) - 1
    # where does each object's final content live?  follow the names forward once to learn object -> final path
    sim_names = dict(names)
    n_obj = len(objs)
    created = []
    for e in evs:
        if not e["ok"]:
            continue
        if e["call"] == "open" and "O_CREAT" in e["flags"] and e["path"] not in sim_names:
            sim_names[e["path"]] = n_obj
            created.append(n_obj)
            n_obj += 1
        elif e["call"] == "rename":
            if e["path"] in sim_names:
                sim_names[e["path2"]] = sim_names.pop(e["path"])
        elif e["call"] == "link" and e["path"] in sim_names:
            sim_names[e["path2"]] = sim_names[e["path"]]
        elif e["call"] == "unlink":
            sim_names.pop(e["path"], None)
    final_of = {oid: final.get(p) for p, oid in sim_names.items() if isinstance(oid, int)}

    def snapshot():
        st = {}
        for p, oid in names.items():
            st[p] = None if oid == "DIR" else bytes(objs[oid])
        return st

    yield 0, snapshot()
    for k, e in enumerate(evs, 1):
        if e["ok"]:
            c = e["call"]
            if c == "mkdir":
                names[e["path"]] = "DIR"
            elif c == "rmdir":
                names.pop(e["path"], None)
            elif c == "open":
                if e["path"] not in names and "O_CREAT" in e["flags"]:
                    objs[len(objs)] = bytearray()
                    names[e["path"]] = len(objs) - 1
                if "O_TRUNC" in e["flags"] and isinstance(names.get(e["path"]), int):
                    del objs[names[e["path"]]][:]
            elif c == "write" and isinstance(names.get(e["path"]), int):
                oid = names[e["path"]]
                buf = objs[oid]
                off = len(buf) if e["off"] < 0 else e["off"]
                src = final_of.get(oid)
                data = src[off:off + e["n"]] if src is not None and len(src) >= off + e["n"] else b"\0" * e["n"]
                if len(buf) < off:
                    buf.extend(b"\0" * (off - len(buf)))
                buf[off:off + e["n"]] = data
            elif c == "truncate" and isinstance(names.get(e["path"]), int):
                buf = objs[names[e["path"]]]
                del buf[e["n"]:]
                buf.extend(b"\0" * (e["n"] - len(buf)))
            elif c == "rename" and e["path"] in names:
                names[e["path2"]] = names.pop(e["path"])
            elif c == "link" and e["path"] in names:
                names[e["path2"]] = names[e["path"]]
            elif c == "unlink":
                names.pop(e["path"], None)
        yield k, snapshot()


def materialise(state, old_root, new_root):
    """write a crash state (paths below old_root) below new_root (emptied first)"""
    shutil.rmtree(new_root, ignore_errors=True)
    os.makedirs(new_root, exist_ok=True)
    for p in sorted(state, key=len):
        q = os.path.join(new_root, os.path.relpath(p, old_root))
        if state[p] is None:
            os.makedirs(q, exist_ok=True)
        else:
            os.makedirs(os.path.dirname(q), exist_ok=True)
            with open(q, "wb") as f:
                f.write(state[p])
