"""Recording I/O traces of real executions (vtrace filesystem + public API results) and having TLC validate
them against spec/Trace_ImageIO.tla (Envelope verdict + Design drift)."""
import json
import os
import re

from . import tlc


class TraceBatch:
    """ndjson batch of traces; one header per trace"""

    def __init__(self, path):
        self.path = path
        self.f = open(path, "w")
        self.n = 0
        self.meta = {}  # tid -> free-form description (for replays)
        self.lines = {}  # tid -> list of lines (kept for replay files)

    def start(self, geom, meta=None):
        """geom: dict n,p,prefix,bps,rpc,flen"""
        self.n += 1
        tid = self.n
        self.meta[tid] = meta
        self.lines[tid] = []
        self._w(tid, dict(e="hdr", tid=tid, **geom))
        return tid

    def _w(self, tid, ev):
        s = json.dumps(ev)
        self.lines[tid].append(ev)
        self.f.write(s + "\n")

    def event(self, tid, ev, image_name):
        """append a tracefs event, normalising the file name of the traced image to 'IMG'"""
        e = {k: v for k, v in ev.items() if k in ("e", "h", "pos", "req", "got", "off", "moved")}
        f = ev.get("f", "")
        e["f"] = "IMG" if f == image_name else f
        if e["e"] == "read" and e.get("req") is None:
            e["req"] = -1
        self._w(tid, e)

    def mark(self, tid, **ev):
        self._w(tid, ev)

    def close(self):
        self.f.close()

    def validate(self, timeout=1800):
        """-> {tid: dict(status, line, clause, drift)}; raises TlcError on machinery failure"""
        self.close()
        if self.n == 0:
            return {}, None
        r = tlc.run_ok("Trace_ImageIO", "Trace_ImageIO", workers=1, env={"TRACE_FILE": self.path}, timeout=timeout)
        out = {}
        for m in re.finditer(r'<<"VERDICT", (\d+), "(\w+)", (\d+), "([^"]*)", (-?\d+)>>', r.out):
            out[int(m.group(1))] = dict(status=m.group(2), line=int(m.group(3)), clause=m.group(4), drift=max(0, int(m.group(5))))
        if len(out) != self.n:
            raise tlc.TlcError(f"trace validation produced {len(out)} verdicts for {self.n} traces:\n" + r.out[-3000:])
        if r.violated:
            raise tlc.TlcError("trace batch not consumed to the end:\n" + r.out[-3000:])
        return out, r


def backend_rows(kind, rows, n):
    """rows xarray's BASIC decomposition hands the backend for a selection (Design-side information only)"""
    if not rows:
        return []
    if kind == "int":
        return list(rows)
    if kind == "slice":
        return sorted(rows)
    return list(range(min(rows), max(rows) + 1))  # arrays and point lists: slice(min, max + 1), refined in memory


def geom_of(im, rpc, flen=None):
    full = 720 + im["n"] * (im["prefix"] + im["p"] * im["bps"])
    return dict(n=im["n"], p=im["p"], prefix=im["prefix"], bps=im["bps"], rpc=int(rpc), flen=full if flen is None else flen)
