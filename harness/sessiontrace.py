"""code -> spec for the composed specification: long RANDOM sessions driven by this module (its own weights, not TLC's) are
executed in one process on the real library, every step is logged with its arguments and what was observed, and TLC validates
the log against Alos2.tla through Trace_Alos2.tla (one total verdict per trace: first line + clause the spec cannot explain).

The driver only keeps the bookkeeping it needs to issue ENABLED operations (which slots hold trees, what it damaged, which
version it delivered); it computes no expectation -- deciding whether an observation is right is TLC's job."""
import json
import os
import random
import re

from . import checklib, session, tlc

CONTENT = ("root_attrs", "summary", "leader", "structure", "line_meta", "image_attrs", "pixels", "chunks", "types", "var_order", "unloadable")
CLAUSE_CATS = {"spurious-error": ["spurious_error"], "not-failstop": ["not_failstop"], "wrong-error-class": ["wrong_error_class"],
               "product-modified": ["product_modified"], "cache-unasked": ["cache_unasked"], "options-mutated": ["options_mutated"],
               "cache-consulted-when-disabled": ["cache_consulted_when_disabled"], "not-repaired": ["not_repaired"], "load:differs": ["load_values"],
               "load:error": ["load_error"], "cli-failed": ["cli_failed"], "copy-untyped": ["types", "unpicklable"]}
FILES = ("summary", "vol", "led", "trl", "a", "b")


class Driver:
    def __init__(self, rng, locs, versions, profile):
        self.r = rng
        self.locs, self.versions = locs, versions
        self.cur = {l: f"{l}{versions[0]}" for l in locs}
        self.dmg = {l: {} for l in locs}
        self.cache_ok = True
        self.live = {}  # slot -> set of images loaded since the tree was put there
        self.prev_open = None
        self.prev_load = None
        self.w = dict(open=30, load=20, mutate=8, copy=4, drop=3, close=4, cli=8, redeliver=5, damage=6, restore=4, delete=4, tear=5, cachedir=3, purge=3, block=2, copyto=3)
        self.w.update(profile or {})

    # multi-step motifs: the histories that earlier seeded changes needed, issued as a block now and then so that a recorded session
    # does not depend on luck to contain them (the steps in between stay random)
    def motifs(self):
        r = self.r
        l = r.choice(self.locs)
        o = [x for x in self.locs if x != l]
        m = r.choice(["a", "b"])
        rpc = r.choice([1, 2, 3])
        t = r.choice([1, 2])
        other_v = [v for v in self.versions if f"{l}{v}" != self.cur[l]]
        out = []
        if self.w.get("load", 0):
            k = r.choice(["rows", "window", "all", "int"])
            out.append([{"op": "open", "loc": l, "uc": False, "cc": False, "rpc": rpc, "slot": t}, {"op": "load", "slot": t, "img": m, "sel": k},
                        {"op": "mutate", "slot": t, "img": m}, {"op": "load", "slot": t, "img": m, "sel": k}, {"op": "load", "slot": t, "img": m, "sel": "all"}])
        if self.w.get("damage", 0):
            out.append([{"op": "restore", "loc": l}] * bool(self.dmg[l]) + [{"op": "open", "loc": l, "uc": True, "cc": False, "rpc": rpc, "slot": t}, {"op": "damage", "loc": l, "file": m, "how": r.choice(["missing", "cut"])},
                        {"op": "open", "loc": l, "uc": True, "cc": False, "rpc": rpc, "slot": 3 - t}, {"op": "restore", "loc": l}, {"op": "open", "loc": l, "uc": True, "cc": False, "rpc": rpc, "slot": t}])
            out.append([{"op": "restore", "loc": l}] * bool(self.dmg[l]) + [{"op": "damage", "loc": l, "file": m, "how": "cut"}, {"op": "open", "loc": l, "uc": True, "cc": True, "rpc": rpc, "slot": t},
                        {"op": "restore", "loc": l}, {"op": "open", "loc": l, "uc": True, "cc": False, "rpc": rpc, "slot": t}])
        if self.w.get("redeliver", 0) and other_v and not self.dmg[l]:
            v = r.choice(other_v)
            out.append([{"op": "open", "loc": l, "uc": True, "cc": True, "rpc": rpc, "slot": t}, {"op": "redeliver", "loc": l, "ver": v},
                        {"op": "open", "loc": l, "uc": False, "cc": True, "rpc": rpc, "slot": t}, {"op": "open", "loc": l, "uc": True, "cc": False, "rpc": r.choice([1, 2, 3]), "slot": t}])
            if self.w.get("cli", 0):
                out.append([{"op": "cli", "loc": l, "img": m, "rpc": rpc, "target": "adjacent"}, {"op": "open", "loc": l, "uc": True, "cc": False, "rpc": rpc, "slot": t},
                            {"op": "redeliver", "loc": l, "ver": v}, {"op": "cli", "loc": l, "img": m, "rpc": rpc, "target": "adjacent"},
                            {"op": "open", "loc": l, "uc": True, "cc": False, "rpc": rpc, "slot": t}])
                if o and self.w.get("copyto", 0):
                    out.append([{"op": "cli", "loc": l, "img": "a", "rpc": rpc, "target": "adjacent"}, {"op": "cli", "loc": l, "img": "b", "rpc": rpc, "target": "adjacent"},
                                {"op": "copyto", "loc": l, "dst": o[0]}, {"op": "redeliver", "loc": l, "ver": v}, {"op": "open", "loc": o[0], "uc": True, "cc": False, "rpc": rpc, "slot": t},
                                {"op": "load", "slot": t, "img": m, "sel": "all"}])
        if self.w.get("cli", 0) and self.w.get("open", 0):
            out.append([{"op": "cli", "loc": l, "img": "a", "rpc": 1, "target": "adjacent"}, {"op": "cli", "loc": l, "img": "b", "rpc": 1, "target": "adjacent"},
                        {"op": "open", "loc": l, "uc": True, "cc": False, "rpc": 1, "slot": t}, {"op": "open", "loc": l, "uc": True, "cc": False, "rpc": 3, "slot": 3 - t},
                        {"op": "load", "slot": 3 - t, "img": m, "sel": "rows"}])
        return out

    def enabled(self, op):
        """the enabling condition of the corresponding Alos2 action, on the driver's own bookkeeping"""
        k = op["op"]
        if k == "load":
            return op["slot"] in self.live
        if k == "mutate":
            return op["img"] in self.live.get(op["slot"], ())
        if k in ("copy", "drop", "close"):
            return op["slot"] in self.live
        if k == "redeliver":
            return f"{op['loc']}{op['ver']}" != self.cur[op["loc"]]
        if k == "damage":
            return op["file"] not in self.dmg[op["loc"]] and not (op["file"] == "summary" and op["how"] == "cut")
        if k == "restore":
            return bool(self.dmg[op["loc"]])
        if k in ("block", "purge") or (k in ("tear", "delete") and op.get("cell") == "local"):
            return self.cache_ok
        if k == "cachedir":
            return op["usable"] != self.cache_ok
        if k == "copyto":
            return op["loc"] != op["dst"]
        return True

    def next_op(self):
        r = self.r
        while getattr(self, "queue", None):
            op = self.queue.pop(0)
            if self.enabled(op):
                return op
            self.queue = []  # the motif lost its footing (an open in it failed, a file is damaged, ...): back to random steps
        if r.random() < 0.07:
            ms = self.motifs()
            if ms:
                self.queue = list(r.choice(ms))
                return self.queue.pop(0)
        for _ in range(50):
            kind = r.choices(list(self.w), weights=list(self.w.values()))[0]
            op = getattr(self, "_" + kind)()
            if op is not None:
                return op
        return self._open()

    def _open(self):
        r = self.r
        if self.prev_open and r.random() < 0.4:  # the same arguments again (argument-keyed memos), maybe into the other variable
            op = dict(self.prev_open, slot=r.choice([1, 2]))
        else:
            op = {"op": "open", "loc": r.choice(self.locs), "uc": r.random() < 0.6, "cc": r.random() < 0.4, "rpc": r.choice([1, 2, 3]), "slot": r.choice([1, 2])}
        self.prev_open = dict(op)
        return op

    def _load(self):
        if not self.live:
            return None
        r = self.r
        if self.prev_load and self.prev_load["slot"] in self.live and r.random() < 0.5:
            op = dict(self.prev_load)
        else:
            op = {"op": "load", "slot": r.choice(sorted(self.live)), "img": r.choice(["a", "b"]), "sel": r.choice(["all", "rows", "window", "int", "empty", "fancy"])}
        self.prev_load = dict(op)
        return op

    def _mutate(self):
        c = [(t, m) for t, ms in self.live.items() for m in ms]
        if not c:
            return None
        t, m = self.r.choice(sorted(c))
        return {"op": "mutate", "slot": t, "img": m}

    def _copy(self):
        if not self.live:
            return None
        t = self.r.choice(sorted(self.live))
        return {"op": "copy", "slot": t, "into": 3 - t}

    def _drop(self):
        if not self.live:
            return None
        return {"op": "drop", "slot": self.r.choice(sorted(self.live))}

    def _close(self):
        if not self.live:
            return None
        return {"op": "close", "slot": self.r.choice(sorted(self.live))}

    def _cli(self):
        r = self.r
        return {"op": "cli", "loc": r.choice(self.locs), "img": r.choice(["a", "b"]), "rpc": r.choice([1, 2, 3]), "target": r.choice(["adjacent", "adjacent", "cachedir"])}

    def _redeliver(self):
        if len(self.versions) < 2:
            return None
        l = self.r.choice(self.locs)
        return {"op": "redeliver", "loc": l, "ver": self.r.choice([v for v in self.versions if f"{l}{v}" != self.cur[l]])}

    def _copyto(self):
        if len(self.locs) < 2 or len(self.versions) < 2:
            return None
        src = self.r.choice(self.locs)
        return {"op": "copyto", "loc": src, "dst": [l for l in self.locs if l != src][0]}

    def _damage(self):
        r = self.r
        l = r.choice(self.locs)
        ok = [f for f in FILES if f not in self.dmg[l]]
        if not ok:
            return None
        f = r.choice([x for x in ok if x in ("a", "b")] * 3 + ok)
        how = "missing" if f == "summary" else r.choice(["missing", "cut"])
        return {"op": "damage", "loc": l, "file": f, "how": how}

    def _restore(self):
        c = [l for l in self.locs if self.dmg[l]]
        return {"op": "restore", "loc": self.r.choice(c)} if c else None

    def _cell(self, op):
        r = self.r
        cell = r.choice(["local", "adjacent"])
        if cell == "local" and not self.cache_ok:
            cell = "adjacent"
        return {"op": op, "loc": r.choice(self.locs), "img": r.choice(["a", "b"]), "cell": cell}

    def _delete(self):
        return self._cell("delete")

    def _tear(self):
        return self._cell("tear")

    def _block(self):
        if not self.cache_ok:
            return None
        return {"op": "block", "loc": self.r.choice(self.locs), "img": self.r.choice(["a", "b"]), "cell": "local"}

    def _purge(self):
        if not self.cache_ok:
            return None
        return {"op": "purge", "scope": self.r.choice(list(self.locs) + ["all"])}

    def _cachedir(self):
        return {"op": "cachedir", "usable": not self.cache_ok}

    def applied(self, op, obs):
        k = op["op"]
        if k == "open" and obs.get("outcome") == "tree":
            self.live[op["slot"]] = set()
        elif k == "load" and op["slot"] in self.live:
            self.live[op["slot"]].add(op["img"])
        elif k == "copy" and op["slot"] in self.live:
            self.live[op["into"]] = set()
        elif k == "drop":
            self.live.pop(op["slot"], None)
        elif k == "redeliver":
            self.cur[op["loc"]] = f"{op['loc']}{op['ver']}"
            self.dmg[op["loc"]] = {}
        elif k == "copyto":
            self.cur[op["dst"]] = self.cur[op["loc"]]
            self.dmg[op["dst"]] = dict(self.dmg[op["loc"]])
        elif k == "damage":
            self.dmg[op["loc"]][op["file"]] = op["how"]
        elif k == "restore":
            self.dmg[op["loc"]] = {}
        elif k == "cachedir":
            self.cache_ok = op["usable"]


def run_trace(task):
    """-> {"lines": [...], "cats": {line number (1-based within the trace, hdr = 1): {category: [msg]}}}"""
    rng = random.Random(task["seed"])
    locs, versions = tuple(task["locs"]), tuple(task["versions"])
    lines, cats, hist = [], {}, []
    try:
        s = session.Session(task["level"], task["fs"], task["seed"], locs=locs, versions=versions, storage_options=True)
    except checklib.Machinery as e:
        if "reference child failed" not in str(e):
            raise
        return {"task": {k: task[k] for k in ("level", "fs", "seed", "steps")}, "lines": [], "cats": {}, "hist": [], "broken": str(e)[-300:]}
    d = Driver(rng, locs, versions, task.get("profile"))
    try:
        for k in range(task["steps"]):
            op = d.next_op()
            # Session.step wants a `last` record; a neutral one (judge against the version lying there NOW) yields the raw observation
            last = dict(op)
            if op["op"] == "open":
                l = op["loc"]
                last.update(outcome="tree", judged=True, ver=s.cur[l], cver={m: s.cur[l] for m in ("a", "b")}, src={m: "parse" for m in ("a", "b")}, written=[])
            elif op["op"] == "redeliver":
                last["ver"] = f"{op['loc']}{op['ver']}"
            elif op["op"] == "load":
                last.update(judged=True, outcome="equal")
            elif op["op"] == "cli":
                last.update(outcome="ok")
            obs = s.step(last)
            f = obs["findings"]
            ev = {"e": op["op"], **{kk: vv for kk, vv in op.items() if kk != "op"}}
            if op["op"] == "open":
                content = sorted(c for c in f if c in CONTENT)
                ev.update(outcome=obs["outcome"], match="same" if (obs["outcome"] == "tree" and not content) else ("differs" if obs["outcome"] == "tree" else "none"),
                          consulted="cache_consulted_when_disabled" in f, opts_mutated="options_mutated" in f)
            elif op["op"] == "load":
                ev["outcome"] = "error" if "load_error" in f else ("differs" if "load_values" in f else "equal")
            elif op["op"] == "cli":
                ev["outcome"] = obs["outcome"]
            if op["op"] == "copy":
                ev["typed"] = not ({"types", "unpicklable"} & set(f))
            if op["op"] in ("open", "cli", "mutate", "copy", "drop", "close", "load"):
                ev.update(prod_changed="product_modified" in f, cache_foreign="cache_unasked" in f)
            if op["op"] in ("open", "cli"):
                ev["cells"] = {w: {l: (dict(obs["cells"][w][l]) if l in locs else {"a": "absent", "b": "absent"}) for l in ("P", "Q")} for w in ("local", "adjacent")}
            lines.append(ev)
            hist.append(op)
            if f:
                cats[k + 2] = {c: m[:2] for c, m in f.items()}
            d.applied(op, obs)
    finally:
        s.close()
    return {"task": {k: task[k] for k in ("level", "fs", "seed", "steps")}, "lines": lines, "cats": cats, "hist": hist}


def validate(chk, results, own, path):
    """write the batch, let TLC judge it, turn rejections into violations of the classes `own`"""
    start = {}
    n = 0
    with open(path, "w") as fh:
        for i, res in enumerate(results):
            start[i + 1] = n
            fh.write(json.dumps({"e": "hdr", "tid": i + 1}) + "\n")
            n += 1
            for ln in res["lines"]:
                fh.write(json.dumps(ln) + "\n")
                n += 1
    r = tlc.run_ok("Trace_Alos2", "Trace_Alos2", workers=1, env={"TRACE_FILE": path}, timeout=3000)
    chk.tlc_stats(r)
    verdicts = {}
    pos = 0
    while True:
        mm = re.compile(r'<<\s*"VERDICT"').search(r.out, pos)
        if mm is None:
            break
        i = mm.start()
        depth, j = 0, i
        while True:  # bracket matching: TLC wraps long values over several lines
            if r.out.startswith("<<", j):
                depth += 1
                j += 2
            elif r.out.startswith(">>", j):
                depth -= 1
                j += 2
                if depth == 0:
                    break
            else:
                j += 1
        v = tlc.parse_tla_value(r.out[i:j])
        verdicts[int(v[1])] = (v[2], [(int(b[0]), b[1]) for b in v[4]], int(v[3]))
        pos = j
    if len(verdicts) != len(results):
        raise checklib.Machinery(f"Trace_Alos2: {len(verdicts)} verdicts for {len(results)} traces\n" + r.out[-1500:])
    drift, others = 0, {}
    desync = []
    resyncs = [(int(a), int(b)) for a, b in re.findall(r'<<"RESYNC", (\d+), (\d+)>>', r.out)]
    for tid_, line_ in resyncs[:3]:
        k_ = line_ - start[tid_]
        ev_ = results[tid_ - 1]["lines"][k_ - 2]
        chk.note(f"DRIFT detail: trace {tid_} step {k_ - 1} {ev_['e']} {({k: v for k, v in ev_.items() if k not in ('cells',)})} -> observed cells {ev_.get('cells')}; previous steps {results[tid_ - 1]['hist'][max(0, k_ - 6):k_ - 2]}"[:900])
    for tid, (st, bads, nd) in verdicts.items():
        res = results[tid - 1]
        drift += nd
        for line, clause in bads:
            k = line - start[tid]  # 1-based line within the trace (hdr = 1)
            if clause.startswith("not-enabled"):
                # the driver's bookkeeping and the specification disagree about what can be done next: the rest of this trace is not judged
                desync.append(f"trace {tid} line {k}: {res['lines'][k - 2]}")
                break
            if clause.startswith("drift:"):
                drift += 1
                continue
            found = res["cats"].get(k, {})
            cs = [c for c in found if c in CONTENT] if clause.startswith("content") else [c for c in CLAUSE_CATS.get(clause, [clause]) if clause != "copy-untyped" or c in found]
            for c in cs:
                msg = "; ".join(found.get(c, [clause]))[:400]
                if c in own:
                    short = res["hist"][: k - 1]
                    chk.violation(f"session-trace:{c}", f"[recorded session of {len(res['lines'])} steps, {res['task']['level']} on {res['task']['fs']}: TLC rejects line {k}, clause {clause}] {msg}",
                                  {"task": res["task"], "history": short, "category": c, "clause": clause})
                else:
                    others[c] = others.get(c, 0) + 1
    if desync:
        chk.note(f"recorded sessions: {len(desync)} trace(s) not judged beyond a step the specification does not enable (driver bookkeeping): {desync[0][:300]}")
        if len(desync) * 2 > len(results):
            raise checklib.Machinery(f"Trace_Alos2: {len(desync)} of {len(results)} recorded sessions left the specification's enabling conditions: {desync[:2]}")
    return verdicts, drift, others


def run(chk, n_traces, steps, own, profile=None, locs=("P", "Q"), versions=(0, 1), fss=("local", "vtrace", "memory", "file")):
    from . import sessioncheck

    sessioncheck.prepare_layouts()
    tasks = [dict(level=("1.5", "1.1")[i % 2], fs=fss[i % len(fss)], seed=chk.seed * 7919 + 100 + i, steps=steps, locs=list(locs), versions=list(versions),
                  profile=profile) for i in range(n_traces)]
    results = checklib.pmap(run_trace, tasks, chk.scratch)
    for r_ in results:
        if r_.get("broken") and "spurious_error" in own:
            chk.violation("session-trace:spurious_error", "an intact product could not be opened in a fresh process: " + r_["broken"], {"task": r_["task"]})
    results = [r_ for r_ in results if not r_.get("broken")]
    if not results:
        return [], {}
    verdicts, drift, others = validate(chk, results, own, os.path.join(chk.scratch, f"alos2_{chk.pid}.ndjson"))
    chk.traces(len(results))
    chk.count(sum(len(r["lines"]) for r in results))
    ops = {}
    for r_ in results:
        for ln in r_["lines"]:
            ops[ln["e"]] = ops.get(ln["e"], 0) + 1
    chk.sample({"recorded_sessions": len(results), "steps_each": steps, "operations": ops, "accepted": sum(1 for v in verdicts.values() if v[0] == "accepted"),
                "design_drift": drift})
    if others:
        chk.note(f"recorded sessions: rejections of classes owned by other properties: {others}")
    if drift:
        chk.note(f"DRIFT (recorded sessions): {drift} steps where the real cache cells differ from the Design's; the logged cells were adopted and validation went on")
    return results, verdicts
