"""Shared by the registered checks: simulate spec/Alos2.tla (TLC checks every invariant of the composed specification on the
simulated states), keep the behaviours that exercise the history patterns a property is sensitive to, replay them into the real
library in one process each (harness/session.py) and report the finding classes the property owns."""
from . import behaviours, checklib, session, tlc
from . import layout as L

# which finding classes violate which property (a class may be owned by several properties)
OWNERS = {
    "pixels": {"C01", "C07", "C10"},
    "load_values": {"C01", "C02", "C19"},
    "load_error": {"C01", "C02", "C19"},
    "line_meta": {"C03", "C07", "C08", "C10"},
    "image_attrs": {"C03", "C07", "C08", "C10"},
    "leader": {"C04", "C10"},
    "chunks": {"C06", "C07", "C10"},
    "types": {"C12", "C07"},
    "var_order": {"C08", "C07", "C13"},
    "structure": {"C13", "C07", "C10"},
    "summary": {"C14", "C10"},
    "root_attrs": {"C16", "C10"},
    "spurious_error": {"C07", "C09", "C10", "C13"},
    "unloadable": {"C07", "C12", "C10"},
    "not_failstop": {"C18"},
    "wrong_error_class": {"C18"},
    "cli_failed": {"C07", "C10"},
    "product_modified": {"C10"},
    "cache_unasked": {"C10"},
    "options_mutated": {"C10"},
    "cache_consulted_when_disabled": {"C07", "C10"},
    "not_repaired": {"C09", "C07"},
    "unpicklable": {"C19"},
}


# ---------------------------------------------------------------------------------------------------------------- patterns
def _ops(beh):
    return [st["state"]["last"] for st in beh if st["state"].get("last", {}).get("op") not in (None, "init")]


def pat_reopen_after_damage(ops):
    """an open that must fail, at a location that was opened successfully before the damage; extra weight when the failing
    call has exactly the arguments of an earlier successful one and the damaged file is an image (argument-keyed memos)"""
    n = 0
    ok_args = {}
    dmg = {}
    for o in ops:
        if o["op"] == "open" and o["outcome"] == "tree":
            ok_args.setdefault(o["loc"], set()).add((o["uc"], o["rpc"]))
        if o["op"] == "damage" and o["loc"] in ok_args and o["file"] != "trl":
            dmg.setdefault(o["loc"], set()).add(o["file"])
        if o["op"] in ("restore", "redeliver"):
            dmg.pop(o["loc"], None)
        if o["op"] == "open" and dmg.get(o["loc"]) and o["outcome"] != "tree":
            n += 1
            if (o["uc"], o["rpc"]) in ok_args[o["loc"]] and dmg[o["loc"]] <= {"a", "b"}:
                n += 5 if o["uc"] else 2
    return n


def pat_reopen_after_redeliver(ops):
    n = 0
    ok_at, red = set(), set()
    for o in ops:
        if o["op"] == "open" and o["outcome"] == "tree":
            if o["loc"] in red and o["judged"]:
                n += 1
            ok_at.add(o["loc"])
        if o["op"] == "redeliver" and o["loc"] in ok_at:
            red.add(o["loc"])
    return n


def pat_refresh(ops):
    """redeliver, open(use_cache=False, create_cache=True), open(use_cache=True) -- and a stale cell existed"""
    n = 0
    stage = {}
    for o in ops:
        if o["op"] == "open" and o["outcome"] == "tree" and o["cc"]:
            stage.setdefault(o["loc"], 1)
        if o["op"] == "redeliver" and stage.get(o["loc"]) == 1:
            stage[o["loc"]] = 2
        if o["op"] == "open" and stage.get(o["loc"]) == 2 and not o["uc"] and o["cc"] and o["outcome"] == "tree":
            stage[o["loc"]] = 3
        elif o["op"] == "open" and stage.get(o["loc"]) == 3 and o["uc"] and o["outcome"] == "tree":
            n += 1
    return n


def pat_load_mutate_load(ops):
    n = 0
    seen = {}
    for o in ops:
        if o["op"] == "load":
            k = (o["slot"], o["img"], o["sel"])
            if seen.get(k) == "mutated" and o["judged"]:
                n += 1
            seen[k] = "loaded"
        if o["op"] == "mutate":
            for k in list(seen):
                if k[0] == o["slot"] and k[1] == o["img"]:
                    seen[k] = "mutated"
        if o["op"] in ("open", "copy", "drop"):
            t = o.get("into", o.get("slot"))
            for k in list(seen):
                if k[0] == t:
                    del seen[k]
    return n


def pat_cached_rpcs(ops):
    """judged opens served (partly) from an index, with at least two different rpc values at one location"""
    by = {}
    for o in ops:
        if o["op"] == "open" and o["outcome"] == "tree" and o["judged"] and any(s != "parse" for s in o["src"].values()):
            by.setdefault(o["loc"], set()).add(o["rpc"])
    return sum(len(v) - 1 for v in by.values())


def pat_cached_opens(ops):
    return sum(1 for o in ops if o["op"] == "open" and o["outcome"] == "tree" and o["judged"] and any(s != "parse" for s in o["src"].values()))


def pat_two_locs(ops):
    locs = {o["loc"] for o in ops if o["op"] == "open" and o["outcome"] == "tree"}
    return len(locs) - 1 + sum(1 for o in ops if o["op"] == "load" and o["judged"])


def pat_copy_load(ops):
    copied = set()
    n = 0
    for o in ops:
        if o["op"] == "copy":
            copied.add(o["into"])
        if o["op"] == "load" and o["slot"] in copied and o["judged"]:
            n += 1
    return n


def pat_cachedir(ops):
    broken = False
    n = 0
    for o in ops:
        if o["op"] == "cachedir":
            broken = not o["usable"]
        if o["op"] == "open" and broken and o["cc"]:
            n += 2
        if o["op"] == "open" and broken:
            n += 1
    return n


def pat_torn(ops):
    torn = set()
    n = 0
    for o in ops:
        if o["op"] == "tear":
            torn.add((o["loc"], o["img"]))
        if o["op"] == "open" and any(l == o["loc"] for l, _ in torn):
            n += 1 + (1 if o["cc"] else 0)
    return n


def pat_copied(ops):
    """an index made next to the images, the product copied elsewhere with it, the ORIGINAL place then changed (redelivered, damaged), the copy
    opened through the index: whatever the index recorded about where it was made must not matter"""
    n = 0
    adj = set()
    copied = {}
    for o in ops:
        if o["op"] == "cli" and o["target"] == "adjacent" and o["outcome"] == "ok":
            adj.add(o["loc"])
        if o["op"] == "copyto":
            if o["loc"] in adj:
                copied[o["dst"]] = [o["loc"], False]
            n += 1
        if o["op"] in ("redeliver", "damage"):
            for dst, rec in copied.items():
                if rec[0] == o["loc"]:
                    rec[1] = True
            if o["op"] == "redeliver":
                copied.pop(o["loc"], None)
        if o["op"] == "open" and o["loc"] in copied and o["uc"] and o["outcome"] == "tree" and o["judged"]:
            n += 20 if copied[o["loc"]][1] else 3
    return n


PATTERNS = {
    "reopen_after_damage": pat_reopen_after_damage, "reopen_after_redeliver": pat_reopen_after_redeliver, "refresh": pat_refresh,
    "load_mutate_load": pat_load_mutate_load, "cached_rpcs": pat_cached_rpcs, "cached_opens": pat_cached_opens, "two_locs": pat_two_locs,
    "copy_load": pat_copy_load, "cachedir": pat_cachedir, "torn": pat_torn, "copied": pat_copied,
}


def select(bs, patterns, keep):
    """keep the behaviours that score best on the wanted patterns (each pattern gets its share), then fill up in order"""
    scored = [(i, {p: PATTERNS[p](_ops(b)) for p in patterns}) for i, b in enumerate(bs)]
    chosen = []
    share = max(1, keep // max(1, len(patterns)))
    for p in patterns:
        best = sorted((x for x in scored if x[1][p] > 0 and x[0] not in chosen), key=lambda x: -x[1][p])[:share]
        chosen += [x[0] for x in best]
    for i, _ in scored:
        if len(chosen) >= keep:
            break
        if i not in chosen:
            chosen.append(i)
    cover = {p: sum(scored[i][1][p] for i in chosen) for p in patterns}
    return [bs[i] for i in chosen[:keep]], cover


# ---------------------------------------------------------------------------------------------------------------- driver
def prepare_layouts():
    """every placed layout a session needs, exported by TLC in the parent (workers only read them)"""
    L.tables()
    want = [dict(L.SMALL_LEADER), dict(L.SMALL_LEADER, nmap=0), dict(file="volume", nfp=4), dict(file="trailer", nlow=0, lens=[])]
    for n, p in ((4, 3), (5, 3), (3, 2), (20, 3), (21, 3), (15, 2)):
        want.append(dict(file="image", kind="processed", n=n, ndata=p * 2, bps=2))
        want.append(dict(file="image", kind="signal", n=n, ndata=p * 8, bps=8))
    L.instances(want)


def run(chk, cfg, patterns, n_sim, keep, depth, locs=("P", "Q"), versions=(0, 1), need=None, fss=("local", "vtrace", "memory", "file"),
        storage_options=True, own=None):
    """simulate, select, replay, report.  need = patterns that MUST be covered (vacuity guard).  Returns the replay results."""
    pid = chk.pid
    own = own or {c for c, ps in OWNERS.items() if pid in ps}
    bs, rs = behaviours.simulate("MC_Alos2", cfg, n_sim, depth, chk.seed + 17)
    chk.tlc_stats(rs)
    if rs.violated or "Error:" in rs.out and "violated" in rs.out:
        chk.violation("model:Alos2", f"TLC: an invariant of Alos2 is violated in simulation ({cfg})", {"tlc": rs.out[-3000:]})
    sel, cover = select(bs, patterns, keep)
    for p in need or patterns:
        if cover.get(p, 0) == 0:
            raise checklib.Machinery(f"vacuity: no simulated behaviour of {cfg} exercises the pattern {p}")
    tasks = session.behaviours_to_tasks(sel, cfg, chk.seed * 1000 + 1, fss=fss, locs=locs, versions=versions, storage_options=storage_options)
    prepare_layouts()
    results = checklib.pmap(session.replay, tasks, chk.scratch)
    others = {}
    ndrift = 0
    for res in results:
        t = res["task"]
        chk.count(res["nsteps"])
        ndrift += len(res["drift"])
        for cat, k, msg, hist in res["findings"]:
            if cat in own:
                short = [{kk: vv for kk, vv in h.items() if kk in ("op", "loc", "uc", "cc", "rpc", "slot", "img", "sel", "file", "how", "cell", "ver", "outcome", "target", "usable", "into", "dst", "scope")} for h in hist]
                chk.violation(f"session:{cat}", f"[history of {len(hist)} steps, {t['level']} on {t['fs']}, step {k + 1}] {msg}",
                              {"task": t, "history": short, "category": cat})
            else:
                others[cat] = others.get(cat, 0) + 1
    chk.traces(len(results))
    for c in cover:
        chk.count(0, nontrivial_key=f"pattern:{c}")
    if others:
        chk.note(f"session findings of classes owned by other properties (reported by their checks): {others}")
    if ndrift:
        ex = next((d for res in results for d in res["drift"]), "")
        chk.note(f"DRIFT (session): {ndrift} steps differ from the Design model in cells / serving source (informational), e.g. {ex[:240]}")
    chk.sample({"session": cfg, "behaviours": len(tasks), "pattern_cover": cover, "steps": sum(r["nsteps"] for r in results),
                "judged_opens": sum(r["judged_opens"] for r in results)})
    return results


# ---------------------------------------------------------------------------------------------------------------- per property
# (config, patterns wanted, patterns that must be covered, locations, simulated behaviours quick/thorough, kept quick/thorough, depth)
STANDARD = {
    "C01": [("MC_Alos2_sim_loads", ["two_locs", "copy_load"], ["two_locs"], ("P", "Q"), (200, 1500), (16, 160), 14)],
    "C02": [("MC_Alos2_sim_mutate", ["load_mutate_load"], None, ("P",), (300, 2000), (24, 200), 12)],
    "C03": [("MC_Alos2_sim_redeliver", ["reopen_after_redeliver"], None, ("P", "Q"), (300, 1500), (16, 160), 12)],
    "C04": [("MC_Alos2_sim_redeliver", ["reopen_after_redeliver"], None, ("P", "Q"), (300, 1500), (16, 160), 12)],
    "C06": [("MC_Alos2_sim_cache", ["cached_rpcs"], None, ("P",), (300, 2000), (24, 240), 12)],
    "C07": [("MC_Alos2_sim_redeliver", ["refresh", "cached_opens", "copied"], ["refresh", "cached_opens"], ("P", "Q"), (400, 2000), (24, 240), 12),
            ("MC_Alos2_sim_cache", ["cached_rpcs", "cached_opens"], None, ("P",), (300, 2000), (16, 160), 12)],
    "C08": [("MC_Alos2_sim_cache", ["cached_opens", "cached_rpcs"], ["cached_opens"], ("P",), (300, 1500), (16, 160), 12)],
    "C09": [("MC_Alos2_sim_cache", ["torn", "cachedir"], None, ("P",), (300, 2000), (24, 240), 12)],
    "C10": [("MC_Alos2_sim_all", ["cached_opens", "torn", "two_locs"], ["cached_opens", "torn"], ("P", "Q"), (300, 3000), (24, 400), 14),
            ("MC_Alos2_sim_cache", ["cachedir", "torn"], None, ("P",), (300, 2000), (16, 200), 12)],
    "C12": [("MC_Alos2_sim_cache", ["cached_opens"], None, ("P",), (300, 1500), (16, 160), 12)],
    "C13": [("MC_Alos2_sim_cache", ["cached_opens", "reopen_after_redeliver"], ["cached_opens"], ("P",), (300, 1500), (24, 160), 12)],
    "C14": [("MC_Alos2_sim_redeliver", ["reopen_after_redeliver"], None, ("P", "Q"), (300, 1500), (16, 160), 12)],
    "C16": [("MC_Alos2_sim_redeliver", ["reopen_after_redeliver"], None, ("P", "Q"), (300, 1500), (24, 240), 12)],
    "C18": [("MC_Alos2_sim_damage", ["reopen_after_damage"], None, ("P",), (400, 3000), (24, 300), 12)],
    "C19": [("MC_Alos2_sim_loads", ["copy_load", "two_locs"], ["copy_load"], ("P", "Q"), (300, 1500), (16, 160), 14)],
}


# recorded sessions (code -> spec, harness/sessiontrace.py): operation weights per property, (traces, steps) quick / thorough
QUIET = dict(cli=0, redeliver=0, damage=0, restore=0, delete=0, tear=0, cachedir=0, purge=0, block=0, copyto=0)
PROFILES = {
    "C01": (dict(QUIET, open=25, load=40, mutate=6, copy=8, drop=3, redeliver=7), (0, 1)),
    "C02": (dict(QUIET, open=18, load=45, mutate=16, copy=3, drop=2, redeliver=5), (0, 1)),
    "C03": (dict(open=40, redeliver=14, load=5, mutate=0, damage=2, tear=2), (0, 1)),
    "C04": (dict(open=40, redeliver=14, load=5, mutate=0, damage=2, tear=2), (0, 1)),
    "C06": (dict(open=42, cli=12, redeliver=6, load=6, mutate=0, damage=0, restore=0), (0, 1)),
    "C07": (dict(open=42, cli=12, redeliver=10, load=6, mutate=0, damage=0, restore=0, tear=6), (0, 1)),
    "C08": (dict(open=45, cli=12, load=10, mutate=12, copy=4, redeliver=0, damage=0, restore=0, tear=0, cachedir=0, block=0), (0,)),
    "C09": (dict(open=42, cli=8, tear=16, delete=6, cachedir=8, load=3, mutate=0, redeliver=0, damage=0, restore=0), (0, 1)),
    "C10": (dict(), (0, 1)),
    "C12": (dict(open=42, cli=12, redeliver=6, load=8, copy=6, damage=0, restore=0), (0, 1)),
    "C13": (dict(open=42, cli=12, redeliver=8, load=4, mutate=0, damage=0, restore=0, block=6), (0, 1)),
    "C14": (dict(open=40, redeliver=14, load=3, mutate=0, damage=2, tear=2), (0, 1)),
    "C16": (dict(open=40, redeliver=14, load=3, mutate=0, damage=2, tear=2), (0, 1)),
    "C18": (dict(open=40, damage=20, restore=8, redeliver=0, load=3, mutate=0, cli=4, tear=2), (0, 1)),
    "C19": (dict(QUIET, open=22, load=40, copy=14, mutate=5, drop=4), (0,)),
}


# properties whose history patterns need several steps at ONE location (index made, used, product redelivered, index made again, used)
TRACE_LOCS = {"C08": ("P",), "C06": ("P",), "C09": ("P",), "C12": ("P",), "C13": ("P",)}


def standard(chk):
    """the session part of a registered check: histories in one process, judged for the classes the property owns"""
    from . import sessiontrace

    out = []
    prof, vers = PROFILES[chk.pid]
    own = {c for c, ps in OWNERS.items() if chk.pid in ps}
    nt, st = (16, 40) if chk.tier == "quick" else (160, 60)
    sessiontrace.run(chk, nt, st, own, profile=prof, versions=vers, locs=TRACE_LOCS.get(chk.pid, ("P", "Q")))
    for cfg, pats, need, locs, nsim, keep, depth in STANDARD[chk.pid]:
        q = 0 if chk.tier == "quick" else 1
        versions = (0,) if cfg in ("MC_Alos2_sim_loads", "MC_Alos2_sim_mutate") else (0, 1)
        out += run(chk, cfg, pats, nsim[q], keep[q], depth, locs=locs, versions=versions, need=need)
    chk.rule_extra.append("sessions: Alos2.tla behaviours from TLC simulation, kept when they contain the history patterns of the property (vacuity-guarded), each replayed "
                          "step by step in one process; recorded sessions: seeded random operation sequences (per-property weights + multi-step motifs) executed and "
                          "validated line by line by TLC; a step counts as one evaluation; distinct = history patterns covered")
    chk.assumptions.append("session histories (Alos2.tla): a tree served from an index of another product version, or masking a damaged image "
                           "file, is recorded but not judged; references are computed in a fresh process from an untouched copy")
    return out


def model_check(chk, cfg="MC_Alos2_bfs"):
    """exhaustive BFS of the composed specification (every history up to MaxOps)"""
    r = tlc.run_ok("MC_Alos2", cfg, workers=16, timeout=3000, coverage=True)
    chk.tlc_stats(r)
    for v in r.violated:
        chk.violation(f"model:Alos2:{v}", f"TLC: {v} violated in Alos2 ({cfg})", {"tlc": r.out[-3000:]})
    for act in ("Open", "Cli", "Redeliver", "Damage", "CellSet", "CacheDir"):
        if r.coverage.get(act, (0, 0))[0] == 0:
            raise checklib.Machinery(f"vacuity: Alos2!{act} never taken")
    return r
