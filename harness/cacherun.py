"""Driving the real cache life-cycle along behaviours of spec/Cache.tla, and observing it.

Spec action(s)                      real driver
BeginOpen .. Finish (one process)   open_alos2(url, backend_options={use_cache, create_cache, records_per_chunk})
BeginCli .. Finish                  ceos-alos2-create-cache --rpc R <image>   (ceos_alos2.sar_image.cli.main, argv patched)
EnvDelete(m, cell)                  unlink of the index file
EnvTear(m, cell, k of B blocks)     the index file replaced by the first k/B of a complete document
After each macro-step: result class (ideal = identical to a fresh uncached open with that step's rpc), cell states
(absent / torn / complete), product-dir and cache-dir deltas, option dict, which source served each image."""
import copy
import glob
import hashlib
import json
import os
import sys

from . import checklib, imgrun, product, project, tracefs

RPC_MAP = {1: 2, 2: 1024, 3: 3}


def macro_ops(behaviour, images=("a", "b")):
    """TLC behaviour (list of steps) -> list of macro operations with the spec's expected post-state"""
    ops = []
    cur = None
    prev = None
    for st in behaviour:
        a, s = st["action"], st["state"]
        if a in ("BeginOpen", "BeginCli", "EnvDelete", "EnvTear"):
            p = s["proc"][0]
            if a == "BeginOpen":
                cur = {"op": "open", "uc": p["uc"], "cc": p["cc"], "rpc": p["rpc"]}
            elif a == "BeginCli":
                cur = {"op": "cli", "img": images[p["i"] - 1] if isinstance(p["i"], int) else None, "rpc": p["rpc"]}
            else:
                # environment step: which cell changed
                for where in ("local", "adjacent"):
                    for m in images:
                        if prev is not None and prev[where][m] != s[where][m]:
                            cur = {"op": "delete" if a == "EnvDelete" else "tear", "img": m, "cell": where,
                                   "k": sum(1 for b in s[where][m]["blk"] if b)}
                if cur is None:  # a no-op delete of an absent cell / tear to the same state
                    args = [x.strip('"') for x in st["args"][:2]]
                    cur = {"op": "delete" if a == "EnvDelete" else "tear", "img": args[0], "cell": args[1],
                           "k": sum(1 for b in s[args[1]][args[0]]["blk"] if b)}
                cur["after"] = cells_of(s, images)
                ops.append(cur)
                cur = None
        elif a == "Finish" and cur is not None and prev is not None:
            pp = prev["proc"][0]
            cur["expect"] = {"outcome": "error" if pp["failed"] else "ideal", "src": dict(pp["src"])}
            cur["after"] = cells_of(s, images)
            ops.append(cur)
            cur = None
        prev = s
    return ops


def cell_state(c):
    if not c["exists"]:
        return "absent"
    return "complete" if all(c["blk"]) else "torn"


def cells_of(s, images):
    return {w: {m: cell_state(s[w][m]) for m in images} for w in ("local", "adjacent")}


def snapshot(d):
    out = {}
    for root, _dirs, files in os.walk(d):
        for f in files:
            p = os.path.join(root, f)
            with open(p, "rb") as fh:
                out[os.path.relpath(p, d)] = hashlib.sha256(fh.read()).hexdigest()[:16]
    return out


def classify(data):
    if data is None:
        return "absent"
    try:
        doc = json.loads(data)
        return "complete" if isinstance(doc, dict) and doc.get("__type__") == "group" else "torn"
    except Exception:
        return "torn"


def run_cli(image_path, rpc, target=None):
    """the CLI entry point in-process (argv patched); -> exit status"""
    from ceos_alos2.sar_image import cli

    import io

    argv, err = sys.argv, sys.stderr
    sys.argv = ["ceos-alos2-create-cache", "--rpc", str(rpc), str(image_path)] + ([str(target)] if target else [])
    sys.stderr = io.StringIO()  # the tool's own error message (expected on damaged inputs) is not part of the check's output
    try:
        cli.main()
        return 0
    except SystemExit as e:
        return e.code if isinstance(e.code, int) else 1
    except BaseException as e:  # noqa: B902 -- an uncaught exception of the tool = a crash (traceback, status 1)
        return f"crash: {type(e).__name__}: {str(e)[:120]}"
    finally:
        sys.argv, sys.stderr = argv, err


class Driver:
    """one product on one filesystem with a private user-cache dir; executes macro operations"""

    def __init__(self, level, fsname, seed, images=None, nonascii=False):
        if images is None:
            # level 1.1 products are ScanSAR-like: several scans of one polarisation (names differ only after the last dot)
            images = (("HH", "F1", 4, 3), ("HH", "F2", 3, 2)) if level == "1.1" else (("HH", None, 4, 3), ("HV", None, 3, 2))
        self.b = product.build_product(level=level, images=images, seed=seed)
        self.fsname = fsname
        self.nonascii = nonascii
        self.cache_home = os.environ["XDG_CACHE_HOME"]
        for f in glob.glob(os.path.join(self.cache_home, "**", "*.index"), recursive=True):
            os.remove(f)
        if nonascii and fsname == "local":
            # a product below a non-ASCII path (the root path is stored inside the index document)
            self.url = self.b.write(os.path.join(checklib.fresh_dir("prod_"), "donn\u00e9es_\u30c7\u30fc\u30bf"))
        else:
            self.url = imgrun.put_on_fs(self.b, fsname, f"cache_{seed}_{fsname}" + ("_donn\u00e9es" if nonascii else ""))
        self.twin = self.b.write(checklib.fresh_dir("twin_"))  # local twin: CLI runs here for non-local filesystems
        self.names = {"a": self.b.images[0]["name"], "b": self.b.images[1]["name"]} if len(self.b.images) > 1 else {"a": self.b.images[0]["name"]}
        self.ref = {}
        self.refdoc = {}

    # ---- observation
    def local_path(self, m):
        """the user-cache file of image m: by name, else any cache file whose document refers to that image"""
        hits = glob.glob(os.path.join(self.cache_home, "**", self.names[m] + ".index"), recursive=True)
        if hits:
            return hits[0]
        for p in glob.glob(os.path.join(self.cache_home, "**", "*"), recursive=True):
            if os.path.isfile(p):
                try:
                    doc = json.load(open(p))
                    if doc["data"]["data"]["data"]["url"] == self.names[m]:
                        return p
                except Exception:
                    continue
        return None

    def expected_local_path(self, m):
        import fsspec

        root = fsspec.get_mapper(self.url).root
        return os.path.join(self.cache_home, "xarray-ceos-alos2", hashlib.sha256(root.encode()).hexdigest(), self.names[m] + ".index")

    def read_adjacent(self, m):
        name = self.names[m] + ".index"
        if self.fsname in ("local", "file"):
            p = os.path.join(self.url.replace("file://", ""), name)
            return open(p, "rb").read() if os.path.exists(p) else None
        if self.fsname == "memory":
            import fsspec

            fs = fsspec.filesystem("memory")
            p = self.url[len("memory://"):] + "/" + name
            return fs.cat(p) if fs.exists(p) else None
        p = tracefs.norm(self.url) + "/" + name
        return tracefs.STORE.get(p)

    def write_adjacent(self, m, data):
        name = self.names[m] + ".index"
        if self.fsname in ("local", "file"):
            p = os.path.join(self.url.replace("file://", ""), name)
            if data is None:
                if os.path.exists(p):
                    os.remove(p)
            else:
                with open(p, "wb") as f:
                    f.write(data)
        elif self.fsname == "memory":
            import fsspec

            fs = fsspec.filesystem("memory")
            p = self.url[len("memory://"):] + "/" + name
            if data is None:
                if fs.exists(p):
                    fs.rm(p)
            else:
                fs.pipe(p, data)
        else:
            p = tracefs.norm(self.url) + "/" + name
            if data is None:
                tracefs.STORE.pop(p, None)
            else:
                tracefs.STORE[p] = bytes(data)

    def cells(self):
        out = {"local": {}, "adjacent": {}}
        for m in self.names:
            lp = self.local_path(m)
            out["local"][m] = classify(open(lp, "rb").read() if lp else None)
            out["adjacent"][m] = classify(self.read_adjacent(m))
        return out

    def product_listing(self):
        if self.fsname in ("local", "file"):
            d = self.url.replace("file://", "")
            out = snapshot(d)
            out["."] = str(os.stat(d).st_mtime_ns)   # an entry created and removed again inside the directory leaves this trace
            return out
        if self.fsname == "memory":
            import fsspec

            fs = fsspec.filesystem("memory")
            root = self.url[len("memory://"):]
            return {p[len(root) + 1:]: hashlib.sha256(fs.cat(p)).hexdigest()[:16] for p in fs.find(root)}
        root = tracefs.norm(self.url)
        return {k[len(root) + 1:]: hashlib.sha256(v).hexdigest()[:16] for k, v in tracefs.STORE.items() if k.startswith(root + "/")}

    def reference(self, rpc):
        """fingerprint of a fresh uncached open with this rpc (computed before any cache exists / independent of caches)"""
        import ceos_alos2

        if rpc not in self.ref:
            self.ref[rpc] = project.fingerprint(ceos_alos2.open_alos2(self.url, backend_options={"use_cache": False, "records_per_chunk": rpc}))
        return self.ref[rpc]

    def complete_doc(self, m):
        """a complete index document of image m (made by the CLI on the local twin, in a scratch directory)"""
        if m not in self.refdoc:
            target = checklib.fresh_dir("doc_")
            rc = run_cli(os.path.join(self.twin, self.names[m]), 7, target)
            p = os.path.join(target, self.names[m] + ".index")
            self.refdoc[m] = open(p, "rb").read() if rc == 0 and os.path.exists(p) else None
        return self.refdoc[m]

    # ---- operations
    def do(self, op, B=2):
        """execute one macro operation -> observation dict"""
        import ceos_alos2

        obs = {"op": op}
        before_prod = self.product_listing()
        before_cache = snapshot(self.cache_home)
        tracefs.take_log()
        if op["op"] == "open":
            rpc = RPC_MAP[op["rpc"]]
            opts = {"use_cache": op["uc"], "create_cache": op["cc"], "records_per_chunk": rpc}
            if op.get("minimal"):
                # spell only what differs from the documented defaults (use_cache=True, create_cache=False, rpc=1024)
                opts = {k: v for k, v in opts.items() if v != {"use_cache": True, "create_cache": False, "records_per_chunk": 1024}[k]}
            keep = copy.deepcopy(opts)
            try:
                tree = ceos_alos2.open_alos2(self.url, backend_options=opts)
                fp = project.fingerprint(tree)
                d = project.diff(self.reference(rpc), fp)
                obs["outcome"] = "ideal" if not d else "wrong"
                obs["diff"] = d[:4]
            except BaseException as e:  # noqa: B902
                obs["outcome"] = "error"
                obs["error"] = f"{type(e).__name__}: {str(e)[:160]}"
            obs["opts_same"] = opts == keep
            obs["defaults_clean"] = (ceos_alos2.open_alos2.__defaults__ == (None, {})) and not ceos_alos2.io.open.__kwdefaults__["storage_options"]
        elif op["op"] == "cli":
            m = op["img"]
            rpc = RPC_MAP[op["rpc"]]
            if self.fsname in ("local", "file"):
                rc = run_cli(os.path.join(self.url.replace("file://", ""), self.names[m]), rpc)
            else:
                # created elsewhere, then placed next to the image
                rc = run_cli(os.path.join(self.twin, self.names[m]), rpc)
                p = os.path.join(self.twin, self.names[m] + ".index")
                if rc == 0 and os.path.exists(p):
                    self.write_adjacent(m, open(p, "rb").read())
                    os.remove(p)
            obs["outcome"] = "ideal" if rc == 0 else "error"
            obs["error"] = f"exit status {rc}"
        elif op["op"] == "delete":
            if op["cell"] == "local":
                lp = self.local_path(op["img"])
                if lp:
                    os.remove(lp)
            else:
                self.write_adjacent(op["img"], None)
        elif op["op"] == "tear":
            doc = self.complete_doc(op["img"])
            if doc is None:
                obs["tear_unavailable"] = True
                doc = b'{"__type__": "group", "url": null, "data": {}, "path": "/", "attrs": {}}'
            data = doc[: (len(doc) * op["k"]) // B]
            if op["cell"] == "local":
                lp = self.expected_local_path(op["img"])
                os.makedirs(os.path.dirname(lp), exist_ok=True)
                with open(lp, "wb") as f:
                    f.write(data)
            else:
                self.write_adjacent(op["img"], data)
        evs = tracefs.take_log()
        obs["cells"] = self.cells()
        after_prod = self.product_listing()
        after_cache = snapshot(self.cache_home)
        obs["prod_delta"] = sorted([("+" if k not in before_prod else "~") + k for k in after_prod if before_prod.get(k) != after_prod[k]]
                                   + ["-" + k for k in before_prod if k not in after_prod])
        obs["cache_delta"] = sorted([("+" if k not in before_cache else "~") + k for k in after_cache if before_cache.get(k) != after_cache[k]]
                                    + ["-" + k for k in before_cache if k not in after_cache])
        if self.fsname == "vtrace" and op["op"] == "open":
            src = {}
            for m, name in self.names.items():
                parsed = any(e["e"] == "fopen" and e["f"] == name for e in evs if True)
                # events during the fingerprint load also open the image: only count reads at offset 0 (the descriptor)
                parsed = any(e["e"] == "read" and e["f"] == name and e["pos"] == 0 for e in evs)
                adj = any(e["e"] == "cat" and e["f"] == name + ".index" for e in evs)
                src[m] = "parse" if parsed else ("adjacent" if adj else "local")
            obs["src"] = src
            obs["index_reads"] = sorted({e["f"] for e in evs if e["e"] == "cat" and e["f"].endswith(".index")})
        return obs

    def relocate(self):
        """local products only: copy the product directory (with whatever index files lie next to the images) to a new
        place, then overwrite the images at the OLD place with different pixels; the driver continues at the new place"""
        import shutil

        old = self.url.replace("file://", "")
        new = os.path.join(checklib.fresh_dir("moved_"), "product")
        shutil.copytree(old, new)
        other = product.build_product(level=self.b.meta["level"], images=[(im["pol"], im["scan"], im["n"], im["p"]) for im in self.b.images],
                                      seed=self.b.meta["seed"] + 4242)
        for im in other.images:
            with open(os.path.join(old, im["name"]), "wb") as f:
                f.write(other.files[im["name"]])
        self.url = ("file://" if self.url.startswith("file://") else "") + new
        self.ref = {}

    def close(self):
        imgrun.drop_from_fs(self.url, self.fsname)
