"""Canonical, bit-exact description of a ceos_alos2 hierarchy (Group / Variable / Array) for round-trip comparison.
Used on the original in one process and on the decoded copy in a FRESH process."""
import math

import numpy as np


def canon_attr(v):
    if isinstance(v, tuple):
        return ["tuple", [canon_attr(x) for x in v]]
    if isinstance(v, list):
        return ["list", [canon_attr(x) for x in v]]
    if isinstance(v, dict):
        return ["dict", {k: canon_attr(x) for k, x in v.items()}]
    if isinstance(v, bool) or isinstance(v, np.bool_):
        return ["bool", bool(v)]
    if isinstance(v, (int, np.integer)):
        return ["int", str(int(v))]
    if isinstance(v, (float, np.floating)):
        f = float(v)
        return ["float", "nan" if math.isnan(f) else f.hex()]
    if isinstance(v, str):
        return ["str", v]
    if v is None:
        return ["none", None]
    return ["other", repr(type(v))]


def canon_array(a):
    from ceos_alos2.array import Array

    if isinstance(a, Array):
        return {"backend": True, "url": a.url, "shape": ["tuple" if isinstance(a.shape, tuple) else "list", [int(x) for x in a.shape]],
                "dtype": str(a.dtype), "type_code": a.type_code, "rpc": a.records_per_chunk,
                "byte_ranges": [[int(s), int(e)] for s, e in a.byte_ranges],
                "ranges_are_tuples": all(isinstance(r, tuple) for r in a.byte_ranges)}
    arr = np.asarray(a)
    d = {"backend": False, "dtype": str(arr.dtype), "shape": list(arr.shape)}
    if arr.dtype.kind in "US":
        d["data"] = arr.tolist()
    elif arr.dtype.kind == "O":
        d["data"] = repr(arr.tolist())
    else:
        d["data"] = np.ascontiguousarray(arr).tobytes().hex()
    return d


def canon(obj):
    from ceos_alos2.hierarchy import Group, Variable

    if isinstance(obj, Group):
        return {"group": True, "path": obj.path, "url": obj.url, "attrs": canon_attr(obj.attrs), "order": list(obj.data),
                "data": {k: canon(v) for k, v in obj.data.items()}}
    if isinstance(obj, Variable):
        return {"var": True, "dims": list(obj.dims), "data": canon_array(obj.data), "attrs": canon_attr(obj.attrs)}
    return {"raw": canon_attr(obj)}


DECODE_CHILD = r"""
import json, sys
sys.path.insert(0, "__VERIF_ROOT__")
from ceos_alos2.sar_image import caching
from harness import codeccanon
docs = json.load(open(sys.argv[1]))
out = []
for name, text, rpc in docs:
    try:
        out.append([name, "ok", codeccanon.canon(caching.decode(text, records_per_chunk=rpc))])
    except BaseException as e:
        out.append([name, "error", f"{type(e).__name__}: {str(e)[:200]}"])
json.dump(out, open(sys.argv[2], "w"))
"""


def differences(a, b, path=""):
    out = []

    def rec(x, y, p):
        if len(out) > 8:
            return
        if type(x) is not type(y):
            out.append(f"{p}: {str(x)[:60]} ({type(x).__name__}) vs {str(y)[:60]} ({type(y).__name__})")
        elif isinstance(x, dict):
            for k in list(x) + [k for k in y if k not in x]:
                if k not in x or k not in y:
                    out.append(f"{p}/{k}: present on one side only")
                else:
                    rec(x[k], y[k], f"{p}/{k}")
            if list(x) != list(y) and set(x) == set(y):
                out.append(f"{p}: key order {list(x)[:6]} vs {list(y)[:6]}")
        elif isinstance(x, list):
            if len(x) != len(y):
                out.append(f"{p}: length {len(x)} vs {len(y)}")
            else:
                for i, (u, v) in enumerate(zip(x, y)):
                    rec(u, v, f"{p}[{i}]")
        elif x != y:
            out.append(f"{p}: {str(x)[:70]} != {str(y)[:70]}")

    rec(a, b, path)
    return out


import os as _os

DECODE_CHILD = DECODE_CHILD.replace("__VERIF_ROOT__", _os.path.dirname(_os.path.dirname(_os.path.abspath(__file__))))
