SPECIFICATION Spec
CONSTANTS
  Names = {"a", "b", "c"}
  MaxNodes = 12
  MaxOps = 7
INVARIANT TypeOK
INVARIANT ItemsMatch
INVARIANT PathConsistent
INVARIANT UrlInherited
INVARIANT WalkComplete
INVARIANT WalkInOrder
INVARIANT NamesUnique
INVARIANT Export
CHECK_DEADLOCK FALSE
