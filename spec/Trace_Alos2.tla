---------------------------- MODULE Trace_Alos2 ----------------------------
(***************************************************************************)
(* Validation of RECORDED sessions of the real library against Alos2.tla   *)
(* (code -> spec).  A driver (harness/sessiontrace.py) performs a long     *)
(* random history in one process -- opens, loads, in-place modification of *)
(* loaded arrays, pickled copies, the CLI, redeliveries, damage, cache     *)
(* files torn / deleted, the cache directory made unusable -- and logs, per*)
(* step, the operation WITH its arguments and what was observed: outcome   *)
(* class, whether the returned tree is the complete tree of the version    *)
(* lying at the location, which index files exist, what changed on disk.   *)
(* Every line is one action of Alos2 taken with the logged arguments; the  *)
(* observation must equal the action's `last'`.  Verdicts are total: one   *)
(* per trace, naming the lines and clauses (the first eight) that the      *)
(* specification cannot explain -- a check reports those of the classes its *)
(* property owns, so an early breach of another property does not hide a    *)
(* later one.  Clauses "cells" / "written" compare the Design (how the*)
(* cache state evolves); all others are the properties' own statements.    *)
(***************************************************************************)
EXTENDS Alos2, Json, IOUtils

Lines == ndJsonDeserialize(IOEnv.TRACE_FILE)
TwoImages == <<"a", "b">>
TwoLocs == {"P", "Q"}

VARIABLES l, tid, bad, badLine,
          needSync,   \* the cells logged with the last line differ from the Design's: adopt them before going on
          ndrift      \* number of such resynchronisations in this trace (Design drift, informational)
tvars == <<l, tid, bad, badLine, needSync, ndrift>>

Verdict == PrintT(<<"VERDICT", tid, IF bad = << >> THEN "accepted" ELSE "rejected", ndrift, bad>>)

TInit == /\ Init /\ l = 2 /\ Lines[1].e = "hdr" /\ tid = Lines[1].tid /\ bad = << >> /\ badLine = 0 /\ needSync = FALSE /\ ndrift = 0

Ev == Lines[l]
Img(s) == s                                    \* image ids are logged as "a" / "b"
CellSt(c) == c.st
\* observed cells: [local |-> [P |-> [a |-> "full", ...]], adjacent |-> ...]
CellsMatch(ev, loc2, adj2) ==
    \A w \in {"local", "adjacent"} : \A x \in Locs : \A m \in ImageSet :
        ev.cells[w][x][m] = (IF w = "local" THEN loc2[x][m].st ELSE adj2[x][m].st)

\* first clause of the observation that the action's result does not explain ("" = explained)
JudgeOpen(ev, la, loc2, adj2) ==
    IF ev.prod_changed THEN "product-modified"
    ELSE IF ev.cache_foreign THEN "cache-unasked"
    ELSE IF ev.opts_mutated THEN "options-mutated"
    ELSE IF la.outcome = "tree" /\ ev.outcome # "tree" THEN (IF la.judged THEN "spurious-error" ELSE "drift:unjudged-open-raised")
    ELSE IF la.outcome # "tree" /\ ev.outcome = "tree" THEN (IF la.cause # "cachedir" THEN "not-failstop"
                                                               ELSE IF ev.match = "same" THEN "drift:unusable-cache-dir-tolerated" ELSE "content:" \o ev.match)
    ELSE IF la.outcome = "oserror" /\ ev.outcome = "error" THEN "wrong-error-class"
    ELSE IF la.outcome = "tree" /\ la.judged /\ ev.match # "same" THEN "content:" \o ev.match
    ELSE IF la.outcome = "tree" /\ ~la.uc /\ ev.consulted THEN "cache-consulted-when-disabled"
    ELSE IF la.outcome = "tree" /\ la.cc /\ ev.outcome = "tree" /\ \E m \in ImageSet : la.src[m] = "parse" /\ ev.cells["local"][la.loc][m] # "full" /\ cacheOK
         THEN "not-repaired"
    ELSE ""
JudgeLoad(ev, la) == IF la.judged /\ ev.outcome # "equal" THEN "load:" \o ev.outcome ELSE ""
JudgeCli(ev, la, loc2, adj2) ==
    IF la.outcome = "ok" /\ ev.outcome # "ok" THEN "cli-failed"
    ELSE IF ev.prod_changed THEN "product-modified"
    ELSE IF ev.cache_foreign THEN "cache-unasked"
    ELSE ""
JudgeQuiet(ev) == IF ev.prod_changed THEN "product-modified" ELSE IF ev.cache_foreign THEN "cache-unasked" ELSE ""

Explain ==
    LET ev == Ev IN
    CASE ev.e = "open"      -> Open(ev.loc, ev.uc, ev.cc, ev.rpc, ev.slot)
      [] ev.e = "load"      -> Load(ev.slot, ev.img, ev.sel)
      [] ev.e = "mutate"    -> Mutate(ev.slot, ev.img)
      [] ev.e = "copy"      -> Copy(ev.slot, ev.into)
      [] ev.e = "drop"      -> Drop(ev.slot)
      [] ev.e = "close"     -> Close(ev.slot)
      [] ev.e = "cli"       -> Cli(ev.loc, ev.img, ev.rpc, ev.target)
      [] ev.e = "redeliver" -> Redeliver(ev.loc, ev.ver)
      [] ev.e = "copyto"    -> CopyTo(ev.loc, ev.dst)
      [] ev.e = "damage"    -> Damage(ev.loc, ev.file, ev.how)
      [] ev.e = "restore"   -> Restore(ev.loc)
      [] ev.e = "delete"    -> CellSet(ev.loc, ev.img, ev.cell, Absent)
      [] ev.e = "tear"      -> CellSet(ev.loc, ev.img, ev.cell, Torn)
      [] ev.e = "block"     -> CellSet(ev.loc, ev.img, ev.cell, Blocked)
      [] ev.e = "cachedir"  -> CacheDir(ev.usable)
      [] ev.e = "purge"     -> Purge(ev.scope)
      [] OTHER -> FALSE

Clause(ev, la, loc2, adj2) ==
    CASE ev.e = "open" -> JudgeOpen(ev, la, loc2, adj2)
      [] ev.e = "load" -> JudgeLoad(ev, la)
      [] ev.e = "cli"  -> JudgeCli(ev, la, loc2, adj2)
      [] ev.e = "copy" -> IF JudgeQuiet(ev) # "" THEN JudgeQuiet(ev) ELSE IF ~ev.typed THEN "copy-untyped" ELSE ""   \* a copy is a tree like any other (C12)
      [] ev.e \in {"mutate", "drop", "close"} -> JudgeQuiet(ev)
      [] OTHER -> ""

HasCells(ev) == ev.e \in {"open", "cli"}
Consume ==
    /\ ~needSync
    /\ l <= Len(Lines) /\ Ev.e # "hdr"
    /\ ENABLED Explain
    /\ Explain
    /\ LET c == Clause(Ev, last', local', adjacent') IN
       IF c # "" /\ Len(bad) < 8 THEN bad' = Append(bad, <<l, c>>) /\ badLine' = l ELSE UNCHANGED <<bad, badLine>>
    /\ needSync' = (HasCells(Ev) /\ ~CellsMatch(Ev, local', adjacent'))
    /\ l' = l + 1 /\ UNCHANGED <<tid, ndrift>>
\* The cells are LOGGED state: where the real cache state left the Design (the library wrote or removed an index on its own, the CLI
\* indexed a shortened image, ...) the logged state is adopted and validation goes on.  A cell that appeared unasked is marked so.
Adopt(obs, cur, v) == IF obs = cur.st THEN cur ELSE IF obs = "full" THEN Unasked(v) ELSE IF obs = "torn" THEN Torn ELSE IF obs = "blocked" THEN Blocked ELSE Absent
Resync ==
    /\ needSync /\ PrintT(<<"RESYNC", tid, l - 1>>)
    /\ LET ev == Lines[l - 1] IN
         /\ local' = [x \in Locs |-> [m \in ImageSet |-> Adopt(ev.cells["local"][x][m], local[x][m], store[x].ver)]]
         /\ adjacent' = [x \in Locs |-> [m \in ImageSet |-> Adopt(ev.cells["adjacent"][x][m], adjacent[x][m], store[x].ver)]]
    /\ needSync' = FALSE /\ ndrift' = ndrift + 1
    /\ UNCHANGED <<store, cacheOK, tree, ops, last, l, tid, bad, badLine>>
\* a line the specification cannot take at all (only possible after an earlier divergence, or a driver error)
Stuck ==
    /\ ~needSync
    /\ l <= Len(Lines) /\ Ev.e # "hdr"
    /\ ~ENABLED Explain
    /\ (IF bad = << >> THEN bad' = << <<l, "not-enabled:" \o Ev.e>> >> /\ badLine' = l ELSE UNCHANGED <<bad, badLine>>)
    /\ l' = l + 1 /\ UNCHANGED <<tid, vars, needSync, ndrift>>
NewTrace ==
    /\ ~needSync
    /\ l <= Len(Lines) /\ Ev.e = "hdr" /\ Verdict
    /\ tid' = Ev.tid /\ bad' = << >> /\ badLine' = 0 /\ l' = l + 1 /\ needSync' = FALSE /\ ndrift' = 0
    /\ store' = [x \in Locs |-> [ver |-> VerName(x, 0), dmg |-> [f \in Files |-> "ok"]]]
    /\ local' = [x \in Locs |-> [m \in ImageSet |-> Absent]] /\ adjacent' = [x \in Locs |-> [m \in ImageSet |-> Absent]]
    /\ cacheOK' = TRUE /\ tree' = [t \in Slots |-> NoTree] /\ ops' = 0 /\ last' = Quiet
Fin == /\ ~needSync /\ l = Len(Lines) + 1 /\ Verdict /\ l' = l + 1 /\ UNCHANGED <<tid, bad, badLine, vars, needSync, ndrift>>

TNext == Consume \/ Resync \/ Stuck \/ NewTrace \/ Fin
TSpec == TInit /\ [][TNext]_<<vars, tvars>>
=============================================================================
