------------------------------- MODULE Loads -------------------------------
(***************************************************************************)
(* Concurrent pixel loads (property C19).  Each thread t loads Chunks[t]   *)
(* chunks of variable VarOf[t]:                                            *)
(*   Acquire the variable's lock -> open a file handle -> for each chunk   *)
(*   (seek to its offset; read) -> close -> release -> return.             *)
(* The file system serves a read from the handle's CURRENT position,       *)
(* whatever the thread intended: `want` is the offset the thread needs,    *)
(* `got` what it was served.                                               *)
(*   SharedHandle = FALSE  a fresh handle per load (what array.py does)    *)
(*   SharedHandle = TRUE   one cached handle per variable (a realistic     *)
(*                         "optimisation")                                 *)
(*   UseLock               the per-variable SerializableLock is taken      *)
(*   LockOf[t]             WHICH lock thread t takes: the lock object of   *)
(*                         the variable it loads from.  A pickled copy of a*)
(*                         tree shares the lock of the original (the       *)
(*                         SerializableLock token travels with the pickle):*)
(*                         LockOf = VarOf.  A copy that ends up with a lock*)
(*                         of its own (LockOf injective) is only safe on   *)
(*                         file systems that give every open a private     *)
(*                         position; on one that hands out ONE file object *)
(*                         per path (fsspec memory://) it must fail.       *)
(* TLC must find NO error for the code's design (fresh handle, with or     *)
(* without lock; shared handle WITH lock) and MUST find the seek/seek/read *)
(* counterexample for SharedHandle /\ ~UseLock -- a model that cannot      *)
(* express the bug proves nothing.                                         *)
(***************************************************************************)
EXTENDS Integers, Sequences, FiniteSets, TLC

CONSTANTS Threads, VarOf, Chunks, SharedHandle, UseLock, LockOf

Vars == { VarOf[t] : t \in Threads }
Locks == { LockOf[t] : t \in Threads }
Off(t, c) == 1000 * t + 100 * c          \* distinct offset of chunk c of thread t's selection
Size == 10

VARIABLES tpc, lock, hopen, hpos, ci, want, got
vars == <<tpc, lock, hopen, hpos, ci, want, got>>

\* handle identity: per load, or per variable
H(t) == IF SharedHandle THEN <<"var", VarOf[t]>> ELSE <<"load", t>>
Handles == { H(t) : t \in Threads }

Init == /\ tpc = [t \in Threads |-> "start"]
        /\ lock = [k \in Locks |-> 0]
        /\ hopen = [h \in Handles |-> FALSE] /\ hpos = [h \in Handles |-> 0]
        /\ ci = [t \in Threads |-> 1] /\ want = [t \in Threads |-> -1] /\ got = [t \in Threads |-> << >>]

Acquire(t) == /\ tpc[t] = "start"
              /\ IF UseLock THEN lock[LockOf[t]] = 0 /\ lock' = [lock EXCEPT ![LockOf[t]] = t] ELSE UNCHANGED lock
              /\ tpc' = [tpc EXCEPT ![t] = "locked"]
              /\ UNCHANGED <<hopen, hpos, ci, want, got>>

FOpen(t) == /\ tpc[t] = "locked"
            /\ IF hopen[H(t)] THEN UNCHANGED <<hopen, hpos>>                    \* cached handle re-used as it is
               ELSE hopen' = [hopen EXCEPT ![H(t)] = TRUE] /\ hpos' = [hpos EXCEPT ![H(t)] = 0]
            /\ tpc' = [tpc EXCEPT ![t] = IF Chunks[t] = 0 THEN "closing" ELSE "opened"]
            /\ UNCHANGED <<lock, ci, want, got>>

Seek(t) == /\ tpc[t] = "opened"
           /\ hpos' = [hpos EXCEPT ![H(t)] = Off(t, ci[t])]
           /\ want' = [want EXCEPT ![t] = Off(t, ci[t])]
           /\ tpc' = [tpc EXCEPT ![t] = "seeked"]
           /\ UNCHANGED <<lock, hopen, ci, got>>

Read(t) == /\ tpc[t] = "seeked"
           /\ got' = [got EXCEPT ![t] = Append(@, hpos[H(t)])]                  \* served from the CURRENT position
           /\ hpos' = [hpos EXCEPT ![H(t)] = @ + Size]
           /\ ci' = [ci EXCEPT ![t] = @ + 1]
           /\ tpc' = [tpc EXCEPT ![t] = IF ci[t] = Chunks[t] THEN "closing" ELSE "opened"]
           /\ UNCHANGED <<lock, hopen, want>>

FClose(t) == /\ tpc[t] = "closing"
             /\ IF SharedHandle THEN UNCHANGED hopen ELSE hopen' = [hopen EXCEPT ![H(t)] = FALSE]
             /\ tpc' = [tpc EXCEPT ![t] = "closed"]
             /\ UNCHANGED <<lock, hpos, ci, want, got>>

Release(t) == /\ tpc[t] = "closed"
              /\ IF UseLock THEN lock' = [lock EXCEPT ![LockOf[t]] = 0] ELSE UNCHANGED lock
              /\ tpc' = [tpc EXCEPT ![t] = "done"]
              /\ UNCHANGED <<hopen, hpos, ci, want, got>>

AllDone == \A t \in Threads : tpc[t] = "done"
Next == (\E t \in Threads : Acquire(t) \/ FOpen(t) \/ Seek(t) \/ Read(t) \/ FClose(t) \/ Release(t)) \/ (AllDone /\ UNCHANGED vars)
Spec == Init /\ [][Next]_vars
FairSpec == Spec /\ \A t \in Threads : WF_vars(Acquire(t) \/ FOpen(t) \/ Seek(t) \/ Read(t) \/ FClose(t) \/ Release(t))

Expected(t) == [c \in 1..Chunks[t] |-> Off(t, c)]
ServedIsWanted    == \A t \in Threads : \A k \in 1..Len(got[t]) : got[t][k] = Off(t, k)
ResultsSequential == \A t \in Threads : tpc[t] = "done" => got[t] = Expected(t)
MutualExclusion   == UseLock => \A a, b \in Threads : (a # b /\ LockOf[a] = LockOf[b]) =>
                        ~(tpc[a] \in {"locked", "opened", "seeked", "closing", "closed"} /\ tpc[b] \in {"locked", "opened", "seeked", "closing", "closed"})
Termination == <>AllDone
=============================================================================
