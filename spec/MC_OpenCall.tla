---------------------------- MODULE MC_OpenCall ----------------------------
EXTENDS OpenCall, Json, IOUtils, SequencesExt

Im(p, s) == [pol |-> p, scan |-> s]
SmallProducts == {
    [imgs |-> << Im("HH", "") >>, nmap |-> 1],
    [imgs |-> << Im("HH", ""), Im("HV", "") >>, nmap |-> 0],
    [imgs |-> << Im("HH", "F1"), Im("HH", "F2"), Im("HV", "F1") >>, nmap |-> 0] }

FaultCases == LET ps == SetToSeq(SmallProducts) IN
              [i \in 1..Len(ps) |-> [prod |-> ps[i], faults |-> SetToSeq(Faults(ps[i]))]]
ASSUME "FAULTS_FILE" \in DOMAIN IOEnv => JsonSerialize(IOEnv.FAULTS_FILE, FaultCases)
=============================================================================
