---------------------------- MODULE MC_OpenCall ----------------------------
EXTENDS OpenCall, Json, IOUtils, SequencesExt

Im(p, s) == [pol |-> p, scan |-> s]
SmallProducts == {
    [imgs |-> << Im("HH", "") >>, nmap |-> 1],
    [imgs |-> << Im("HH", ""), Im("HV", "") >>, nmap |-> 0],
    [imgs |-> << Im("HH", "F1"), Im("HH", "F2"), Im("HV", "F1") >>, nmap |-> 0] }

Pool == { Im(p, s) : p \in {"HH", "HV", "VV"}, s \in {"", "F1", "F2"} }
Seqs(n) == { q \in [1..n -> Pool] : \A i, j \in 1..n : i # j => GroupName(q[i]) # GroupName(q[j]) }
Family == { [imgs |-> q, nmap |-> m] : q \in Seqs(1) \cup Seqs(2) \cup Seqs(3), m \in 0..1 }
ASSUME "PRODUCTS_FILE" \in DOMAIN IOEnv => JsonSerialize(IOEnv.PRODUCTS_FILE,
         LET f == SetToSeq(Family) IN [i \in 1..Len(f) |-> [prod |-> f[i], names |-> [k \in 1..Len(f[i].imgs) |-> GroupName(f[i].imgs[k])],
                                                            meta |-> SetToSeq(MetaGroups(f[i]))]])

FaultCases == LET ps == SetToSeq(SmallProducts) IN
              [i \in 1..Len(ps) |-> [prod |-> ps[i], faults |-> SetToSeq(Faults(ps[i]))]]
ASSUME "FAULTS_FILE" \in DOMAIN IOEnv => JsonSerialize(IOEnv.FAULTS_FILE, FaultCases)
=============================================================================
