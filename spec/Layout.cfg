
