SPECIFICATION FairSpec
CONSTANTS
  Threads = {1, 2, 3}
  VarOf <- SameVar3
  LockOf <- SameVar3
  Chunks <- Ch3
  SharedHandle = FALSE
  UseLock = TRUE
INVARIANT ServedIsWanted
INVARIANT ResultsSequential
INVARIANT MutualExclusion
PROPERTY Termination
