------------------------- MODULE MC_SummaryGrammar -------------------------
EXTENDS SummaryGrammar, Json, IOUtils
ASSUME "GRAMMAR_FILE" \in DOMAIN IOEnv => JsonSerialize(IOEnv.GRAMMAR_FILE, [corruptions |-> Corruptions, conv |-> Conv, sections |-> SectionNames, resampling |-> Resampling, facilities |-> Facilities])
=============================================================================
