------------------------------- MODULE Export -------------------------------
(* Layout service: TLC evaluates Framing!Instance for every request in the     *)
(* JSON file named by the environment variable REQ_FILE and serialises the     *)
(* placed instance (record offsets, leaf offsets/widths/kinds/units/roles,     *)
(* declared values) to the request's "out" path.  The synthesiser and the      *)
(* oracles get every offset of every field from here, never from /repo.        *)
EXTENDS FileFormat, OutMap, Json, IOUtils


Req == JsonDeserialize(IOEnv.REQ_FILE)

Param(r) ==
    CASE r.file = "leader"  -> [nmap |-> r.nmap, np |-> r.np, attlen |-> r.attlen, nch |-> r.nch,
                                f1 |-> r.f1, f2 |-> r.f2, f3 |-> r.f3, f4 |-> r.f4]
      [] r.file = "volume"  -> [nfp |-> r.nfp]
      [] r.file = "image"   -> [kind |-> r.kind, n |-> r.n, ndata |-> r.ndata, bps |-> r.bps]
      [] r.file = "trailer" -> [nlow |-> r.nlow, lens |-> r.lens]

ASSUME \A i \in 1..Len(Req) : JsonSerialize(Req[i].out, Instance(Req[i].file, Param(Req[i])))
ASSUME IF "TABLES_FILE" \in DOMAIN IOEnv THEN JsonSerialize(IOEnv.TABLES_FILE, EnumTables) ELSE TRUE
ASSUME IF "OUTMAP_FILE" \in DOMAIN IOEnv THEN JsonSerialize(IOEnv.OUTMAP_FILE, OutMap) ELSE TRUE
ASSUME PrintT(<<"EXPORTED", Len(Req)>>)
=============================================================================
