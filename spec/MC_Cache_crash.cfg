SPECIFICATION Spec
CONSTANTS
  Images = {"a"}
  Procs = {1, 2}
  Rpcs = {1}
  B = 3
  MaxOps = 4
  AllowCrash = TRUE
  AllowEnv = FALSE
  TornIsMiss = TRUE
INVARIANT ResultIdeal
INVARIANT NoConsultWhenDisabled
INVARIANT SrcKnown
INVARIANT CacheWritesOnlyWhenAsked
CHECK_DEADLOCK FALSE
