SPECIFICATION Spec
CONSTANTS
  Threads = {1, 2}
  VarOf <- SameVar2
  LockOf <- SameVar2
  Chunks <- Ch2
  SharedHandle = FALSE
  UseLock = TRUE
INVARIANT ServedIsWanted
CHECK_DEADLOCK FALSE
