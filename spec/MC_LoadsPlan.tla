---------------------------- MODULE MC_LoadsPlan ----------------------------
EXTENDS LoadsPlan
\* T1 re-loads the first selection of the history ("a"), T2 and T3 load selections never seen before
Key3 == (1 :> "a" @@ 2 :> "x" @@ 3 :> "y")
Hist4 == <<"a", "b", "c", "d">>
Hist2 == <<"a", "b">>
=============================================================================
