
