---------------------------- MODULE Trace_Loads ----------------------------
(***************************************************************************)
(* Validation of REALISED schedules of concurrent loads (recorded by the   *)
(* vtrace filesystem under the deterministic scheduler) against the        *)
(* properties of Loads.tla: every read must be served from the offset its  *)
(* own thread last sought (ServedIsWanted); every thread returns the       *)
(* sequential result; no deadlock.  Batched ndjson: "hdr" starts a trace,  *)
(* events carry thread, handle and offsets.                                *)
(***************************************************************************)
EXTENDS Integers, Sequences, FiniteSets, TLC, Json, IOUtils

Lines == ndJsonDeserialize(IOEnv.TRACE_FILE)

VARIABLES l, tid, hpos, want, bad, badLine
vars == <<l, tid, hpos, want, bad, badLine>>

Verdict == PrintT(<<"VERDICT", tid, IF bad = "" THEN "accepted" ELSE "rejected", badLine, bad>>)
Fresh == /\ hpos' = [h \in {} |-> 0] /\ want' = [t \in {} |-> 0] /\ bad' = "" /\ badLine' = 0

Init == /\ l = 2 /\ Lines[1].e = "hdr" /\ tid = Lines[1].tid
        /\ hpos = [h \in {} |-> 0] /\ want = [t \in {} |-> 0] /\ bad = "" /\ badLine = 0

Fail(c) == IF bad = "" THEN bad' = c /\ badLine' = l ELSE UNCHANGED <<bad, badLine>>
Ext(f, k, v) == [x \in DOMAIN f \cup {k} |-> IF x = k THEN v ELSE f[x]]

Consume ==
    /\ l <= Len(Lines) /\ Lines[l].e # "hdr"
    /\ LET ev == Lines[l] IN
       CASE ev.e = "fopen" -> hpos' = Ext(hpos, ev.h, 0) /\ UNCHANGED <<want, bad, badLine>>
         [] ev.e = "seek"  -> hpos' = Ext(hpos, ev.h, ev.off) /\ want' = Ext(want, ev.t, ev.off) /\ UNCHANGED <<bad, badLine>>
         [] ev.e = "read"  ->
              /\ hpos' = Ext(hpos, ev.h, ev.pos + ev.got)
              /\ want' = IF ev.t \in DOMAIN want THEN [want EXCEPT ![ev.t] = ev.pos + ev.got] ELSE want
              /\ IF ev.h \in DOMAIN hpos /\ hpos[ev.h] # ev.pos THEN Fail("filesystem-position-mismatch")
                 ELSE IF ev.t \in DOMAIN want /\ want[ev.t] # ev.pos THEN Fail("served-is-not-wanted")
                 ELSE UNCHANGED <<bad, badLine>>
         [] ev.e = "ret"   -> (IF ev.outcome # "sequential" THEN Fail("result-" \o ev.outcome) ELSE UNCHANGED <<bad, badLine>>) /\ UNCHANGED <<hpos, want>>
         [] ev.e = "end"   -> (IF ev.deadlock THEN Fail("deadlock") ELSE UNCHANGED <<bad, badLine>>) /\ UNCHANGED <<hpos, want>>
         [] OTHER -> UNCHANGED <<hpos, want, bad, badLine>>
    /\ l' = l + 1 /\ UNCHANGED tid

NewTrace == /\ l <= Len(Lines) /\ Lines[l].e = "hdr" /\ Verdict
            /\ tid' = Lines[l].tid /\ Fresh /\ l' = l + 1
Fin == /\ l = Len(Lines) + 1 /\ Verdict /\ l' = l + 1 /\ UNCHANGED <<tid, hpos, want, bad, badLine>>
Next == Consume \/ NewTrace \/ Fin
Spec == Init /\ [][Next]_vars
Consumed == TLCGet("stats").diameter = Len(Lines) + 1
=============================================================================
