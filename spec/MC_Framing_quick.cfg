SPECIFICATION Spec
CONSTANT Cases <- QuickCases
INVARIANT CursorAligned
INVARIANT InadmissibleRejected
INVARIANT EndsAtTotal
CHECK_DEADLOCK FALSE
