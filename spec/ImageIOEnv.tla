----------------------------- MODULE ImageIOEnv -----------------------------
(***************************************************************************)
(* ENVELOPE for the I/O of one image file: exactly what properties C11,    *)
(* C18 (image part) and the result clauses of C01 permit, as a pure        *)
(* observer:  env' = Observe(env, ev, g)  for every event ev of an         *)
(* execution on an image of geometry g = [n, p, prefix, bps, rpc, flen,    *)
(* img].  env.bad names the first clause an event violated ("" = none).    *)
(*                                                                         *)
(* The Design model (ImageIO.tla) is checked to stay inside this envelope  *)
(* (MC_ImageIO: invariant EnvAccepts); traces recorded from the real code  *)
(* are judged against it (Trace_ImageIO).                                  *)
(*                                                                         *)
(* Open-time clause (C11): after a first read at offset 0 (the 720-byte    *)
(*   descriptor) the line records are read front to back (no read starts   *)
(*   before the end of the previous one) in at most ceil(n / rpc) requests.*)
(* Load-time clauses (C11): at most one read per group of rpc consecutive  *)
(*   lines; only for groups overlapping [min selected row, max selected    *)
(*   row]; each request confined to that group's bytes and to the file; no *)
(*   other file of the product is touched; every handle opened is closed.  *)
(* Transient faults: a "fault" event (a request that failed with an I/O    *)
(*   error, possibly after moving the position) is not a read; the call it *)
(*   hits may RAISE or must be RIGHT -- never a silently wrong result; and *)
(*   the groups already delivered are not requested again (a retry is of   *)
(*   the failed request, not of the whole selection).                      *)
(* Result clauses: an open reports ok only if nothing is missing from the  *)
(*   file (C18) with the header-declared shape (C01); a load returns the   *)
(*   selected cells (C01/C02, compared by the harness, logged as "equal"). *)
(***************************************************************************)
EXTENDS Chunking

Grp(g, r)    == r \div g.rpc
GrpLo(g, c)  == RecStart(g, c * g.rpc)
GrpHi(g, c)  == RecStart(g, Min(g.n, (c + 1) * g.rpc))
NGroups(g)   == CeilDiv(g.n, g.rpc)

RECURSIVE SeqMin(_), SeqMax(_)
SeqMin(s) == IF Len(s) = 1 THEN s[1] ELSE Min(Head(s), SeqMin(Tail(s)))
SeqMax(s) == IF Len(s) = 1 THEN s[1] ELSE Max(Head(s), SeqMax(Tail(s)))
SpanGroups(g, rows) == IF rows = << >> THEN {} ELSE Grp(g, SeqMin(rows)) .. Grp(g, SeqMax(rows))

EnvInit == [phase |-> "idle", nMeta |-> 0, lastEnd |-> 0, first |-> TRUE, readGroups |-> {}, span |-> {},
            handles |-> {}, faulted |-> FALSE, bad |-> ""]

Fail(env, clause) == IF env.bad = "" THEN [env EXCEPT !.bad = clause] ELSE env

Eff(ev) == IF ev.req < 0 THEN ev.got ELSE ev.req          \* read() without a size requests what it got

ObserveOpenRead(env, ev, g) ==
    IF ev.f # g.img THEN env                              \* summary / volume directory / leader during an open
    ELSE IF env.first THEN
         (IF ev.pos = 0 THEN [env EXCEPT !.first = FALSE, !.lastEnd = ev.got]
          ELSE Fail(env, "descriptor-first"))
    ELSE IF ev.pos < env.lastEnd THEN Fail(env, "front-to-back")
    ELSE IF env.nMeta + 1 > NGroups(g) THEN Fail(env, "meta-request-count")
    ELSE [env EXCEPT !.nMeta = env.nMeta + 1, !.lastEnd = ev.pos + ev.got]

ObserveLoadRead(env, ev, g) ==
    IF ev.f # g.img THEN Fail(env, "foreign-file-on-load")
    ELSE LET lo  == ev.pos
             hi  == ev.pos + Eff(ev)
             fit == { c \in 0 .. NGroups(g) - 1 : GrpLo(g, c) <= lo /\ hi <= GrpHi(g, c) }
         IN  IF hi > g.flen THEN Fail(env, "inside-file")
             ELSE IF fit = {} THEN Fail(env, "confined-to-group")
             ELSE IF fit \cap env.span = {} THEN Fail(env, "group-outside-span")
             ELSE IF (fit \cap env.span) \subseteq env.readGroups THEN Fail(env, "one-read-per-group")
             ELSE [env EXCEPT !.readGroups = env.readGroups \cup
                                             {CHOOSE c \in (fit \cap env.span) \ env.readGroups : TRUE}]

Observe(env, ev, g) ==
    CASE ev.e = "begin_open" ->
            [env EXCEPT !.phase = "opening", !.nMeta = 0, !.lastEnd = 0, !.first = TRUE, !.faulted = FALSE]
      [] ev.e = "fault" -> [env EXCEPT !.faulted = TRUE]
      [] ev.e = "fopen" ->
            IF env.phase = "loading" /\ ev.f # g.img THEN Fail(env, "foreign-file-on-load")
            ELSE [env EXCEPT !.handles = env.handles \cup {ev.h}]
      [] ev.e = "fclose" -> [env EXCEPT !.handles = env.handles \ {ev.h}]
      [] ev.e = "seek"   -> IF env.phase = "loading" /\ ev.f # g.img THEN Fail(env, "foreign-file-on-load") ELSE env
      [] ev.e = "cat"    -> IF env.phase = "loading" THEN Fail(env, "foreign-file-on-load") ELSE env
      [] ev.e = "read"   ->
            IF env.phase = "opening" THEN ObserveOpenRead(env, ev, g)
            ELSE IF env.phase = "loading" THEN ObserveLoadRead(env, ev, g)
            ELSE env
      [] ev.e = "opened" ->
            LET e1 == IF ev.outcome = "ok" /\ g.flen < Full(g) THEN Fail(env, "failstop-truncated-accepted") ELSE env
                e2 == IF ev.outcome = "ok" /\ ev.shape # << g.n, g.p >> THEN Fail(e1, "declared-shape") ELSE e1
                e3 == IF ev.outcome # "ok" /\ g.flen = Full(g) /\ ev.expect = "ok" /\ ~env.faulted THEN Fail(e2, "wellformed-rejected") ELSE e2
                e4 == IF e3.handles # {} THEN Fail(e3, "handle-leak-on-open") ELSE e3
            IN  [e4 EXCEPT !.phase = "opened"]
      [] ev.e = "begin_load" ->
            [env EXCEPT !.phase = "loading", !.readGroups = {}, !.span = SpanGroups(g, ev.rows), !.faulted = FALSE]
      [] ev.e = "loaded" ->
            LET e1 == IF ev.outcome = "equal" \/ (ev.outcome = "error" /\ env.faulted) THEN env ELSE Fail(env, "result-" \o ev.outcome)
                e2 == IF e1.handles # {} THEN Fail(e1, "handle-leak-on-load") ELSE e1
            IN  [e2 EXCEPT !.phase = "opened"]
      [] OTHER -> env
=============================================================================
