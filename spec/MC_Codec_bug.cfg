SPECIFICATION Spec
CONSTANTS
  MaxDepth = 2
  RefFirstElement = TRUE
INVARIANT RoundTrip
INVARIANT TuplesStayTuples
CHECK_DEADLOCK FALSE
