----------------------------- MODULE LoadsPlan -----------------------------
(***************************************************************************)
(* The PLANNING phase of a pixel load (property C19), i.e. what            *)
(* Array.__getitem__ does before its first file operation and therefore    *)
(* before any yield point of Loads.tla: turn the row selection into byte   *)
(* ranges per group (compute_selected_ranges, groupby_chunks,              *)
(* merge_chunk_info, relocate_ranges).  Loads.tla assumes this phase is    *)
(* thread-local.  This module states the assumption and what breaks it:    *)
(*   Memo = "none"      every load computes its own plan from immutable    *)
(*                      inputs (what array.py does): nothing shared.       *)
(*   Memo = "atomic"    a process-wide bounded memo (LRU, capacity Cap)    *)
(*                      whose look-up is ONE step (under a lock).          *)
(*   Memo = "cta"       the same memo looked up check-then-act:            *)
(*                      `if key in m: m.move_to_end(key); return m[key]`   *)
(*                      -- three steps another thread's insert+evict can   *)
(*                      fall between.                                      *)
(* The memo is a sequence of keys, least recently used first; the history  *)
(* of the process has filled it (Init).  TLC must find no error for "none" *)
(* and "atomic" and MUST find the spurious KeyError for "cta" -- the       *)
(* behaviour the line-grain schedules of checks/C19.py realise on the real *)
(* code: T1 parked between Check and Touch, T2 = a miss that evicts.       *)
(***************************************************************************)
EXTENDS Integers, Sequences, FiniteSets, TLC

CONSTANTS Threads, KeyOf, Cap, History, Memo

VARIABLES ppc, memo, plan, err
vars == <<ppc, memo, plan, err>>

Keys == { KeyOf[t] : t \in Threads } \cup { History[i] : i \in 1..Len(History) }
Has(m, k) == \E i \in 1..Len(m) : m[i] = k
Without(m, k) == SelectSeq(m, LAMBDA x : x # k)
Bounded(m) == IF Len(m) > Cap THEN SubSeq(m, Len(m) - Cap + 1, Len(m)) ELSE m
PlanOf(k) == <<"plan", k>>             \* the plan is a function of the key alone (immutable layout + selection)

Init == /\ ppc = [t \in Threads |-> "start"]
        /\ memo = Bounded(History)
        /\ plan = [t \in Threads |-> <<>>]
        /\ err = [t \in Threads |-> FALSE]

\* --- no memo: the code ------------------------------------------------------
ComputeOwn(t) == /\ Memo = "none" /\ ppc[t] = "start"
                 /\ plan' = [plan EXCEPT ![t] = PlanOf(KeyOf[t])]
                 /\ ppc' = [ppc EXCEPT ![t] = "planned"]
                 /\ UNCHANGED <<memo, err>>

\* --- memo, look-up in one step ------------------------------------------------
LookupAtomic(t) == /\ Memo = "atomic" /\ ppc[t] = "start"
                   /\ memo' = Bounded(Append(Without(memo, KeyOf[t]), KeyOf[t]))
                   /\ plan' = [plan EXCEPT ![t] = PlanOf(KeyOf[t])]
                   /\ ppc' = [ppc EXCEPT ![t] = "planned"]
                   /\ UNCHANGED err

\* --- memo, check-then-act -------------------------------------------------------
Check(t) == /\ Memo = "cta" /\ ppc[t] = "start"
            /\ ppc' = [ppc EXCEPT ![t] = IF Has(memo, KeyOf[t]) THEN "hit" ELSE "miss"]
            /\ UNCHANGED <<memo, plan, err>>
Touch(t) == /\ ppc[t] = "hit"
            /\ IF Has(memo, KeyOf[t])
                 THEN /\ memo' = Append(Without(memo, KeyOf[t]), KeyOf[t])
                      /\ plan' = [plan EXCEPT ![t] = PlanOf(KeyOf[t])]
                      /\ ppc' = [ppc EXCEPT ![t] = "planned"]
                      /\ UNCHANGED err
                 ELSE /\ err' = [err EXCEPT ![t] = TRUE]                  \* KeyError: evicted since Check
                      /\ ppc' = [ppc EXCEPT ![t] = "failed"]
                      /\ UNCHANGED <<memo, plan>>
Insert(t) == /\ ppc[t] = "miss"
             /\ memo' = Bounded(Append(Without(memo, KeyOf[t]), KeyOf[t]))
             /\ plan' = [plan EXCEPT ![t] = PlanOf(KeyOf[t])]
             /\ ppc' = [ppc EXCEPT ![t] = "planned"]
             /\ UNCHANGED err

Done == \A t \in Threads : ppc[t] \in {"planned", "failed"}
Next == (\E t \in Threads : ComputeOwn(t) \/ LookupAtomic(t) \/ Check(t) \/ Touch(t) \/ Insert(t)) \/ (Done /\ UNCHANGED vars)
Spec == Init /\ [][Next]_vars
FairSpec == Spec /\ \A t \in Threads : WF_vars(ComputeOwn(t) \/ LookupAtomic(t) \/ Check(t) \/ Touch(t) \/ Insert(t))

TypeOK == /\ ppc \in [Threads -> {"start", "hit", "miss", "planned", "failed"}]
          /\ Len(memo) <= Cap
NoSpuriousError == \A t \in Threads : ~err[t]
PlanIsSequential == \A t \in Threads : ppc[t] = "planned" => plan[t] = PlanOf(KeyOf[t])
\* the assumption Loads.tla relies on: with no memo, no step of one thread changes anything another thread reads
ThreadLocal == [][Memo = "none" => memo' = memo]_vars
Termination == <>Done
=============================================================================
