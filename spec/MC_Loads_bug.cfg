SPECIFICATION FairSpec
CONSTANTS
  Threads = {1, 2}
  VarOf <- SameVar2
  LockOf <- SameVar2
  Chunks <- Ch2
  SharedHandle = TRUE
  UseLock = FALSE
INVARIANT ServedIsWanted
INVARIANT ResultsSequential
INVARIANT MutualExclusion
PROPERTY Termination
