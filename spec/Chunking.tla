------------------------------ MODULE Chunking ------------------------------
(***************************************************************************)
(* Chunk arithmetic of the image reader, transcribed from                  *)
(* sar_image/io.py (metadata pass) and array.py (pixel loads).             *)
(* A geometry is a record  g = [n, p, prefix, bps, rpc]  (lines, pixels,   *)
(* line-prefix bytes, bytes per sample, records_per_chunk as passed).      *)
(***************************************************************************)
EXTENDS Integers, Sequences, FiniteSets

Min(a, b) == IF a < b THEN a ELSE b
Max(a, b) == IF a > b THEN a ELSE b
CeilDiv(a, b) == (a + b - 1) \div b

RecLen(g)       == g.prefix + g.p * g.bps
Full(g)         == 720 + g.n * RecLen(g)
RecStart(g, k)  == 720 + k * RecLen(g)                 \* k = 0-based line number
DataStart(g, k) == RecStart(g, k) + g.prefix
DataStop(g, k)  == RecStart(g, k + 1)

\* ---- metadata pass (sar_image/io.py: read_metadata) ----
NChunks(n, rpc)      == CeilDiv(n, rpc)
ChunkSize(n, rpc, i) == IF rpc * (i + 1) <= n THEN rpc ELSE n - rpc * i       \* i = 0 .. NChunks-1
RECURSIVE SumSizes(_, _, _)
SumSizes(n, rpc, i)  == IF i = 0 THEN 0 ELSE ChunkSize(n, rpc, i - 1) + SumSizes(n, rpc, i - 1)
SumFast(n, rpc, i)   == Min(n, rpc * i)                                       \* closed form (ASSUMEd equal below)
ChunkBase(g, i)      == 720 + RecLen(g) * SumFast(g.n, g.rpc, i)              \* itertools.accumulate(initial=0)
RelRange(g, j)       == << j * RecLen(g) + g.prefix, (j + 1) * RecLen(g) >>   \* Tell / Seek inside one chunk buffer
AbsRange(g, i, j)    == << RelRange(g, j)[1] + ChunkBase(g, i), RelRange(g, j)[2] + ChunkBase(g, i) >>

\* ---- pixel loads (array.py) ----
NormRpc(rpc, n) == IF rpc > n THEN n ELSE rpc                                 \* normalize_chunksize
\* compute_chunk_ranges: [min start, max stop] over partition_all(rpcN, byte_ranges)
Span(g, ranges, c) ==
    LET r  == NormRpc(g.rpc, g.n)
        lo == c * r
        hi == Min(Len(ranges), (c + 1) * r) - 1        \* 0-based inclusive
    IN  << ranges[lo + 1][1], ranges[hi + 1][2] >>
ChunkOf(g, row) == row \div NormRpc(g.rpc, g.n)

\* chunks in order of first appearance (tlz.groupby keeps insertion order)
RECURSIVE Touched(_, _, _)
Touched(g, sel, acc) ==
    IF sel = << >> THEN acc
    ELSE LET c == ChunkOf(g, Head(sel)) IN
         Touched(g, Tail(sel), IF \E i \in 1..Len(acc) : acc[i] = c THEN acc ELSE Append(acc, c))

\* rows of a selection in the order the backend returns them: grouped by chunk (first appearance), selection order inside
RECURSIVE RowsOfChunk(_, _, _)
RowsOfChunk(g, sel, c) ==
    IF sel = << >> THEN << >>
    ELSE (IF ChunkOf(g, Head(sel)) = c THEN << Head(sel) >> ELSE << >>) \o RowsOfChunk(g, Tail(sel), c)
RECURSIVE Concat(_)
Concat(ss) == IF ss = << >> THEN << >> ELSE Head(ss) \o Concat(Tail(ss))
BackendOrder(g, sel) == LET t == Touched(g, sel, << >>) IN Concat([i \in 1..Len(t) |-> RowsOfChunk(g, sel, t[i])])

(* ---- theorems checked by TLC as assumptions over a grid ---- *)
ASSUME \A n \in 1..40, rpc \in 1..44 :
          /\ SumSizes(n, rpc, NChunks(n, rpc)) = n
          /\ \A i \in 0 .. NChunks(n, rpc) - 1 : ChunkSize(n, rpc, i) \in 1..rpc
          /\ NChunks(n, rpc) = NChunks(n, NormRpc(rpc, n))
          /\ \A i \in 0 .. NChunks(n, rpc) : SumFast(n, rpc, i) = SumSizes(n, rpc, i)
=============================================================================
