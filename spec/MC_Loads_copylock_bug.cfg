SPECIFICATION FairSpec
CONSTANTS
  Threads = {1, 2}
  VarOf <- SameVar2
  LockOf <- OwnLock2
  Chunks <- Ch2
  SharedHandle = TRUE
  UseLock = TRUE
INVARIANT ServedIsWanted
INVARIANT ResultsSequential
INVARIANT MutualExclusion
PROPERTY Termination
