SPECIFICATION Spec
POSTCONDITION Consumed
CHECK_DEADLOCK FALSE
