SPECIFICATION Spec
CONSTANTS
  Images <- TwoImages
  Locs <- TwoLocs
  Versions = {0, 1}
  Rpcs = {1, 2, 3}
  Slots = {1, 2}
  MaxOps = 14
  EnvRedeliver = TRUE
  EnvDamage = TRUE
  EnvCaches = TRUE
  EnvCacheDir = TRUE
  UserLoads = TRUE
  UserCopies = TRUE
  UseCli = TRUE
INVARIANT TypeOK
INVARIANT FailStop
INVARIANT MissingIsOSError
INVARIANT TrailerIrrelevant
INVARIANT NoConsultWhenDisabled
INVARIANT RefreshWorks
INVARIANT RepairAfterCreate
INVARIANT JudgedIsCurrent
INVARIANT UnjudgedHasCause
PROPERTY WritesOnlyWhenAsked
PROPERTY TreesKeepIdentity
CHECK_DEADLOCK FALSE
