SPECIFICATION Spec
CONSTANT Products <- Family
CONSTANT NoFaults = TRUE
INVARIANT FailStopFiles
INVARIANT MissingIsOSError
INVARIANT NoTrailerAccess
INVARIANT ExactlyKGroups
INVARIANT GroupOwnsItsFile
INVARIANT MetaMatchesLeader
PROPERTY Terminates
CHECK_DEADLOCK FALSE
