SPECIFICATION Spec
CONSTANT Products <- Family
CONSTANT StoreKinds = {"dir", "deny", "mapping"}
CONSTANT TranslateImageKeyError = TRUE
CONSTANT NoFaults = TRUE
INVARIANT FailStopFiles
INVARIANT MissingIsOSError
INVARIANT NoTrailerAccess
INVARIANT ExactlyKGroups
INVARIANT GroupOwnsItsFile
INVARIANT MetaMatchesLeader
PROPERTY Terminates
CHECK_DEADLOCK FALSE
