SPECIFICATION Spec
INVARIANT Contiguous
INVARIANT EndsAtLength
INVARIANT KindWidth
INVARIANT Classified
INVARIANT UnitsAreOnVariables
CHECK_DEADLOCK FALSE
