SPECIFICATION Spec
INVARIANT Contiguous
INVARIANT EndsAtLength
INVARIANT KindWidth
INVARIANT Classified
INVARIANT UnitsAreOnVariables
INVARIANT WellTypedSlots
CHECK_DEADLOCK FALSE
