---------------------------- MODULE FileFormat ----------------------------
(***************************************************************************)
(* Record sequencing of the four product files with data-dependent counts  *)
(* and lengths (property C05), as a small state machine:                   *)
(*                                                                         *)
(*   a WRITER places record k+1 directly after record k, each record       *)
(*   occupying the length the file DECLARES for it (Layout.tla sizes);     *)
(*   a READER consumes record after record with the padding formulas of    *)
(*   the parser (transcribed from the code: sar_leader/attitude.py,        *)
(*   data_quality_summary.py, facility_related_data.py,                    *)
(*   volume_directory/structure.py, sar_trailer/file_descriptor.py).       *)
(*                                                                         *)
(* Invariant CursorAligned: at every record boundary the reader's cursor   *)
(* equals the writer's offset and no padding length is negative, for every *)
(* admissible parameter instance.  Inadmissible instances (one byte too    *)
(* short, one entry too many) are shown to be rejected (a negative pad).   *)
(*                                                                         *)
(* The same operators give the harness the placement of every record and   *)
(* the values the framing obliges the file to declare (Declared), exported *)
(* as JSON by Export.tla; the synthesiser gets every offset from here.     *)
(***************************************************************************)
EXTENDS Layout

Rec(name, len, fields) == [name |-> name, len |-> len, fields |-> fields]

(* ---------------- parameter records ---------------- *)
\* leader  : [nmap, np, attlen, nch, f1, f2, f3, f4]
\* volume  : [nfp]
\* image   : [kind \in {"signal","processed"}, n, ndata, bps]   (ndata = pixels * bytes per sample)
\* trailer : [nlow, lens]  lens = sequence of the nlow low-resolution image byte lengths

LeaderRecords(p) ==
    << Rec("file_descriptor", 720, LeaderDescriptorFields),
       Rec("dataset_summary", 4096, DatasetSummaryFields) >>
    \o [i \in 1..p.nmap |-> Rec("map_projection", 1620, MapProjectionFields)]
    \o << Rec("platform_position", 4680, PlatformPositionFields),
          Rec("attitude", p.attlen, AttitudeFields(p.np, p.attlen)),
          Rec("radiometric_data", 9860, RadiometricFields),
          Rec("data_quality_summary", 1620, DataQualityFields(p.nch)),
          Rec("facility_related_data_1", p.f1, FacilityFields(p.f1)),
          Rec("facility_related_data_2", p.f2, FacilityFields(p.f2)),
          Rec("facility_related_data_3", p.f3, FacilityFields(p.f3)),
          Rec("facility_related_data_4", p.f4, FacilityFields(p.f4)),
          Rec("facility_related_data_5", 5000, Facility5Fields) >>

VolumeRecords(p) ==
    << Rec("volume_descriptor", 360, VolumeDescriptorFields) >>
    \o [i \in 1..p.nfp |-> Rec("file_descriptors", 360, FilePointerFields)]
    \o << Rec("text_record", 360, TextRecordFields) >>

LineFields(kind, ndata) == IF kind = "signal" THEN SignalLineFields(ndata) ELSE ProcessedLineFields(ndata)
LinePrefix(kind)        == IF kind = "signal" THEN PrefixSignal ELSE PrefixProcessed

ImageRecords(p) ==
    << Rec("file_descriptor", 720, ImageDescriptorFields) >>
    \o [i \in 1..p.n |-> Rec("line", LinePrefix(p.kind) + p.ndata, LineFields(p.kind, p.ndata))]

TrailerRecords(p) ==
    << Rec("file_descriptor", 720, TrailerDescriptorFields(p.nlow)) >>
    \o [i \in 1..p.nlow |-> Rec("low_res_image", p.lens[i],
                                << F("image", p.lens[i], "pixels", "", 0, "", "pixels") >>)]

Records(file, p) == CASE file = "leader"  -> LeaderRecords(p)
                      [] file = "volume"  -> VolumeRecords(p)
                      [] file = "image"   -> ImageRecords(p)
                      [] file = "trailer" -> TrailerRecords(p)

(* ---------------- writer: placement from the DECLARED lengths ---------------- *)
RECURSIVE SumLen(_, _)
SumLen(recs, k) == IF k = 0 THEN 0 ELSE recs[k].len + SumLen(recs, k - 1)
Start(recs, k)  == SumLen(recs, k - 1)               \* offset of record k (1-based)
Total(recs)     == SumLen(recs, Len(recs))

(* ---------------- reader: bytes consumed, with the parser's own formulas ---------------- *)
\* each entry: <<bytes consumed, set of the padding lengths the parser computes>>
ReadAttitude(L, n)   == << 12 + 4 + 120 * n + (L - (12 + 4 + n * 120)), {L - (12 + 4 + n * 120)} >>
ReadDataQuality(n)   == << 30 + 192 + (32 * n + (512 - n * 32)) + 96 + (32 * n + (534 + (8 - n) * 32)),
                           {512 - n * 32, 534 + (8 - n) * 32} >>
ReadFacility(L)      == << 12 + 4 + 50 + (L - 12 - 4 - 50), {L - 12 - 4 - 50} >>
ReadTrailerHdr(n)    == << 720, {720 - 522 - n * 26} >>     \* f.read(720); the struct itself parses 694 bytes

Consume(file, p, recs, k) ==
    LET r == recs[k] IN
    CASE file = "leader" /\ r.name = "attitude"             -> ReadAttitude(p.attlen, p.np)
      [] file = "leader" /\ r.name = "data_quality_summary" -> ReadDataQuality(p.nch)
      [] file = "leader" /\ r.name \in {"facility_related_data_1", "facility_related_data_2",
                                        "facility_related_data_3", "facility_related_data_4"}
                                                            -> ReadFacility(r.len)
      [] file = "trailer" /\ k = 1                          -> ReadTrailerHdr(p.nlow)
      [] file = "trailer" /\ k > 1                          -> << p.lens[k - 1], {} >>   \* itertools.accumulate
      [] file = "image" /\ k > 1                            -> << r.len, {r.len - LinePrefix(p.kind)} >>
      [] OTHER                                              -> << SizeSeq(r.fields), {} >>  \* fixed structs

(* ---------------- values the framing obliges the file to declare ---------------- *)
\* <<record index (1-based), dotted field path, integer value>>
LeaderDeclared(p) ==
    LET recs == LeaderRecords(p)
        idx(nm) == CHOOSE k \in 1..Len(recs) : recs[k].name = nm
        small == << <<"dataset_summary", 1, 4096>>, <<"map_projection", p.nmap, 1620>>,
                    <<"platform_position", 1, 4680>>, <<"attitude", 1, p.attlen>>,
                    <<"radiometric_data", 1, 9860>>, <<"radiometric_compensation", 0, 0>>,
                    <<"data_quality_summary", 1, 1620>>, <<"data_histogram", 0, 0>>, <<"range_spectra", 0, 0>>,
                    <<"dem_descriptor", 0, 0>>, <<"radar_parameter_update", 0, 0>>, <<"annotation_data", 0, 0>>,
                    <<"detail_processing", 0, 0>>, <<"calibration", 0, 0>>, <<"gcp", 0, 0>>,
                    <<"facility_related_data_1", 1, p.f1>>, <<"facility_related_data_2", 1, p.f2>>,
                    <<"facility_related_data_3", 1, p.f3>>, <<"facility_related_data_4", 1, p.f4>>,
                    <<"facility_related_data_5", 1, 5000>> >>
    IN  [i \in 1..Len(small) |-> <<1, small[i][1] \o ".number_of_records", small[i][2]>>]
        \o [i \in 1..Len(small) |-> <<1, small[i][1] \o ".record_length", small[i][3]>>]
        \o [k \in 1..Len(recs) |-> <<k, "preamble.record_length", recs[k].len>>]
        \o [k \in 1..Len(recs) |-> <<k, "preamble.record_sequence_number", k>>]
        \o << <<idx("attitude"), "number_of_points", p.np>>,
              <<idx("data_quality_summary"), "number_of_channels", p.nch>>,
              <<idx("platform_position"), "number_of_data_points", 28>>,
              <<idx("facility_related_data_1"), "record_sequence_number", 1>>,
              <<idx("facility_related_data_2"), "record_sequence_number", 2>>,
              <<idx("facility_related_data_3"), "record_sequence_number", 3>>,
              <<idx("facility_related_data_4"), "record_sequence_number", 4>>,
              <<idx("facility_related_data_5"), "record_sequence_number", 5>> >>

VolumeDeclared(p) ==
    LET recs == VolumeRecords(p) IN
    << <<1, "number_of_file_pointer_records", p.nfp>>, <<1, "number_of_text_records_in_volume_directory", 1>> >>
    \o [k \in 1..Len(recs) |-> <<k, "preamble.record_length", 360>>]
    \o [k \in 1..Len(recs) |-> <<k, "preamble.record_sequence_number", k>>]
    \o [i \in 1..p.nfp |-> <<i + 1, "referenced_file_number", i>>]

ImageDeclared(p) ==
    LET recs   == ImageRecords(p)
        reclen == LinePrefix(p.kind) + p.ndata
        bps    == p.bps
    IN  << <<1, "preamble.record_length", 720>>, <<1, "preamble.record_sequence_number", 1>>,
           <<1, "number_of_sar_data_records", p.n>>, <<1, "sar_data_record_length", reclen>>,
           <<1, "sar_related_data_in_the_record.number_of_lines_per_dataset", p.n>>,
           <<1, "sar_related_data_in_the_record.number_of_data_groups_per_line", p.ndata \div bps>>,
           <<1, "sample_group_data.number_of_bytes_per_data_group", bps>>,
           <<1, "record_data_in_the_file.number_of_bytes_of_prefix_data_per_record", LinePrefix(p.kind) - 12>>,
           <<1, "record_data_in_the_file.number_of_bytes_of_sar_data_per_record", p.ndata>>,
           <<1, "record_data_in_the_file.number_of_bytes_of_suffix_data_per_record", 0>> >>
        \* record 2 stands for EVERY line record (the exported image instance keeps one line template)
        \o << <<2, "preamble.record_length", reclen>>,
              <<2, "preamble.record_type", IF p.kind = "signal" THEN 10 ELSE 11>>,
              <<2, "actual_count_of_data_pixels", p.ndata \div bps>> >>

TrailerDeclared(p) ==
    << <<1, "preamble.record_length", 720>>, <<1, "number_of_low_resolution_images", p.nlow>> >>
    \o [i \in 1..p.nlow |-> <<1, "low_resolution_image_sizes[" \o ToString(i - 1) \o "].record_length", p.lens[i]>>]

Declared(file, p) == CASE file = "leader"  -> LeaderDeclared(p)
                       [] file = "volume"  -> VolumeDeclared(p)
                       [] file = "image"   -> ImageDeclared(p)
                       [] file = "trailer" -> TrailerDeclared(p)

(* ---------------- declared values that are informational only ---------------- *)
\* The reader's consumption (Consume) and the exposed tree (OutMap) do not depend on these declared values: the
\* positions of the 28 state vectors, of every record and of every field are fixed by the record lengths alone.  A
\* file may therefore carry any valid number there (a processor that counts only the vectors inside the scene, a
\* renumbered record) and must read back identically.  <<record index, path, alternative valid values>>
LeaderInformational(p) ==
    LET recs == LeaderRecords(p)
        idx(nm) == CHOOSE k \in 1..Len(recs) : recs[k].name = nm
    IN  << <<idx("platform_position"), "number_of_data_points", <<27, 11, 1>> >> >>
        \o [j \in 1..(Len(recs) - 1) |-> <<j + 1, "preamble.record_sequence_number", <<j + 2, 1, 999>> >>]
        \o << <<idx("facility_related_data_1"), "record_sequence_number", <<2, 9, 0>> >>,
              <<idx("facility_related_data_4"), "record_sequence_number", <<1, 7, 44>> >> >>
Informational(file, p) ==
    CASE file = "leader" -> LeaderInformational(p)
      [] file = "volume" -> << <<1, "number_of_text_records_in_volume_directory", <<2, 3, 0>> >> >>   \* the text record is found structurally, behind the pointer records
                            \o [j \in 1..(Len(VolumeRecords(p)) - 1) |-> <<j + 1, "preamble.record_sequence_number", <<j + 2, 1, 999>> >>]
      [] OTHER -> << >>

(* the complete placed instance handed to the synthesiser *)
ImageInstance(p) ==
    LET reclen == LinePrefix(p.kind) + p.ndata IN
    [ file     |-> "image",
      total    |-> 720 + p.n * reclen,
      records  |-> << [name |-> "file_descriptor", off |-> 0, len |-> 720, count |-> 1,
                       leaves |-> Flat(ImageDescriptorFields, 0, "")],
                      [name |-> "line", off |-> 720, len |-> reclen, count |-> p.n,
                       leaves |-> Flat(LineFields(p.kind, p.ndata), 0, "")] >>,
      declared |-> ImageDeclared(p), informational |-> << >> ]

Instance(file, p) ==
    IF file = "image" THEN ImageInstance(p) ELSE
    LET recs == Records(file, p) IN
    [ file     |-> file,
      total    |-> Total(recs),
      records  |-> [k \in 1..Len(recs) |->
                      [name |-> recs[k].name, off |-> Start(recs, k), len |-> recs[k].len, count |-> 1,
                       leaves |-> Flat(recs[k].fields, 0, "")]],
      declared |-> Declared(file, p), informational |-> Informational(file, p) ]

=============================================================================
