SPECIFICATION Spec
CONSTANT SelKinds <- MutSel
CONSTANTS
  Images <- TwoImages
  Locs <- OneLoc
  Versions = {0}
  Rpcs = {1, 3}
  Slots = {1}
  MaxOps = 14
  EnvRedeliver = FALSE
  EnvDamage = FALSE
  EnvCaches = FALSE
  EnvCacheDir = FALSE
  UserLoads = TRUE
  UserCopies = FALSE
  UseCli = FALSE
INVARIANT TypeOK
INVARIANT FailStop
INVARIANT MissingIsOSError
INVARIANT TrailerIrrelevant
INVARIANT NoConsultWhenDisabled
INVARIANT RefreshWorks
INVARIANT RepairAfterCreate
INVARIANT JudgedIsCurrent
INVARIANT UnjudgedHasCause
PROPERTY WritesOnlyWhenAsked
PROPERTY TreesKeepIdentity
CHECK_DEADLOCK FALSE
