SPECIFICATION Spec
CONSTANTS
  MaxLen = 5
  MaxArr = 3
INVARIANT InRange
INVARIANT DropOnlyInt
INVARIANT Progression
INVARIANT NegEquiv
INVARIANT Reverse
INVARIANT MaskIsArray
INVARIANT Compose
CHECK_DEADLOCK FALSE
