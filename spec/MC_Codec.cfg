SPECIFICATION Spec
CONSTANTS
  MaxDepth = 2
  RefFirstElement = FALSE
INVARIANT RoundTrip
INVARIANT TuplesStayTuples
CHECK_DEADLOCK FALSE
