------------------------------ MODULE Calendar ------------------------------
(***************************************************************************)
(* One calendar convention for every time value of a product (C17):        *)
(* day-of-year 1 = 1 January; an instant is <<day number since 2000-01-01, *)
(* millisecond of day, microsecond remainder>>.  The four encodings of one *)
(* instant -- image line (year, day-of-year, ms) + microseconds of day;    *)
(* attitude point (day-of-year, ms) relative to the platform-position      *)
(* year; platform position "YYYY MM DD" + seconds of day; scene centre /   *)
(* volume creation compact text YYYYMMDDhhmmss... -- must denote the same  *)
(* instant.  TLC enumerates the boundary instants, checks that the two     *)
(* calendar routes (year + day-of-year, year-month-day) agree, and exports *)
(* every instant with all its encodings for the conformance harness.       *)
(***************************************************************************)
EXTENDS Integers, Sequences, TLC

IsLeap(y)      == (y % 4 = 0 /\ y % 100 # 0) \/ y % 400 = 0
DaysInYear(y)  == IF IsLeap(y) THEN 366 ELSE 365
DaysInMonth(y, m) == CASE m \in {1, 3, 5, 7, 8, 10, 12} -> 31 [] m \in {4, 6, 9, 11} -> 30 [] OTHER -> IF IsLeap(y) THEN 29 ELSE 28
RECURSIVE DaysBeforeYear(_)
DaysBeforeYear(y) == IF y = 2000 THEN 0 ELSE DaysInYear(y - 1) + DaysBeforeYear(y - 1)
RECURSIVE DaysBeforeMonth(_, _)
DaysBeforeMonth(y, m) == IF m = 1 THEN 0 ELSE DaysInMonth(y, m - 1) + DaysBeforeMonth(y, m - 1)

DayNumber(y, doy)     == DaysBeforeYear(y) + (doy - 1)                 \* day-of-year 1 = 1 January
DayNumberYmd(y, m, d) == DaysBeforeYear(y) + DaysBeforeMonth(y, m) + (d - 1)
\* month / day of a day-of-year
MonthOf(y, doy) == CHOOSE m \in 1..12 : DaysBeforeMonth(y, m) < doy /\ doy <= DaysBeforeMonth(y, m) + DaysInMonth(y, m)
DayOf(y, doy)   == doy - DaysBeforeMonth(y, MonthOf(y, doy))

CONSTANTS Years, Doys, Millis, Micros

VARIABLES inst, pc
vars == <<inst, pc>>
Instants == UNION { { [y |-> y, doy |-> d, ms |-> ms, us |-> us] : d \in { x \in Doys : x <= DaysInYear(y) }, ms \in Millis, us \in Micros } : y \in Years }
Init == inst \in Instants /\ pc = "encode"
Encoded(i) == [ y |-> i.y, doy |-> i.doy, ms |-> i.ms, us |-> i.us,
                month |-> MonthOf(i.y, i.doy), day |-> DayOf(i.y, i.doy),
                daynumber |-> DayNumber(i.y, i.doy),
                hh |-> i.ms \div 3600000, mm |-> (i.ms \div 60000) % 60, ss |-> (i.ms \div 1000) % 60, mmm |-> i.ms % 1000 ]
Step == pc = "encode" /\ pc' = "done" /\ UNCHANGED inst
Next == Step \/ (pc = "done" /\ UNCHANGED vars)
Spec == Init /\ [][Next]_vars

\* the two calendar routes agree: (year, day-of-year) and (year, month, day) name the same day
AllDecodersAgree == LET e == Encoded(inst) IN DayNumberYmd(e.y, e.month, e.day) = e.daynumber
DayInMonth       == LET e == Encoded(inst) IN e.day \in 1..DaysInMonth(e.y, e.month)
LeapDay          == (inst.doy = 60 /\ IsLeap(inst.y)) => (Encoded(inst).month = 2 /\ Encoded(inst).day = 29)
LastDay          == inst.doy = DaysInYear(inst.y) => (Encoded(inst).month = 12 /\ Encoded(inst).day = 31)
=============================================================================
