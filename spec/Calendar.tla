------------------------------ MODULE Calendar ------------------------------
(***************************************************************************)
(* One calendar convention for every time value of a product (C17):        *)
(* day-of-year 1 = 1 January; an instant is <<day number since 2000-01-01, *)
(* millisecond of day, microsecond remainder>>.  The four encodings of one *)
(* instant -- image line (year, day-of-year, ms) + microseconds of day;    *)
(* attitude point (day-of-year, ms) relative to the platform-position      *)
(* year; platform position "YYYY MM DD" + seconds of day; scene centre /   *)
(* volume creation compact text YYYYMMDDhhmmss... -- must denote the same  *)
(* instant.  TLC enumerates the boundary instants, checks that the two     *)
(* calendar routes (year + day-of-year, year-month-day) agree, and exports *)
(* every instant with all its encodings for the conformance harness.       *)
(***************************************************************************)
EXTENDS Integers, Sequences, TLC

IsLeap(y)      == (y % 4 = 0 /\ y % 100 # 0) \/ y % 400 = 0
DaysInYear(y)  == IF IsLeap(y) THEN 366 ELSE 365
DaysInMonth(y, m) == CASE m \in {1, 3, 5, 7, 8, 10, 12} -> 31 [] m \in {4, 6, 9, 11} -> 30 [] OTHER -> IF IsLeap(y) THEN 29 ELSE 28
RECURSIVE DaysBeforeYear(_)
DaysBeforeYear(y) == IF y = 2000 THEN 0 ELSE DaysInYear(y - 1) + DaysBeforeYear(y - 1)
RECURSIVE DaysBeforeMonth(_, _)
DaysBeforeMonth(y, m) == IF m = 1 THEN 0 ELSE DaysInMonth(y, m - 1) + DaysBeforeMonth(y, m - 1)

DayNumber(y, doy)     == DaysBeforeYear(y) + (doy - 1)                 \* day-of-year 1 = 1 January
DayNumberYmd(y, m, d) == DaysBeforeYear(y) + DaysBeforeMonth(y, m) + (d - 1)
\* month / day of a day-of-year
MonthOf(y, doy) == CHOOSE m \in 1..12 : DaysBeforeMonth(y, m) < doy /\ doy <= DaysBeforeMonth(y, m) + DaysInMonth(y, m)
DayOf(y, doy)   == doy - DaysBeforeMonth(y, MonthOf(y, doy))

(* ---------------- text encodings (characters as one-character strings) ---------------- *)
Digit == <<"0", "1", "2", "3", "4", "5", "6", "7", "8", "9">>
RECURSIVE DigitsOf(_)
DigitsOf(n) == IF n < 10 THEN <<Digit[n + 1]>> ELSE DigitsOf(n \div 10) \o <<Digit[(n % 10) + 1]>>
Rep(ch, k)  == [i \in 1..k |-> ch]
RJust(t, w, ch) == Rep(ch, w - Len(t)) \o t
LJust(t, w)     == t \o Rep(" ", w - Len(t))
RECURSIVE Join(_)
Join(t) == IF t = <<>> THEN "" ELSE t[1] \o Join(Tail(t))
\* an I4 integer field as a FORTRAN writer produces it (right-justified): blank padded, or blank + two zero-padded digits.
\* (A left-justified year would fill its field and touch the month: not an encoding the format admits for this composite.)
DateStyles == {"blank", "zero2"}
I4(n, style) == CASE style = "blank" -> RJust(DigitsOf(n), 4, " ")
                  [] style = "zero2" -> IF n < 100 THEN RJust(RJust(DigitsOf(n), 2, "0"), 4, " ") ELSE RJust(DigitsOf(n), 4, " ")
                  [] style = "left"  -> LJust(DigitsOf(n), 4)
DateText(style, y, m, d) == I4(y, style) \o I4(m, style) \o I4(d, style)      \* platform position: "YYYY  MM  DD" as 3 x I4
\* value of the digits of a field, blanks ignored (what "an I4 integer" means)
DigitVal(c) == CHOOSE v \in 0..9 : Digit[v + 1] = c
RECURSIVE NumOf(_, _)
NumOf(t, acc) == IF t = <<>> THEN acc ELSE IF t[1] = " " THEN NumOf(Tail(t), acc) ELSE NumOf(Tail(t), 10 * acc + DigitVal(t[1]))
ParseDate(t) == <<NumOf(SubSeq(t, 1, 4), 0), NumOf(SubSeq(t, 5, 8), 0), NumOf(SubSeq(t, 9, 12), 0)>>
\* a decoder that first drops the blanks and then cuts "YYYYMMDD" greedily (month = two digits when they form 10..12): the
\* defective alternative, kept so that TLC can show the family contains dates that tell the two apart
NoBlanks(t) == SelectSeq(t, LAMBDA c : c # " ")
GreedyParse(t) ==
    LET u == NoBlanks(t)
        y == NumOf(SubSeq(u, 1, 4), 0)
        r == SubSeq(u, 5, Len(u))
        two == Len(r) >= 3 /\ NumOf(SubSeq(r, 1, 2), 0) \in 10..12
        one == Len(r) >= 2 /\ ~two
    IN  IF Len(r) = 4 THEN <<y, NumOf(SubSeq(r, 1, 2), 0), NumOf(SubSeq(r, 3, 4), 0)>>
        ELSE IF two THEN <<y, NumOf(SubSeq(r, 1, 2), 0), NumOf(SubSeq(r, 3, Len(r)), 0)>>
        ELSE <<y, NumOf(SubSeq(r, 1, 1), 0), NumOf(SubSeq(r, 2, Len(r)), 0)>>
\* compact text YYYYMMDDhhmmss + k decimals of the second (k = 2 volume directory, 3 leader scene centre)
Two(n) == RJust(DigitsOf(n), 2, "0")
CompactText(y, m, d, hh, mm, ss, frac, k) == RJust(DigitsOf(y), 4, "0") \o Two(m) \o Two(d) \o Two(hh) \o Two(mm) \o Two(ss) \o RJust(DigitsOf(frac), k, "0")
RECURSIVE Pow10(_)
Pow10(k) == IF k = 0 THEN 1 ELSE 10 * Pow10(k - 1)
\* decoding by position, the fraction as an exact decimal: microseconds = digits * 10^(6-k)
ParseCompact(t, k) == [ y |-> NumOf(SubSeq(t, 1, 4), 0), m |-> NumOf(SubSeq(t, 5, 6), 0), d |-> NumOf(SubSeq(t, 7, 8), 0),
                        hh |-> NumOf(SubSeq(t, 9, 10), 0), mm |-> NumOf(SubSeq(t, 11, 12), 0), ss |-> NumOf(SubSeq(t, 13, 14), 0),
                        us |-> NumOf(SubSeq(t, 15, 14 + k), 0) * Pow10(6 - k) ]

CONSTANTS Years, Doys, Millis, Micros

VARIABLES inst, pc
vars == <<inst, pc>>
Instants == UNION { { [y |-> y, doy |-> d, ms |-> ms, us |-> us] : d \in { x \in Doys : x <= DaysInYear(y) }, ms \in Millis, us \in Micros } : y \in Years }
\* the instant dms milliseconds later (dms < one day): the millisecond of day wraps and the day number advances; a day past the
\* last day of the year is day 1 of the next year
Later(i, dms) == LET tot == i.ms + dms
                     dn  == DayNumber(i.y, i.doy) + tot \div 86400000
                     y2  == IF dn < DaysBeforeYear(i.y) + DaysInYear(i.y) THEN i.y ELSE i.y + 1
                 IN  [y |-> y2, doy |-> dn - DaysBeforeYear(y2) + 1, ms |-> tot % 86400000, us |-> i.us]
Init == inst \in Instants /\ pc = "encode"
Encoded(i) == [ y |-> i.y, doy |-> i.doy, ms |-> i.ms, us |-> i.us,
                month |-> MonthOf(i.y, i.doy), day |-> DayOf(i.y, i.doy),
                daynumber |-> DayNumber(i.y, i.doy),
                hh |-> i.ms \div 3600000, mm |-> (i.ms \div 60000) % 60, ss |-> (i.ms \div 1000) % 60, mmm |-> i.ms % 1000,
                later2s |-> Later(i, 2000),      \* a second line of the same request, 2 s later (may be the next day / year)
                later14m |-> Later(i, 840000),   \* the scene centre of a product whose orbit data start 14 min earlier (may be the next year)
                date_text |-> [st \in DateStyles |-> Join(DateText(st, i.y, MonthOf(i.y, i.doy), DayOf(i.y, i.doy)))] ]
Step == pc = "encode" /\ pc' = "done" /\ UNCHANGED inst
Next == Step \/ (pc = "done" /\ UNCHANGED vars)
Spec == Init /\ [][Next]_vars

\* the two calendar routes agree: (year, day-of-year) and (year, month, day) name the same day
AllDecodersAgree == LET e == Encoded(inst) IN DayNumberYmd(e.y, e.month, e.day) = e.daynumber
DayInMonth       == LET e == Encoded(inst) IN e.day \in 1..DaysInMonth(e.y, e.month)
LeapDay          == (inst.doy = 60 /\ IsLeap(inst.y)) => (Encoded(inst).month = 2 /\ Encoded(inst).day = 29)
LastDay          == inst.doy = DaysInYear(inst.y) => (Encoded(inst).month = 12 /\ Encoded(inst).day = 31)
\* the text encodings decode back to the same day, in every style; the compact texts keep their decimals exactly
DateTextRoundTrip == LET e == Encoded(inst) IN \A st \in DateStyles : ParseDate(DateText(st, e.y, e.month, e.day)) = <<e.y, e.month, e.day>>
CompactRoundTrip  == LET e == Encoded(inst)
                         t2 == CompactText(e.y, e.month, e.day, e.hh, e.mm, e.ss, e.mmm \div 10, 2)
                         t3 == CompactText(e.y, e.month, e.day, e.hh, e.mm, e.ss, e.mmm, 3)
                     IN /\ Len(t2) = 16 /\ Len(t3) = 17
                        /\ ParseCompact(t2, 2).us = (e.mmm \div 10) * 10000 /\ ParseCompact(t3, 3).us = e.mmm * 1000
                        /\ ParseCompact(t3, 3).d = e.day /\ ParseCompact(t3, 3).m = e.month /\ ParseCompact(t2, 2).ss = e.ss
\* two lines of one request that straddle midnight: the later one is on the next day (day 1 of the next year after the last day),
\* its millisecond of day starts again; otherwise both are on the same day
Rollover == LET n == Later(inst, 2000)
            IN  /\ n.doy \in 1..DaysInYear(n.y) /\ n.ms \in 0..86399999
                /\ (DayNumber(n.y, n.doy) - DayNumber(inst.y, inst.doy)) * 86400000 + n.ms - inst.ms = 2000   \* (TLC integers are 32-bit)
                /\ (inst.ms >= 86398000) <=> (DayNumber(n.y, n.doy) = DayNumber(inst.y, inst.doy) + 1)
                /\ (inst.ms >= 86398000 /\ inst.doy = DaysInYear(inst.y)) => (n.y = inst.y + 1 /\ n.doy = 1)
\* NOT an invariant of the family (MC_Calendar_bug expects a violation): the blank-dropping greedy decoder agrees
GreedyAgrees == LET e == Encoded(inst) IN \A st \in DateStyles : GreedyParse(DateText(st, e.y, e.month, e.day)) = <<e.y, e.month, e.day>>
=============================================================================
