---------------------------- MODULE CacheAtomic ----------------------------
(***************************************************************************)
(* Cache.tla (one action per step of read_cache / create_cache) extended   *)
(* with a history variable: the cells as they were when each call began.   *)
(* For ONE process without crashes the multi-step open is equivalent to an *)
(* atomic one: when it finishes, the source of every image is what         *)
(* CacheRule!RuleSrc says for the cells at its beginning, and exactly the  *)
(* cells CacheRule!RuleWrites names have been rewritten (complete).  That  *)
(* is the abstraction Alos2.tla uses (Alos2!Src is defined through the     *)
(* same operator).  With two processes the equivalence does NOT hold (a    *)
(* reader sees a writer's intermediate states): MC_CacheAtomic_two expects *)
(* the counterexample, and the properties then rest on ResultIdeal only.   *)
(***************************************************************************)
EXTENDS Cache
R == INSTANCE CacheRule

VARIABLE begun        \* [Procs -> [local, adjacent]]: the cells when the process's current call began
varsH == <<vars, begun>>

St(c) == IF ~c.exists THEN "absent" ELSE IF Usable(c) THEN "full" ELSE "torn"
InitH == Init /\ begun = [p \in Procs |-> [local |-> local, adjacent |-> adjacent]]
NextH == /\ Next
         /\ begun' = [p \in Procs |-> IF proc[p].pc = "idle" /\ proc'[p].pc # "idle"
                                      THEN [local |-> local, adjacent |-> adjacent] ELSE begun[p]]
SpecH == InitH /\ [][NextH]_varsH

\* at the end of an open: sources as the rule says for the cells at its beginning
AtomicSources ==
    \A p \in Procs : (proc[p].pc = "finish" /\ proc[p].kind = "open" /\ ~proc[p].failed) =>
        \A m \in Images : proc[p].src[m] = R!RuleSrc(St(begun[p].local[m]), St(begun[p].adjacent[m]), proc[p].uc)
\* ... and the cells: rewritten completely where the rule says so, untouched elsewhere
AtomicWrites ==
    \A p \in Procs : (proc[p].pc = "finish" /\ proc[p].kind = "open" /\ ~proc[p].failed) =>
        \A m \in Images :
            /\ adjacent[m] = begun[p].adjacent[m]
            /\ IF R!RuleWrites(St(begun[p].local[m]), St(begun[p].adjacent[m]), proc[p].uc, proc[p].cc)
               THEN Usable(local[m]) ELSE local[m] = begun[p].local[m]
\* the tool: writes the adjacent cell of its image completely, nothing else
AtomicCli ==
    \A p \in Procs : (proc[p].pc = "finish" /\ proc[p].kind = "cli") =>
        \A m \in Images : /\ local[m] = begun[p].local[m]
                          /\ IF m = Cur(p) THEN Usable(adjacent[m]) ELSE adjacent[m] = begun[p].adjacent[m]
=============================================================================
