------------------------------- MODULE Alos2 -------------------------------
(***************************************************************************)
(* The reader as ONE system: a user session (one process) that opens,      *)
(* re-opens, loads from, copies and drops trees of products lying at one   *)
(* or two locations, interleaved with everything the environment may do to *)
(* the product files, to the index caches and to the user cache directory. *)
(* It composes the per-topic modules at the grain of the public API:       *)
(*                                                                         *)
(*   Open   = OpenCall.tla (summary -> VOL -> LED -> images, fail-stop)    *)
(*            with per image the read_cache / parse / create_cache choice  *)
(*            of Cache.tla and the metadata pass of ImageIO.tla            *)
(*   Load   = ImageIO.tla load + PyIndex.tla selection + Loads.tla lock    *)
(*   Cli    = ceos-alos2-create-cache <image> [<cache root>]               *)
(*                                                                         *)
(* What this module adds is HISTORY: the same process, the same module     *)
(* level state, many calls.  Every call's observable result is a function  *)
(* of the CURRENT files, caches and options only (`last` is computed from  *)
(* them alone); an implementation that remembers anything else between     *)
(* calls (memoised records, decoded indexes, handles, decoded lines, option*)
(* defaults) cannot follow the behaviours of this specification.  The      *)
(* behaviours are replayed step by step into the real library              *)
(* (harness/session.py) and `last` is compared with what really happened.  *)
(*                                                                         *)
(* Content is abstract: a location holds a product VERSION named after the  *)
(* place it was delivered to and a counter ("P0", "P1", "Q0", ...: the same *)
(* file names, different bytes everywhere); CopyTo carries a version -- and  *)
(* the index files lying next to its images -- to another location.  A tree, an index cell    *)
(* and a loaded array are identified by the version they were derived      *)
(* from.                                                                   *)
(***************************************************************************)
EXTENDS Integers, Sequences, FiniteSets, TLC

CONSTANTS Images,        \* image ids in summary order, e.g. <<"a", "b">> (a sequence)
          Locs,          \* product locations, e.g. {"P"} or {"P", "Q"} (same file names at both)
          Versions,      \* e.g. {0, 1}
          Rpcs,          \* abstract records_per_chunk values
          Slots,         \* names of the tree variables the user holds, e.g. {1, 2}
          MaxOps,
          EnvRedeliver,  \* BOOLEAN switches: which environment / user actions are enabled
          EnvDamage,
          EnvCaches,
          EnvCacheDir,
          UserLoads,
          UserCopies,
          UseCli

VARIABLES store,      \* [Locs -> [ver, dmg : [Files -> {"ok", "missing", "cut"}]]]
          local,      \* [Locs -> [ImageSet -> cell]]   user cache dir (keyed by the location)
          adjacent,   \* [Locs -> [ImageSet -> cell]]   <image>.index next to the image
          cacheOK,    \* the user cache directory is usable
          tree,       \* [Slots -> held tree or Nil]
          ops,
          last        \* what the last step must have produced (observable result), for the replay

vars == <<store, local, adjacent, cacheOK, tree, ops, last>>

K        == Len(Images)
ImageSet == {Images[i] : i \in 1..K}
Files    == {"summary", "vol", "led", "trl"} \cup ImageSet
NoVer    == "none"
VerName(l, v) == l \o ToString(v)                    \* the v-th delivery made to location l
\* an index cell; `asked` = it exists because the user asked for it (create_cache, the CLI, or the environment planted it).  Cells the
\* library creates on its own can only enter through the trace specification's resynchronisation (Trace_Alos2!Resync): whatever is later
\* served from such a cell is the library's responsibility, so it never excuses a stale tree.
Absent   == [st |-> "absent", ver |-> NoVer, asked |-> TRUE]
Torn     == [st |-> "torn", ver |-> NoVer, asked |-> TRUE]
FullOf(v) == [st |-> "full", ver |-> v, asked |-> TRUE]
Unasked(v) == [st |-> "full", ver |-> v, asked |-> FALSE]
Blocked  == [st |-> "blocked", ver |-> NoVer, asked |-> TRUE]     \* something that is not a file sits at the index path (a directory): unreadable AND unwritable
NoTree   == [live |-> FALSE, loc |-> "-", ver |-> NoVer, rpc |-> 0, src |-> [m \in ImageSet |-> "none"],
             cver |-> [m \in ImageSet |-> NoVer], copyOf |-> 0, loaded |-> {}, mutated |-> {}]
Quiet    == [op |-> "init"]

Init == /\ store = [l \in Locs |-> [ver |-> VerName(l, 0), dmg |-> [f \in Files |-> "ok"]]]
        /\ local = [l \in Locs |-> [m \in ImageSet |-> Absent]]
        /\ adjacent = [l \in Locs |-> [m \in ImageSet |-> Absent]]
        /\ cacheOK = TRUE
        /\ tree = [t \in Slots |-> NoTree]
        /\ ops = 0
        /\ last = Quiet

\* ------------------------------------------------------------------ read_cache, as the code does it
\* local.is_file() -> decode(local) ; elif remote in mapper -> decode(remote) ; undecodable -> miss ; else miss.
\* An unusable user cache dir makes local.is_file() false.
LocalSeen(l, m) == IF cacheOK /\ local[l][m].st # "blocked" THEN local[l][m] ELSE Absent
\* The rule itself lives in CacheRule.tla; CacheAtomic.tla checks that the step-grain open of Cache.tla, run by one process, ends with
\* exactly these sources and writes -- which is what allows Open to be ONE action here.
CR == INSTANCE CacheRule
Src(l, m, uc) == CR!RuleSrc(LocalSeen(l, m).st, adjacent[l][m].st, uc)     \* (after a torn local cell the adjacent one is NOT consulted)
ServedVer(l, m, uc) ==
    CASE Src(l, m, uc) = "local" -> local[l][m].ver
      [] Src(l, m, uc) = "adjacent" -> adjacent[l][m].ver
      [] OTHER -> store[l].ver
ServedAsked(l, m, uc) ==
    CASE Src(l, m, uc) = "local" -> local[l][m].asked
      [] Src(l, m, uc) = "adjacent" -> adjacent[l][m].asked
      [] OTHER -> TRUE

\* ------------------------------------------------------------------ open_alos2: the walk over the files
\* -> first file that makes the call fail, or "none".  The trailer is never touched.
HeadFail(l) == IF store[l].dmg["summary"] # "ok" THEN "summary"
               ELSE IF store[l].dmg["vol"] # "ok" THEN "vol"
               ELSE IF store[l].dmg["led"] # "ok" THEN "led" ELSE "none"
\* images 1..K in order; image i fails if it must be parsed and its file is damaged, or if its index must be
\* written and the cache dir is unusable.  Images before the failing one have been completed (index written).
ImgFails(l, i, uc, cc) ==
    LET m == Images[i] IN
    Src(l, m, uc) = "parse" /\ (store[l].dmg[m] # "ok" \/ (cc /\ (~cacheOK \/ local[l][m].st = "blocked")))
FirstImgFail(l, uc, cc) ==
    IF \E i \in 1..K : ImgFails(l, i, uc, cc)
    THEN CHOOSE i \in 1..K : ImgFails(l, i, uc, cc) /\ \A j \in 1..(i - 1) : ~ImgFails(l, j, uc, cc)
    ELSE K + 1
OpenFails(l, uc, cc) == HeadFail(l) # "none" \/ FirstImgFail(l, uc, cc) <= K
\* the class of the error the user sees
FailKind(l, uc, cc) ==
    IF HeadFail(l) # "none" THEN (IF store[l].dmg[HeadFail(l)] = "missing" THEN "oserror" ELSE "error")
    ELSE LET m == Images[FirstImgFail(l, uc, cc)] IN
         IF store[l].dmg[m] = "missing" THEN "oserror"
         ELSE IF store[l].dmg[m] = "cut" THEN "error" ELSE "oserror"   \* cache dir unusable: mkdir / write fails
\* images whose index is (re)written by this call: parsed, create_cache, before the failing image
Written(l, uc, cc) ==
    IF ~cc \/ HeadFail(l) # "none" THEN {}
    ELSE {Images[i] : i \in {j \in 1..K : j < FirstImgFail(l, uc, cc) /\ Src(l, Images[j], uc) = "parse"}}
\* a tree served (partly) from an index of ANOTHER version of the product, or masking a damaged image file, is
\* outside what the properties promise: recorded, not judged
Judged(l, uc) == \A m \in ImageSet : /\ (ServedVer(l, m, uc) = store[l].ver \/ ~ServedAsked(l, m, uc))
                                      /\ (Src(l, m, uc) # "parse" => store[l].dmg[m] = "ok")

Open(l, uc, cc, r, t) ==
    /\ ops < MaxOps
    /\ LET fails == OpenFails(l, uc, cc)
           w == Written(l, uc, cc)
       IN /\ local' = [local EXCEPT ![l] = [m \in ImageSet |-> IF m \in w THEN FullOf(store[l].ver) ELSE @[m]]]
          /\ tree' = [tree EXCEPT ![t] = IF fails THEN @    \* the assignment never happens: the variable keeps its old tree
                        ELSE [live |-> TRUE, loc |-> l, ver |-> store[l].ver, rpc |-> r,
                              src |-> [m \in ImageSet |-> Src(l, m, uc)], cver |-> [m \in ImageSet |-> ServedVer(l, m, uc)],
                              copyOf |-> 0, loaded |-> {}, mutated |-> {}]]
          /\ last' = [op |-> "open", loc |-> l, uc |-> uc, cc |-> cc, rpc |-> r, slot |-> t,
                      outcome |-> IF fails THEN FailKind(l, uc, cc) ELSE "tree",
                      \* why it fails: a damaged file (the properties demand the error) or only the unusable cache directory (an
                      \* implementation that tolerates that and returns the tree violates nothing: the replay treats it as drift)
                      cause |-> IF ~fails THEN "none"
                                ELSE IF HeadFail(l) # "none" \/ store[l].dmg[Images[FirstImgFail(l, uc, cc)]] # "ok" THEN "file" ELSE "cachedir",
                      ver |-> store[l].ver, src |-> [m \in ImageSet |-> Src(l, m, uc)],
                      cver |-> [m \in ImageSet |-> ServedVer(l, m, uc)], judged |-> Judged(l, uc),
                      written |-> w]
    /\ ops' = ops + 1
    /\ UNCHANGED <<store, adjacent, cacheOK>>

\* ------------------------------------------------------------------ using a held tree
\* a load is judged when the bytes it reads are the bytes the tree was built from
Stable(t, m) == /\ tree[t].live
                /\ store[tree[t].loc].ver = tree[t].ver /\ tree[t].cver[m] = tree[t].ver
                /\ store[tree[t].loc].dmg[m] = "ok"
SelKinds == {"all", "rows", "window", "int", "empty", "fancy"}
Load(t, m, k) ==
    /\ UserLoads /\ ops < MaxOps /\ tree[t].live
    /\ tree' = [tree EXCEPT ![t].loaded = @ \cup {m}]
    /\ last' = [op |-> "load", slot |-> t, img |-> m, sel |-> k, judged |-> Stable(t, m),
                outcome |-> "equal", ver |-> tree[t].ver]
    /\ ops' = ops + 1
    /\ UNCHANGED <<store, local, adjacent, cacheOK>>
\* the user modifies, in place, the arrays obtained from earlier loads of (t, m): they are the user's own
Mutate(t, m) ==
    /\ UserLoads /\ ops < MaxOps /\ tree[t].live /\ m \in tree[t].loaded
    /\ tree' = [tree EXCEPT ![t].mutated = @ \cup {m}]
    /\ last' = [op |-> "mutate", slot |-> t, img |-> m]
    /\ ops' = ops + 1
    /\ UNCHANGED <<store, local, adjacent, cacheOK>>
\* pickle.loads(pickle.dumps(tree)) into another variable
Copy(t, t2) ==
    /\ UserCopies /\ ops < MaxOps /\ tree[t].live /\ t2 # t
    /\ tree' = [tree EXCEPT ![t2] = [tree[t] EXCEPT !.copyOf = t, !.loaded = {}, !.mutated = {}]]
    /\ last' = [op |-> "copy", slot |-> t, into |-> t2]
    /\ ops' = ops + 1
    /\ UNCHANGED <<store, local, adjacent, cacheOK>>
\* tree.close() (or the end of a `with open_alos2(...)` block): the variable still holds the tree, and closing releases nothing a later
\* load needs (every load opens its file itself) -- the state does not change at all
Close(t) ==
    /\ UserLoads /\ ops < MaxOps /\ tree[t].live
    /\ last' = [op |-> "close", slot |-> t]
    /\ ops' = ops + 1
    /\ UNCHANGED <<store, local, adjacent, cacheOK, tree>>
Drop(t) ==
    /\ ops < MaxOps /\ tree[t].live
    /\ tree' = [tree EXCEPT ![t] = NoTree]
    /\ last' = [op |-> "drop", slot |-> t]
    /\ ops' = ops + 1
    /\ UNCHANGED <<store, local, adjacent, cacheOK>>

\* ------------------------------------------------------------------ ceos-alos2-create-cache <image> [<cache root>]
\* always parses the image itself; writes next to the image, or into the given directory (the user's cache entry)
Cli(l, m, r, target) ==
    /\ UseCli /\ ops < MaxOps
    /\ LET ok == store[l].dmg[m] = "ok" /\ (target = "cachedir" => cacheOK /\ local[l][m].st # "blocked")
           \* (`cache root` must be an existing directory: the user passes the hashed entry of the product)
       IN /\ IF ok /\ target = "adjacent"
             THEN adjacent' = [adjacent EXCEPT ![l][m] = FullOf(store[l].ver)] /\ UNCHANGED local
             ELSE IF ok THEN local' = [local EXCEPT ![l][m] = FullOf(store[l].ver)] /\ UNCHANGED adjacent
             ELSE UNCHANGED <<local, adjacent>>
          /\ last' = [op |-> "cli", loc |-> l, img |-> m, rpc |-> r, target |-> target,
                      outcome |-> IF ok THEN "ok" ELSE "fail"]
    /\ ops' = ops + 1
    /\ UNCHANGED <<store, cacheOK, tree>>

\* ------------------------------------------------------------------ environment
\* a new delivery of the scene under the same file names (re-processing, re-download): every byte changes
Redeliver(l, v) ==
    /\ EnvRedeliver /\ ops < MaxOps /\ VerName(l, v) # store[l].ver
    /\ store' = [store EXCEPT ![l] = [ver |-> VerName(l, v), dmg |-> [f \in Files |-> "ok"]]]
    /\ last' = [op |-> "redeliver", loc |-> l, ver |-> VerName(l, v)]
    /\ ops' = ops + 1
    /\ UNCHANGED <<local, adjacent, cacheOK, tree>>
\* the product directory at src -- images, and the <image>.index files lying next to them -- is copied over the one at dst (archiving,
\* an upload, a move).  The user cache is keyed by the location: whatever it holds for dst stays.
CopyTo(src, dst) ==
    /\ EnvRedeliver /\ ops < MaxOps /\ src # dst
    /\ store' = [store EXCEPT ![dst] = store[src]]
    /\ adjacent' = [adjacent EXCEPT ![dst] = adjacent[src]]
    /\ last' = [op |-> "copyto", loc |-> src, dst |-> dst, ver |-> store[src].ver]
    /\ ops' = ops + 1
    /\ UNCHANGED <<local, cacheOK, tree>>
Damage(l, f, how) ==
    /\ EnvDamage /\ ops < MaxOps /\ store[l].dmg[f] = "ok"
    /\ ~(f = "summary" /\ how = "cut")      \* a shortened summary text may still be a well-formed one: outside C18
    /\ store' = [store EXCEPT ![l].dmg[f] = how]
    /\ last' = [op |-> "damage", loc |-> l, file |-> f, how |-> how]
    /\ ops' = ops + 1
    /\ UNCHANGED <<local, adjacent, cacheOK, tree>>
Restore(l) ==
    /\ EnvDamage /\ ops < MaxOps /\ \E f \in Files : store[l].dmg[f] # "ok"
    /\ store' = [store EXCEPT ![l].dmg = [f \in Files |-> "ok"]]
    /\ last' = [op |-> "restore", loc |-> l]
    /\ ops' = ops + 1
    /\ UNCHANGED <<local, adjacent, cacheOK, tree>>
CellSet(l, m, which, c) ==
    /\ EnvCaches /\ ops < MaxOps /\ c.st \in {"absent", "torn", "blocked"} /\ (c.st = "blocked" => which = "local")
    /\ (which = "local" => cacheOK)
    /\ IF which = "local" THEN local' = [local EXCEPT ![l][m] = c] /\ UNCHANGED adjacent
       ELSE adjacent' = [adjacent EXCEPT ![l][m] = c] /\ UNCHANGED local
    /\ last' = [op |-> IF c.st = "absent" THEN "delete" ELSE IF c.st = "torn" THEN "tear" ELSE "block", loc |-> l, img |-> m, cell |-> which]
    /\ ops' = ops + 1
    /\ UNCHANGED <<store, cacheOK, tree>>
\* the user clears the cache of one product (its hashed directory) or the whole cache directory (rm -rf ~/.cache/xarray-ceos-alos2,
\* or all of $XDG_CACHE_HOME), in the middle of a session
Purge(scope) ==
    /\ EnvCaches /\ ops < MaxOps /\ cacheOK
    /\ local' = [l \in Locs |-> IF scope = "all" \/ scope = l THEN [m \in ImageSet |-> Absent] ELSE local[l]]
    /\ last' = [op |-> "purge", scope |-> scope]
    /\ ops' = ops + 1
    /\ UNCHANGED <<store, adjacent, cacheOK, tree>>
CacheDir(ok) ==
    /\ EnvCacheDir /\ ops < MaxOps /\ cacheOK # ok
    /\ cacheOK' = ok
    /\ last' = [op |-> "cachedir", usable |-> ok]
    /\ ops' = ops + 1
    /\ UNCHANGED <<store, local, adjacent, tree>>

Next == \/ \E l \in Locs, uc, cc \in BOOLEAN, r \in Rpcs, t \in Slots : Open(l, uc, cc, r, t)
        \/ \E t \in Slots, m \in ImageSet : (\E k \in SelKinds : Load(t, m, k)) \/ Mutate(t, m)
        \/ \E t, t2 \in Slots : Copy(t, t2)
        \/ \E t \in Slots : Drop(t)
        \/ \E t \in Slots : Close(t)
        \/ \E l \in Locs, m \in ImageSet, r \in Rpcs, tg \in {"adjacent", "cachedir"} : Cli(l, m, r, tg)
        \/ \E src, dst \in Locs : CopyTo(src, dst)
        \/ \E l \in Locs : (\E v \in Versions : Redeliver(l, v)) \/ Restore(l) \/ \E f \in Files, h \in {"missing", "cut"} : Damage(l, f, h)
        \/ \E l \in Locs, m \in ImageSet, w \in {"local", "adjacent"}, c \in {Absent, Torn, Blocked} : CellSet(l, m, w, c)
        \/ \E ok \in BOOLEAN : CacheDir(ok)
        \/ \E sc \in Locs \cup {"all"} : Purge(sc)

Spec == Init /\ [][Next]_vars

\* ------------------------------------------------------------------ what the design guarantees (checked by TLC)
TypeOK == /\ \A l \in Locs : store[l].ver \in { VerName(x, v) : x \in Locs, v \in Versions }
          /\ \A l \in Locs, m \in ImageSet : local[l][m].st \in {"absent", "torn", "full", "blocked"} /\ adjacent[l][m].st \in {"absent", "torn", "full"}
          /\ ops \in 0..MaxOps
\* C18: a tree is only returned when summary, VOL and LED are intact and every image that was parsed is intact
FailStop == last.op = "open" /\ last.outcome = "tree" =>
               /\ \A f \in {"summary", "vol", "led"} : store[last.loc].dmg[f] = "ok"
               /\ \A m \in ImageSet : last.src[m] = "parse" => store[last.loc].dmg[m] = "ok"
\* C18: a missing file is reported as an OSError-like error
MissingIsOSError == last.op = "open" /\ last.outcome = "error" => \E f \in Files \ {"trl"} : store[last.loc].dmg[f] = "cut"
\* C18 / C13: the trailer never matters
TrailerIrrelevant == last.op = "open" /\ (\A f \in Files \ {"trl"} : store[last.loc].dmg[f] = "ok")
                        /\ (last.cc => cacheOK /\ \A m \in ImageSet : local[last.loc][m].st # "blocked")
                        => last.outcome = "tree"
\* C07: use_cache = FALSE never consults a cache, and always yields the current version
NoConsultWhenDisabled == last.op = "open" /\ ~last.uc /\ last.outcome = "tree" =>
                            \A m \in ImageSet : last.src[m] = "parse" /\ last.cver[m] = last.ver
\* C07 (refresh): after a successful open(use_cache = FALSE, create_cache = TRUE) every user-cache index is of the
\* current version, so the next cached open is judged and current
RefreshWorks == last.op = "open" /\ ~last.uc /\ last.cc /\ last.outcome = "tree" =>
                   \A m \in ImageSet : local[last.loc][m] = FullOf(store[last.loc].ver)
\* C09: a successful open with create_cache leaves no torn cell behind for the images it parsed
RepairAfterCreate == last.op = "open" /\ last.cc /\ last.outcome = "tree" =>
                        \A m \in ImageSet : last.src[m] = "parse" => local[last.loc][m].st = "full"
\* C10: opens write user-cache cells only when asked, and only as complete documents of the current version
WritesOnlyWhenAsked == [][\A l \in Locs, m \in ImageSet :
       /\ (adjacent'[l][m] # adjacent[l][m] => last'.op \in {"cli", "delete", "tear", "copyto"})
       /\ (local'[l][m] # local[l][m] =>
              (last'.op \in {"cli", "delete", "tear", "purge", "block"}) \/ (last'.op = "open" /\ last'.cc /\ local'[l][m] = FullOf(store[l].ver)))]_vars
\* C10 / C16 / C13: a judged open returns the current version of everything, whatever happened before
JudgedIsCurrent == last.op = "open" /\ last.outcome = "tree" /\ last.judged /\ (\A l \in Locs, m \in ImageSet : local[l][m].asked /\ adjacent[l][m].asked)
                       => \A m \in ImageSet : last.cver[m] = last.ver
\* a stale index can only be served while no refresh happened since the delivery: once judged after refresh it stays
\* so until the next delivery (checked as: an unjudged tree needs a cell of another version or a damaged image)
UnjudgedHasCause == last.op = "open" /\ last.outcome = "tree" /\ ~last.judged =>
                       \E m \in ImageSet : \/ (local[last.loc][m].st = "full" /\ local[last.loc][m].ver # last.ver)
                                           \/ (adjacent[last.loc][m].st = "full" /\ adjacent[last.loc][m].ver # last.ver)
                                           \/ store[last.loc].dmg[m] # "ok"
\* held trees never change identity behind the user's back
TreesKeepIdentity == [][\A t \in Slots : tree[t].live /\ tree'[t].live /\ last'.op \notin {"open", "copy", "drop"}
                           => tree'[t].ver = tree[t].ver /\ tree'[t].loc = tree[t].loc /\ tree'[t].rpc = tree[t].rpc]_vars
=============================================================================
