SPECIFICATION Spec
CONSTANT Cases <- ThoroughCases
INVARIANT CursorAligned
INVARIANT InadmissibleRejected
INVARIANT EndsAtTotal
CHECK_DEADLOCK FALSE
