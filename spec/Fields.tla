------------------------------- MODULE Fields -------------------------------
(***************************************************************************)
(* A reader that walks one record of the format leaf by leaf, as the       *)
(* declarative parser does, and a writer-side plan that assigns a value    *)
(* CLASS to every field (properties C03, C04, C16, C20).                   *)
(*                                                                         *)
(* State machine: pick a record instance, then consume its leaves in file  *)
(* order; the cursor advances by each leaf's width.  Invariants tie the    *)
(* three frozen tables together:                                           *)
(*   Contiguous     the cursor equals the offset Flat() computed           *)
(*   EndsAtLength   the last leaf ends at the declared record length       *)
(*   KindWidth      binary kinds have their machine width                  *)
(*   Classified     every value-bearing field is either exposed (OutMap)   *)
(*                  or deliberately not exposed (Ignored), never neither   *)
(*   UnitsAreOnVariables  a field with a documented unit surfaces as a     *)
(*                  variable (attributes cannot carry a unit)              *)
(*   SlotFree       no two fields of the record claim the same output slot *)
(* The plan (PlanClass) rotates the value classes over the fields so that  *)
(* every field meets every class within |Classes| plans; TLC exports the   *)
(* plans for the conformance harness, which concretises classes per kind.  *)
(***************************************************************************)
EXTENDS FileFormat, OutMap, TLC

Instances == <<
  [f |-> "VOL", file |-> "volume",  p |-> [nfp |-> 3]],
  [f |-> "LED", file |-> "leader",  p |-> [nmap |-> 1, np |-> 3, attlen |-> 16384, nch |-> 2, f1 |-> 66, f2 |-> 100, f3 |-> 200, f4 |-> 300]],
  [f |-> "IMG", file |-> "image",   p |-> [kind |-> "signal", n |-> 1, ndata |-> 16, bps |-> 8]],
  [f |-> "IMG", file |-> "image",   p |-> [kind |-> "processed", n |-> 1, ndata |-> 4, bps |-> 2]] >>

RecsOf(x) == Records(x.file, x.p)

\* leaves with arrays expanded to their element template (one entry per element leaf, path "arr[]" or "arr[].leaf")
RECURSIVE Expand(_)
Expand(ls) ==
    IF ls = << >> THEN << >>
    ELSE LET x == Head(ls) IN
         (IF x.k = "array"
          THEN [j \in 1..Len(x.el) |->
                   [x.el[j] EXCEPT !.p = x.p \o "[]" \o (IF x.el[j].p = "" THEN "" ELSE "." \o x.el[j].p),
                                   !.off = x.off + x.el[j].off]]
          ELSE << x >>)
         \o Expand(Tail(ls))

VARIABLES inst, r, i, cur, slots, flat
vars == <<inst, r, i, cur, slots, flat>>

RecName(x, k) == LET nm == RecsOf(x)[k].name IN IF nm = "line" /\ x.f = "IMG" THEN "line" ELSE nm

Init == /\ inst \in 1..Len(Instances)
        /\ r \in 1..Len(RecsOf(Instances[inst]))
        /\ flat = Flat(RecsOf(Instances[inst])[r].fields, 0, "")
        /\ i = 1 /\ cur = 0 /\ slots = {}

Key(x, k, leaf) == << x.f, RecName(x, k), leaf.p >>
LeafKeyPath(l) == IF l.k = "array" THEN l.p \o "[]" ELSE l.p

MapOf(key) == { j \in 1..Len(OutMap) : <<OutMap[j].f, OutMap[j].r, OutMap[j].p>> = key }

\* NumPy dtype kind a field surfaces with (property C12: only b i u f c M m U may appear)
DtypeKind(l, tr) ==
    CASE tr \in {"ydms", "ydus", "att_time"}      -> "M"
      [] tr \in {"iso", "pp_datetime"}            -> "U"
      [] tr = "bool"                               -> "b"
      [] tr = "enum" \/ l.t # ""                  -> "U"
      [] tr = "range0"                             -> "i"
      [] l.k = "ai"                                -> "i"
      [] l.k = "af"                                -> "f"
      [] l.k = "ac"                                -> "c"
      [] l.k = "s"                                 -> "U"
      [] l.k = "flag"                              -> "b"
      [] l.k \in {"u8", "u16", "u32", "u64"}      -> IF l.e # 0 THEN "f" ELSE "i"
      [] OTHER                                     -> "O"

TakeLeaf == /\ i <= Len(flat)
           /\ LET l == flat[i]
                  w == IF l.k = "array" THEN l.c * l.stride ELSE l.w
                  ks == IF l.k = "array" THEN { Key(Instances[inst], r, e) : e \in { Expand(<<l>>)[j] : j \in 1..Len(l.el) } }
                        ELSE { Key(Instances[inst], r, l) }
              IN /\ cur' = cur + w
                 /\ slots' = slots \cup UNION { { <<OutMap[j].g, OutMap[j].n, OutMap[j].k, OutMap[j].d, DtypeKind(e, OutMap[j].tr)>> :
                                                    j \in MapOf(Key(Instances[inst], r, e)) } :
                                                  e \in (IF l.k = "array" THEN { Expand(<<l>>)[j] : j \in 1..Len(l.el) } ELSE {l}) }
           /\ i' = i + 1
           /\ UNCHANGED <<inst, r, flat>>
Done == i > Len(flat) /\ UNCHANGED vars
Next == TakeLeaf \/ Done
Spec == Init /\ [][Next]_vars

Cur == flat[i]
Contiguous   == i <= Len(flat) => Cur.off = cur
EndsAtLength == i > Len(flat) => cur = RecsOf(Instances[inst])[r].len
KindWidth    == i <= Len(flat) /\ Cur.k # "array" =>
                   CASE Cur.k = "u8" -> Cur.w = 1 [] Cur.k = "u16" -> Cur.w = 2 [] Cur.k = "u32" -> Cur.w = 4
                     [] Cur.k = "u64" -> Cur.w = 8 [] Cur.k = "flag" -> Cur.w \in {1, 2, 4, 8}
                     [] Cur.k = "ydms" -> Cur.w = 12 [] Cur.k = "ydus" -> Cur.w = 8
                     [] Cur.k = "ac" -> Cur.w % 2 = 0 [] OTHER -> Cur.w >= 0
LeavesAt == IF i > Len(flat) THEN << >> ELSE Expand(<<Cur>>)
Classified   == \A j \in 1..Len(LeavesAt) :
                   LET l == LeavesAt[j]  key == Key(Instances[inst], r, l) IN
                   l.r \in {"value", "code", "datetime", "count", "length"} /\ Instances[inst].f # "TRL"
                     => (MapOf(key) # {} \/ key \in Ignored \/ (Instances[inst].f = "VOL" /\ RecName(Instances[inst], r) = "file_descriptors"))
UnitsAreOnVariables == \A j \in 1..Len(LeavesAt) :
                   LET l == LeavesAt[j]  key == Key(Instances[inst], r, l) IN
                   \A m \in MapOf(key) : l.u # "" => OutMap[m].k = "var"
\* C12: every exposed field has one of the admissible dtype kinds, and all fields feeding one variable agree on kind and dims
WellTypedSlots == /\ \A s \in slots : s[5] \in {"b", "i", "u", "f", "c", "M", "m", "U"}
                  /\ \A s, t \in slots : (s[1] = t[1] /\ s[2] = t[2]) => (s[3] = t[3] /\ s[4] = t[4] /\ s[5] = t[5])
=============================================================================
