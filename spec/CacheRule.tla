----------------------------- MODULE CacheRule -----------------------------
(***************************************************************************)
(* The ONE rule by which an open decides where an image group comes from   *)
(* (sar_image/caching/__init__.py read_cache, as the code does it):        *)
(* local.is_file() -> decode(local); elif remote in mapper ->              *)
(* decode(remote); an undecodable file is a miss for the WHOLE lookup      *)
(* (the adjacent index is not consulted after a torn local one).           *)
(* Shared by Alos2.tla (API grain: Src) and checked against Cache.tla      *)
(* (step grain: IsFileLocal / ReadLocal / ReadAdjacent / Parse) by         *)
(* CacheAtomic.tla -- the link that makes the atomic Open of Alos2 an      *)
(* abstraction of the multi-step open of Cache for one process.            *)
(* Cell states: "absent" | "torn" | "full".                                *)
(***************************************************************************)
RuleSrc(localSt, adjacentSt, uc) ==
    IF ~uc THEN "parse"
    ELSE IF localSt = "full" THEN "local"
    ELSE IF localSt = "torn" THEN "parse"
    ELSE IF adjacentSt = "full" THEN "adjacent"
    ELSE "parse"
\* the cells an open (create_cache = cc) writes: the user-cache cell of every image it had to parse
RuleWrites(localSt, adjacentSt, uc, cc) == cc /\ RuleSrc(localSt, adjacentSt, uc) = "parse"
=============================================================================
