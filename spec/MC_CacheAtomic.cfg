SPECIFICATION SpecH
CONSTANTS
  Images = {"a", "b"}
  Procs = {1}
  Rpcs = {1}
  B = 2
  MaxOps = 4
  AllowCrash = FALSE
  AllowEnv = TRUE
  TornIsMiss = TRUE
INVARIANT AtomicSources
INVARIANT AtomicWrites
INVARIANT AtomicCli
CHECK_DEADLOCK FALSE
