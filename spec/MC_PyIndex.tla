---------------------------- MODULE MC_PyIndex ----------------------------
EXTENDS PyIndex, Json, IOUtils, SequencesExt, TLC

Point(m, e) == [n |-> m, ex |-> e, res |-> Eval(e, m)]
AllPoints == UNION { { Point(m, e) : e \in Exprs(m) } : m \in 1..MaxLen }
\* strides against group boundaries: a longer axis, steps +-2 .. +-7 from several starts / stops (the backend serves a strided slice group
\* by group of records_per_chunk lines: the phase of the stride changes from group to group)
StrideN == 13
StridePoints == { Point(StrideN, [kind |-> "slice", a |-> a, b |-> b, s |-> <<st>>]) :
                    a \in Opt({0, 1, 2, 5, -1, -4}), b \in Opt({13, 11, 7, -2, 0}), st \in {2, 3, 4, 5, 7, -2, -3, -4, -5, -7} }
ASSUME \A pt \in StridePoints : pt.res.err = "" /\ \A k \in 1..Len(pt.res.rows) : pt.res.rows[k] \in 0..StrideN-1
ASSUME "STRIDES_FILE" \in DOMAIN IOEnv => JsonSerialize(IOEnv.STRIDES_FILE, SetToSeq(StridePoints))
ASSUME "POINTS_FILE" \in DOMAIN IOEnv => JsonSerialize(IOEnv.POINTS_FILE, SetToSeq(AllPoints))
=============================================================================
