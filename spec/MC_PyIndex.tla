---------------------------- MODULE MC_PyIndex ----------------------------
EXTENDS PyIndex, Json, IOUtils, SequencesExt, TLC

Point(m, e) == [n |-> m, ex |-> e, res |-> Eval(e, m)]
AllPoints == UNION { { Point(m, e) : e \in Exprs(m) } : m \in 1..MaxLen }
ASSUME "POINTS_FILE" \in DOMAIN IOEnv => JsonSerialize(IOEnv.POINTS_FILE, SetToSeq(AllPoints))
=============================================================================
