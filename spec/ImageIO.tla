------------------------------- MODULE ImageIO -------------------------------
(***************************************************************************)
(* DESIGN model of the metadata pass and the pixel loads of ONE image file *)
(* (sar_image/io.py read_metadata / parse_chunk, sar_image/__init__.py     *)
(* open_image, array.py Array.__getitem__), one action per I/O request.    *)
(*                                                                         *)
(* File content is modelled as the identity on offsets: "the byte at       *)
(* offset o" is o.  Returning the right samples is then an equation        *)
(* between integers (CellsExact).  Every action appends the event it       *)
(* performs to io and feeds it to the Envelope observer (ImageIOEnv), so   *)
(* that TLC checks  Design => Envelope  (EnvAccepts) in the same run.      *)
(***************************************************************************)
EXTENDS ImageIOEnv, TLC

CONSTANTS MaxN, MaxP, MaxRpc, PrefixLens, SampleSizes

VARIABLES g,        \* geometry [n, p, prefix, bps, rpc, flen, img]  (chosen in Init: one TLC run covers the family)
          sel,      \* the backend selection: [kind : {"int","slice","none"}, rows : Seq(0..n-1)]
          pc, pos, ci, ranges, outcome,
          tasks, cells, seekTo,
          io, env, h

vars == <<g, sel, pc, pos, ci, ranges, outcome, tasks, cells, seekTo, io, env, h>>

Img == "IMG"

\* ------------------------------------------------------------------ families
Geoms == { [n |-> n, p |-> p, prefix |-> pf, bps |-> b, rpc |-> r] :
               n \in 1..MaxN, p \in 1..MaxP, pf \in PrefixLens, b \in SampleSizes, r \in 1..MaxRpc }

Cuts(q) == ( {0, 719, 720, Full(q)}
             \cup { RecStart(q, k) : k \in 0..q.n }
             \cup { RecStart(q, k) + 1 : k \in 0..q.n - 1 }
             \cup { RecStart(q, k) - 1 : k \in 1..q.n }
             \cup { DataStart(q, k) : k \in 0..q.n - 1 } ) \cap (0 .. Full(q))

\* what xarray's BASIC decomposition can hand the backend on the row axis: an integer, or a slice with positive step
Progression(a, s, len) == [i \in 1..len |-> a + (i - 1) * s]
SliceRows(n) == { << >> } \cup { Progression(a, s, len) : a \in 0..n-1, s \in 1..n, len \in 1..n }
Selections(n) ==
       { [kind |-> "int", rows |-> << r >>] : r \in 0..n-1 }
  \cup { [kind |-> "slice", rows |-> rs] : rs \in { x \in SliceRows(n) : \A i \in 1..Len(x) : x[i] <= n - 1 } }

NoSel == [kind |-> "none", rows |-> << >>]

\* ------------------------------------------------------------------ events
Emit(ev) == /\ io'  = Append(io, ev)
            /\ env' = Observe(env, ev, g)

Init == /\ \E q \in Geoms : \E fl \in Cuts(q) :
              /\ g = [n |-> q.n, p |-> q.p, prefix |-> q.prefix, bps |-> q.bps, rpc |-> q.rpc, flen |-> fl, img |-> Img]
              /\ sel \in (IF fl = Full(q) THEN Selections(q.n) ELSE {NoSel})
        /\ pc = "begin" /\ pos = 0 /\ ci = 0 /\ ranges = << >> /\ outcome = "pending"
        /\ tasks = << >> /\ cells = << >> /\ seekTo = -1
        /\ io = << >> /\ env = EnvInit /\ h = 0

\* ------------------------------------------------------------------ open
BeginOpen == /\ pc = "begin"
             /\ Emit([e |-> "begin_open"])
             /\ pc' = "fopen"
             /\ UNCHANGED <<g, sel, pos, ci, ranges, outcome, tasks, cells, seekTo, h>>

OpenFile == /\ pc = "fopen"
            /\ h' = h + 1
            /\ Emit([e |-> "fopen", h |-> h + 1, f |-> Img])
            /\ pc' = "desc"
            /\ UNCHANGED <<g, sel, pos, ci, ranges, outcome, tasks, cells, seekTo>>

ReadDescriptor ==
    /\ pc = "desc"
    /\ LET got == Min(720, g.flen) IN
          /\ Emit([e |-> "read", h |-> h, f |-> Img, pos |-> 0, req |-> 720, got |-> got])
          /\ pos' = got
          /\ pc' = IF got < 720 THEN "failing" ELSE (IF NChunks(g.n, g.rpc) = 0 THEN "closing" ELSE "meta")
    /\ UNCHANGED <<g, sel, ci, ranges, outcome, tasks, cells, seekTo, h>>

\* one f.read(chunksize * record_size) + parse_chunk + adjust_offsets
ReadMetaChunk ==
    /\ pc = "meta"
    /\ LET req  == ChunkSize(g.n, g.rpc, ci) * RecLen(g)
           got  == Max(0, Min(req, g.flen - pos))
           nrec == got \div RecLen(g)
       IN /\ Emit([e |-> "read", h |-> h, f |-> Img, pos |-> pos, req |-> req, got |-> got])
          /\ pos' = pos + got
          /\ IF got = 0 \/ nrec * RecLen(g) # got
             THEN pc' = "failing" /\ UNCHANGED <<ranges, ci>>       \* empty preamble / "sizes mismatch"
             ELSE /\ ranges' = ranges \o [j \in 1..nrec |-> AbsRange(g, ci, j - 1)]
                  /\ ci' = ci + 1
                  /\ pc' = IF ci + 1 = NChunks(g.n, g.rpc) THEN "closing" ELSE "meta"
    /\ UNCHANGED <<g, sel, outcome, tasks, cells, seekTo, h>>

CloseAfterOpen ==
    /\ pc \in {"closing", "failing"}
    /\ Emit([e |-> "fclose", h |-> h])
    /\ pc' = IF pc = "failing" THEN "failed" ELSE "finish"
    /\ UNCHANGED <<g, sel, pos, ci, ranges, outcome, tasks, cells, seekTo, h>>

\* the tree is assembled: a line-metadata table shorter than the declared shape is rejected (dimension-size check)
Finish ==
    /\ pc \in {"finish", "failed"}
    /\ LET ok == pc = "finish" /\ Len(ranges) = g.n IN
          /\ outcome' = IF ok THEN "ok" ELSE "error"
          /\ Emit([e |-> "opened", outcome |-> IF ok THEN "ok" ELSE "error", shape |-> <<g.n, g.p>>, expect |-> "any"])
          /\ pc' = IF ok /\ sel.kind # "none" THEN "lbegin" ELSE "done"
    /\ UNCHANGED <<g, sel, pos, ci, ranges, tasks, cells, seekTo, h>>

\* ------------------------------------------------------------------ load  (Array.__getitem__)
LBegin == /\ pc = "lbegin"
          /\ Emit([e |-> "begin_load", rows |-> sel.rows])
          /\ tasks' = Touched(g, sel.rows, << >>)
          /\ pc' = "lopen"
          /\ UNCHANGED <<g, sel, pos, ci, ranges, outcome, cells, seekTo, h>>

LOpen == /\ pc = "lopen"
         /\ h' = h + 1
         /\ Emit([e |-> "fopen", h |-> h + 1, f |-> Img])
         /\ pc' = IF tasks = << >> THEN "lclose" ELSE "lseek"
         /\ UNCHANGED <<g, sel, pos, ci, ranges, outcome, tasks, cells, seekTo>>

LSeek == /\ pc = "lseek"
         /\ LET sp == Span(g, ranges, Head(tasks)) IN
               /\ seekTo' = sp[1]
               /\ Emit([e |-> "seek", h |-> h, f |-> Img, off |-> sp[1]])
         /\ pc' = "lread"
         /\ UNCHANGED <<g, sel, pos, ci, ranges, outcome, tasks, cells, h>>

\* read the span, relocate the selected rows' ranges into the buffer, extract
LRead == /\ pc = "lread"
         /\ LET c    == Head(tasks)
                sp   == Span(g, ranges, c)
                size == sp[2] - sp[1]
                rows == RowsOfChunk(g, sel.rows, c)
                \* buffer byte i holds file offset seekTo + i; row r is cut out at (start - offset, stop - offset)
                cut(r) == seekTo + (ranges[r + 1][1] - sp[1])
            IN /\ Emit([e |-> "read", h |-> h, f |-> Img, pos |-> seekTo, req |-> size, got |-> Min(size, g.flen - seekTo)])
               /\ cells' = cells \o [i \in 1..Len(rows) |-> cut(rows[i])]
         /\ tasks' = Tail(tasks)
         /\ pc' = IF Len(tasks) = 1 THEN "lclose" ELSE "lseek"
         /\ UNCHANGED <<g, sel, pos, ci, ranges, outcome, seekTo, h>>

LClose == /\ pc = "lclose"
          /\ Emit([e |-> "fclose", h |-> h])
          /\ pc' = "lreturn"
          /\ UNCHANGED <<g, sel, pos, ci, ranges, outcome, tasks, cells, seekTo, h>>

Expected == [i \in 1..Len(sel.rows) |-> DataStart(g, sel.rows[i])]

LReturn == /\ pc = "lreturn"
           /\ Emit([e |-> "loaded", outcome |-> IF cells = Expected THEN "equal" ELSE "differ"])
           /\ pc' = "done"
           /\ UNCHANGED <<g, sel, pos, ci, ranges, outcome, tasks, cells, seekTo, h>>

Done == pc = "done" /\ UNCHANGED vars

Next == BeginOpen \/ OpenFile \/ ReadDescriptor \/ ReadMetaChunk \/ CloseAfterOpen \/ Finish
        \/ LBegin \/ LOpen \/ LSeek \/ LRead \/ LClose \/ LReturn \/ Done

Spec == Init /\ [][Next]_vars

\* ------------------------------------------------------------------ properties
\* C01: the two-step offset arithmetic (chunk-relative Tell/Seek rebased by 720 + chunk base) locates every line exactly
RangesExact == outcome = "ok" => ranges = [k \in 1..g.n |-> << DataStart(g, k - 1), DataStop(g, k - 1) >>]
\* C01: a load returns, for every selected row, the bytes stored at that row (first-sample offset; rows are contiguous)
CellsExact  == pc = "done" /\ sel.kind # "none" /\ outcome = "ok" => cells = Expected
\* C18: an open reports ok only if nothing is missing
FailStop    == outcome = "ok" => g.flen = Full(g)
\* and a complete file is never rejected
Total       == (pc = "done" /\ g.flen = Full(g)) => outcome = "ok"
\* C06: what is read does not depend on rpc (the right-hand side of RangesExact does not mention rpc); the advertised
\* chunk size is min(rpc, n)
EncodingChunk == NormRpc(g.rpc, g.n) = Min(g.rpc, g.n)
\* C11: Design => Envelope
EnvAccepts  == env.bad = ""
\* the backend returns rows in selection order for everything xarray hands it
OrderKept   == sel.kind # "none" => BackendOrder(g, sel.rows) = sel.rows
=============================================================================
