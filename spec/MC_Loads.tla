---------------------------- MODULE MC_Loads ----------------------------
EXTENDS Loads
SameVar2 == (1 :> "v" @@ 2 :> "v")
DiffVar2 == (1 :> "v" @@ 2 :> "w")
SameVar3 == (1 :> "v" @@ 2 :> "v" @@ 3 :> "w")
OwnLock2 == (1 :> "k1" @@ 2 :> "k2")
Ch2 == (1 :> 2 @@ 2 :> 2)
Ch3 == (1 :> 1 @@ 2 :> 2 @@ 3 :> 1)
\* one thread per image of a quad-polarisation product, two of them on the same image: more loads in flight than images
Var4 == (1 :> "hh" @@ 2 :> "hv" @@ 3 :> "vh" @@ 4 :> "hh")
Ch4 == (1 :> 1 @@ 2 :> 1 @@ 3 :> 1 @@ 4 :> 1)
=============================================================================
