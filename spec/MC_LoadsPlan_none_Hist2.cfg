SPECIFICATION FairSpec
CONSTANTS
  Threads = {1, 2, 3}
  KeyOf <- Key3
  Cap = 4
  History <- Hist2
  Memo = "none"
INVARIANT TypeOK
INVARIANT NoSpuriousError
INVARIANT PlanIsSequential
PROPERTY ThreadLocal
PROPERTY Termination
