-------------------------- MODULE LoadsLockProofs --------------------------
(***************************************************************************)
(* Unbounded counterpart of MC_Loads_sharedlocked / _same / _three (C19):  *)
(* for ANY set of threads (ids 1, 2, ...), ANY assignment of threads to    *)
(* variables and ANY numbers of chunks, if every load takes the lock of    *)
(* its variable (LockOf = VarOf: the tree and its pickled copies share the *)
(* lock token), then at most one load per variable is between acquire and  *)
(* release, and every read is served from the offset its own thread sought *)
(* -- whether the handle is per load or ONE per variable (memory://).      *)
(* Checked by tlapm.                                                       *)
(***************************************************************************)
EXTENDS Loads, SequenceTheorems, TLAPS

ASSUME Locked == UseLock = TRUE
ASSUME LockPerVar == LockOf = VarOf
ASSUME ThreadsPos == Threads \subseteq Nat \ {0}
ASSUME ChunksNat == Chunks \in [Threads -> Nat]
ASSUME VarOfFun == VarOf \in [Threads -> STRING]

States == {"start", "locked", "opened", "seeked", "closing", "closed", "done"}
Crit == {"locked", "opened", "seeked", "closing", "closed"}

LInv == /\ tpc \in [Threads -> States]
        /\ ci \in [Threads -> Nat]
        /\ got \in [Threads -> Seq(Int)]
        /\ hpos \in [Handles -> Int]
        /\ lock \in [Locks -> Nat]
        /\ \A t \in Threads : (tpc[t] \in Crit) <=> (lock[LockOf[t]] = t)
        /\ \A t \in Threads : ci[t] >= 1 /\ Len(got[t]) = ci[t] - 1
        /\ \A t \in Threads : \A k \in 1..Len(got[t]) : got[t][k] = Off(t, k)
        /\ \A t \in Threads : tpc[t] = "seeked" => hpos[H(t)] = Off(t, ci[t])

LEMMA HIn == \A t \in Threads : H(t) \in Handles
  BY DEF Handles
LEMMA LIn == \A t \in Threads : LockOf[t] \in Locks
  BY DEF Locks
\* two loads that use the same handle are the same load or take the same lock
LEMMA HSame == \A a, b \in Threads : H(a) = H(b) => (a = b \/ LockOf[a] = LockOf[b])
  BY LockPerVar DEF H
LEMMA OffInt == \A t \in Threads : \A c \in Int : Off(t, c) \in Int
  BY ThreadsPos DEF Off
LEMMA Pos == \A t \in Threads : t \in Nat /\ t # 0
  BY ThreadsPos
\* under the invariant, two different threads in their critical sections never share a handle
LEMMA Apart == ASSUME LInv, NEW a \in Threads, NEW b \in Threads, a # b, tpc[a] \in Crit, tpc[b] \in Crit PROVE H(a) # H(b)
  <1>1 lock[LockOf[a]] = a /\ lock[LockOf[b]] = b BY DEF LInv
  <1>2 LockOf[a] # LockOf[b] BY <1>1
  <1> QED BY <1>2, HSame

LEMMA InitInv == Init => LInv
  <1> SUFFICES ASSUME Init PROVE LInv OBVIOUS
  <1>1 tpc \in [Threads -> States] BY DEF Init, States
  <1>2 ci \in [Threads -> Nat] BY DEF Init
  <1>3 got \in [Threads -> Seq(Int)] BY DEF Init
  <1>4 hpos \in [Handles -> Int] BY DEF Init
  <1>5 lock \in [Locks -> Nat] BY DEF Init
  <1>6 \A t \in Threads : (tpc[t] \in Crit) <=> (lock[LockOf[t]] = t) BY Pos, LIn DEF Init, Crit
  <1>7 \A t \in Threads : ci[t] >= 1 /\ Len(got[t]) = ci[t] - 1 BY DEF Init
  <1>8 \A t \in Threads : \A k \in 1..Len(got[t]) : got[t][k] = Off(t, k) BY DEF Init
  <1>9 \A t \in Threads : tpc[t] = "seeked" => hpos[H(t)] = Off(t, ci[t]) BY DEF Init
  <1> QED BY <1>1, <1>2, <1>3, <1>4, <1>5, <1>6, <1>7, <1>8, <1>9 DEF LInv

LEMMA StepInv == LInv /\ [Next]_vars => LInv'
  <1> SUFFICES ASSUME LInv, [Next]_vars PROVE LInv' OBVIOUS
  <1>1 ASSUME NEW t \in Threads, Acquire(t) PROVE LInv'
    <2> USE DEF LInv
    <2>0 lock[LockOf[t]] = 0 /\ lock' = [lock EXCEPT ![LockOf[t]] = t] /\ tpc' = [tpc EXCEPT ![t] = "locked"] /\ tpc[t] = "start"
      BY <1>1, Locked DEF Acquire
    <2>1 tpc' \in [Threads -> States] BY <2>0 DEF States
    <2>2 lock' \in [Locks -> Nat] BY <2>0, Pos, LIn
    <2>3 \A u \in Threads : (tpc'[u] \in Crit) <=> (lock'[LockOf[u]] = u)
      <3> SUFFICES ASSUME NEW u \in Threads PROVE (tpc'[u] \in Crit) <=> (lock'[LockOf[u]] = u) OBVIOUS
      <3>1 CASE u = t BY <2>0, <3>1, LIn DEF Crit
      <3>2 CASE u # t
        <4>1 tpc'[u] = tpc[u] BY <2>0, <3>2
        <4>2 CASE LockOf[u] = LockOf[t]
          <5>1 lock'[LockOf[u]] = t BY <2>0, <4>2, LIn
          <5>2 lock[LockOf[u]] = 0 BY <2>0, <4>2
          <5>3 ~(tpc[u] \in Crit) BY <5>2, Pos
          <5> QED BY <4>1, <5>1, <5>3, <3>2
        <4>3 CASE LockOf[u] # LockOf[t]
          <5>1 lock'[LockOf[u]] = lock[LockOf[u]] BY <2>0, <4>3, LIn
          <5> QED BY <4>1, <5>1
        <4> QED BY <4>2, <4>3
      <3> QED BY <3>1, <3>2
    <2>4 \A u \in Threads : tpc'[u] = "seeked" => hpos'[H(u)] = Off(u, ci'[u])
      BY <1>1, <2>0 DEF Acquire
    <2> QED BY <1>1, <2>1, <2>2, <2>3, <2>4 DEF Acquire
  <1>2 ASSUME NEW t \in Threads, FOpen(t) PROVE LInv'
    <2>0 tpc[t] = "locked" /\ tpc[t] \in Crit BY <1>2 DEF FOpen, Crit
    <2> USE DEF LInv
    <2>1 tpc' \in [Threads -> States] BY <1>2 DEF FOpen, States
    <2>2 hpos' \in [Handles -> Int] BY <1>2, HIn DEF FOpen
    <2>3 \A u \in Threads : (tpc'[u] \in Crit) <=> (lock'[LockOf[u]] = u)
      BY <1>2, <2>0 DEF FOpen, Crit
    <2>4 \A u \in Threads : tpc'[u] = "seeked" => hpos'[H(u)] = Off(u, ci'[u])
      <3> SUFFICES ASSUME NEW u \in Threads, tpc'[u] = "seeked" PROVE hpos'[H(u)] = Off(u, ci'[u]) OBVIOUS
      <3>1 u # t BY <1>2 DEF FOpen
      <3>2 tpc[u] = "seeked" /\ tpc[u] \in Crit BY <1>2, <3>1 DEF FOpen, Crit
      <3>3 H(u) # H(t) BY <3>1, <3>2, <2>0, Apart
      <3> QED BY <1>2, <3>2, <3>3, HIn DEF FOpen
    <2> QED BY <1>2, <2>1, <2>2, <2>3, <2>4 DEF FOpen
  <1>3 ASSUME NEW t \in Threads, Seek(t) PROVE LInv'
    <2>0 tpc[t] = "opened" /\ tpc[t] \in Crit BY <1>3 DEF Seek, Crit
    <2> USE DEF LInv
    <2>1 tpc' \in [Threads -> States] BY <1>3 DEF Seek, States
    <2>2 hpos' \in [Handles -> Int] BY <1>3, HIn, OffInt DEF Seek
    <2>3 \A u \in Threads : (tpc'[u] \in Crit) <=> (lock'[LockOf[u]] = u)
      BY <1>3, <2>0 DEF Seek, Crit
    <2>4 \A u \in Threads : tpc'[u] = "seeked" => hpos'[H(u)] = Off(u, ci'[u])
      <3> SUFFICES ASSUME NEW u \in Threads, tpc'[u] = "seeked" PROVE hpos'[H(u)] = Off(u, ci'[u]) OBVIOUS
      <3>1 CASE u = t BY <1>3, <3>1, HIn DEF Seek
      <3>2 CASE u # t
        <4>1 tpc[u] = "seeked" /\ tpc[u] \in Crit BY <1>3, <3>2 DEF Seek, Crit
        <4>2 H(u) # H(t) BY <3>2, <4>1, <2>0, Apart
        <4> QED BY <1>3, <4>1, <4>2, HIn DEF Seek
      <3> QED BY <3>1, <3>2
    <2> QED BY <1>3, <2>1, <2>2, <2>3, <2>4 DEF Seek
  <1>4 ASSUME NEW t \in Threads, Read(t) PROVE LInv'
    <2>00 tpc[t] = "seeked" /\ tpc[t] \in Crit BY <1>4 DEF Read, Crit
    <2> USE DEF LInv
    <2>0 hpos[H(t)] = Off(t, ci[t]) /\ hpos[H(t)] \in Int BY <2>00, HIn
    <2>1 tpc' \in [Threads -> States] BY <1>4 DEF Read, States
    <2>2 ci' \in [Threads -> Nat] BY <1>4 DEF Read
    <2>3 got' \in [Threads -> Seq(Int)] BY <1>4, <2>0, AppendProperties DEF Read
    <2>4 hpos' \in [Handles -> Int] BY <1>4, HIn DEF Read, Size
    <2>4a \A u \in Threads : (tpc'[u] \in Crit) <=> (lock'[LockOf[u]] = u)
      BY <1>4, <2>00 DEF Read, Crit
    <2>5 \A u \in Threads : ci'[u] >= 1 /\ Len(got'[u]) = ci'[u] - 1
      <3> SUFFICES ASSUME NEW u \in Threads PROVE ci'[u] >= 1 /\ Len(got'[u]) = ci'[u] - 1 OBVIOUS
      <3>1 CASE u = t
        <4>1 got[t] \in Seq(Int) /\ hpos[H(t)] \in Int /\ ci[t] \in Nat BY <2>0
        <4>2 Len(Append(got[t], hpos[H(t)])) = Len(got[t]) + 1 BY <4>1, AppendProperties
        <4>3 got'[t] = Append(got[t], hpos[H(t)]) /\ ci'[t] = ci[t] + 1 BY <1>4 DEF Read
        <4>4 Len(got[t]) = ci[t] - 1 /\ ci[t] >= 1 OBVIOUS
        <4> QED BY <3>1, <4>1, <4>2, <4>3, <4>4
      <3>2 CASE u # t BY <1>4, <3>2 DEF Read
      <3> QED BY <3>1, <3>2
    <2>6 \A u \in Threads : \A k \in 1..Len(got'[u]) : got'[u][k] = Off(u, k)
      <3> SUFFICES ASSUME NEW u \in Threads, NEW k \in 1..Len(got'[u]) PROVE got'[u][k] = Off(u, k) OBVIOUS
      <3>1 CASE u # t BY <1>4, <3>1 DEF Read
      <3>2 CASE u = t
        <4>1 got'[t] = Append(got[t], hpos[H(t)]) BY <1>4 DEF Read
        <4>2 Len(got'[t]) = Len(got[t]) + 1 BY <4>1, <2>0, AppendProperties
        <4>3 CASE k <= Len(got[t])
          <5>1 got[t] \in Seq(Int) /\ hpos[H(t)] \in Int BY <2>0
          <5>2 k \in 1..Len(got[t]) BY <4>3
          <5>3 Append(got[t], hpos[H(t)])[k] = got[t][k] BY <5>1, <5>2, AppendProperties
          <5>4 got[t][k] = Off(t, k) BY <5>2
          <5> QED BY <4>1, <5>3, <5>4, <3>2
        <4>4 CASE k = Len(got[t]) + 1 BY <4>1, <4>4, <2>0, <3>2, AppendProperties
        <4> QED BY <4>2, <4>3, <4>4, <3>2
      <3> QED BY <3>1, <3>2
    <2>7 \A u \in Threads : tpc'[u] = "seeked" => hpos'[H(u)] = Off(u, ci'[u])
      <3> SUFFICES ASSUME NEW u \in Threads, tpc'[u] = "seeked" PROVE hpos'[H(u)] = Off(u, ci'[u]) OBVIOUS
      <3>1 u # t BY <1>4 DEF Read
      <3>2 tpc[u] = "seeked" /\ tpc[u] \in Crit /\ ci'[u] = ci[u] BY <1>4, <3>1 DEF Read, Crit
      <3>3 H(u) # H(t) BY <3>1, <3>2, <2>00, Apart
      <3> QED BY <1>4, <3>2, <3>3, HIn DEF Read
    <2>8 lock' \in [Locks -> Nat] BY <1>4 DEF Read
    <2> QED BY <2>1, <2>2, <2>3, <2>4, <2>4a, <2>5, <2>6, <2>7, <2>8
  <1>5 ASSUME NEW t \in Threads, FClose(t) PROVE LInv'
    <2>0 tpc[t] = "closing" /\ tpc[t] \in Crit BY <1>5 DEF FClose, Crit
    <2> USE DEF LInv
    <2>1 tpc' \in [Threads -> States] BY <1>5 DEF FClose, States
    <2>2 \A u \in Threads : (tpc'[u] \in Crit) <=> (lock'[LockOf[u]] = u)
      BY <1>5, <2>0 DEF FClose, Crit
    <2>3 \A u \in Threads : tpc'[u] = "seeked" => hpos'[H(u)] = Off(u, ci'[u])
      BY <1>5 DEF FClose
    <2> QED BY <1>5, <2>1, <2>2, <2>3 DEF FClose
  <1>6 ASSUME NEW t \in Threads, Release(t) PROVE LInv'
    <2> USE DEF LInv
    <2>0 tpc[t] = "closed" /\ tpc[t] \in Crit /\ lock' = [lock EXCEPT ![LockOf[t]] = 0] /\ tpc' = [tpc EXCEPT ![t] = "done"]
      BY <1>6, Locked DEF Release, Crit
    <2>0a lock[LockOf[t]] = t BY <2>0
    <2>1 tpc' \in [Threads -> States] BY <2>0 DEF States
    <2>2 lock' \in [Locks -> Nat] BY <2>0
    <2>3 \A u \in Threads : (tpc'[u] \in Crit) <=> (lock'[LockOf[u]] = u)
      <3> SUFFICES ASSUME NEW u \in Threads PROVE (tpc'[u] \in Crit) <=> (lock'[LockOf[u]] = u) OBVIOUS
      <3>1 CASE u = t BY <2>0, <3>1, LIn, Pos DEF Crit
      <3>2 CASE u # t
        <4>1 tpc'[u] = tpc[u] BY <2>0, <3>2
        <4>2 CASE LockOf[u] = LockOf[t]
          <5>1 lock'[LockOf[u]] = 0 BY <2>0, <4>2, LIn
          <5>2 lock[LockOf[u]] = t BY <2>0a, <4>2
          <5>3 ~(tpc[u] \in Crit) BY <5>2, <3>2
          <5> QED BY <4>1, <5>1, <5>3, Pos
        <4>3 CASE LockOf[u] # LockOf[t]
          <5>1 lock'[LockOf[u]] = lock[LockOf[u]] BY <2>0, <4>3, LIn
          <5> QED BY <4>1, <5>1
        <4> QED BY <4>2, <4>3
      <3> QED BY <3>1, <3>2
    <2>4 \A u \in Threads : tpc'[u] = "seeked" => hpos'[H(u)] = Off(u, ci'[u])
      BY <1>6, <2>0 DEF Release
    <2> QED BY <1>6, <2>1, <2>2, <2>3, <2>4 DEF Release
  <1>7 CASE UNCHANGED vars BY <1>7 DEF vars, LInv
  <1> QED BY <1>1, <1>2, <1>3, <1>4, <1>5, <1>6, <1>7 DEF Next

LEMMA InvServed == LInv => ServedIsWanted
  BY DEF LInv, ServedIsWanted
LEMMA InvMutex == LInv => MutualExclusion
  <1> SUFFICES ASSUME LInv, NEW a \in Threads, NEW b \in Threads, a # b, LockOf[a] = LockOf[b],
                      tpc[a] \in Crit, tpc[b] \in Crit PROVE FALSE
    BY DEF MutualExclusion, Crit
  <1>1 lock[LockOf[a]] = a /\ lock[LockOf[b]] = b BY DEF LInv
  <1> QED BY <1>1

THEOREM LockedSafe == Spec => [](ServedIsWanted /\ MutualExclusion)
  <1>1 Init => LInv BY InitInv
  <1>2 LInv /\ [Next]_vars => LInv' BY StepInv
  <1>3 LInv => ServedIsWanted /\ MutualExclusion BY InvServed, InvMutex
  <1> QED BY <1>1, <1>2, <1>3, PTL DEF Spec
=============================================================================
