SPECIFICATION Spec
CONSTANTS
  Images <- TwoImages
  Locs <- OneLoc
  Versions = {0, 1}
  Rpcs = {1, 2}
  Slots = {1}
  MaxOps = 6
  EnvRedeliver = TRUE
  EnvDamage = TRUE
  EnvCaches = TRUE
  EnvCacheDir = TRUE
  UserLoads = FALSE
  UserCopies = FALSE
  UseCli = TRUE
INVARIANT TypeOK
INVARIANT FailStop
INVARIANT MissingIsOSError
INVARIANT TrailerIrrelevant
INVARIANT NoConsultWhenDisabled
INVARIANT RefreshWorks
INVARIANT RepairAfterCreate
INVARIANT JudgedIsCurrent
INVARIANT UnjudgedHasCause
PROPERTY WritesOnlyWhenAsked
PROPERTY TreesKeepIdentity
CHECK_DEADLOCK FALSE
