SPECIFICATION Spec
CONSTANTS
  Years = {2014, 2016, 2019, 2020, 2024, 2048, 2049}
  Doys = {1, 2, 9, 10, 11, 19, 21, 29, 31, 32, 59, 60, 61, 182, 213, 274, 305, 315, 335, 345, 365, 366}
  Millis = {0, 1, 43200000, 86399999}
  Micros = {0, 999}
INVARIANT AllDecodersAgree
INVARIANT DayInMonth
INVARIANT LeapDay
INVARIANT LastDay
INVARIANT DateTextRoundTrip
INVARIANT CompactRoundTrip
INVARIANT Rollover
CHECK_DEADLOCK FALSE
