SPECIFICATION Spec
CONSTANTS
  Years = {2014, 2016, 2019, 2020, 2024, 2048, 2049}
  Doys = {1, 2, 59, 60, 61, 365, 366}
  Millis = {0, 1, 43200000, 86399999}
  Micros = {0, 7, 999}
INVARIANT AllDecodersAgree
INVARIANT DayInMonth
INVARIANT LeapDay
INVARIANT LastDay
CHECK_DEADLOCK FALSE
