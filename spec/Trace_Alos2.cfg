SPECIFICATION TSpec
CONSTANTS
  Images <- TwoImages
  Locs <- TwoLocs
  Versions = {0, 1}
  Rpcs = {1, 2, 3}
  Slots = {1, 2}
  MaxOps = 100000
  EnvRedeliver = TRUE
  EnvDamage = TRUE
  EnvCaches = TRUE
  EnvCacheDir = TRUE
  UserLoads = TRUE
  UserCopies = TRUE
  UseCli = TRUE
CHECK_DEADLOCK FALSE
