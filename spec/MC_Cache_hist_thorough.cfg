SPECIFICATION Spec
CONSTANTS
  Images = {"a", "b"}
  Procs = {1}
  Rpcs = {1, 2}
  B = 2
  MaxOps = 4
  AllowCrash = FALSE
  AllowEnv = TRUE
  TornIsMiss = TRUE
INVARIANT ResultIdeal
INVARIANT NoConsultWhenDisabled
INVARIANT SrcKnown
INVARIANT CacheWritesOnlyWhenAsked
PROPERTY RepairAfterCreate
CHECK_DEADLOCK FALSE
