-------------------------- MODULE CacheRuleProofs --------------------------
(***************************************************************************)
(* What follows from the cache rule alone, for ALL cell states (C07):      *)
(* with use_cache = FALSE nothing but the image is consulted; an index is  *)
(* only ever used when it is complete; the adjacent index is used only     *)
(* when there is no local one at all (a torn local index hides it); and an *)
(* open writes exactly when it was asked to and had to parse.              *)
(***************************************************************************)
EXTENDS CacheRule, TLAPS

CellStates == {"absent", "torn", "full"}

THEOREM SourceKnown == \A l, a \in CellStates, uc \in BOOLEAN : RuleSrc(l, a, uc) \in {"parse", "local", "adjacent"}
  BY DEF RuleSrc, CellStates
THEOREM NoConsultWhenDisabled == \A l, a \in CellStates : RuleSrc(l, a, FALSE) = "parse"
  BY DEF RuleSrc
THEOREM OnlyCompleteIndexes == \A l, a \in CellStates, uc \in BOOLEAN :
                                 /\ RuleSrc(l, a, uc) = "local" => (uc /\ l = "full")
                                 /\ RuleSrc(l, a, uc) = "adjacent" => (uc /\ a = "full" /\ l = "absent")
  BY DEF RuleSrc, CellStates
THEOREM UsableIsUsed == \A l, a \in CellStates : (l = "full" \/ (l = "absent" /\ a = "full")) => RuleSrc(l, a, TRUE) # "parse"
  BY DEF RuleSrc, CellStates
THEOREM WritesOnlyWhenAsked == \A l, a \in CellStates, uc, cc \in BOOLEAN : RuleWrites(l, a, uc, cc) => (cc /\ RuleSrc(l, a, uc) = "parse")
  BY DEF RuleWrites
=============================================================================
