------------------------------- MODULE Framing -------------------------------
(***************************************************************************)
(* Property C05 as a state machine over FileFormat.tla: a WRITER places     *)
(* record k+1 directly after record k using the lengths the file DECLARES;  *)
(* a READER consumes record after record with the parser's padding formulas.*)
(* CursorAligned: at every record boundary reader cursor = writer offset    *)
(* and no padding length is negative, for every admissible instance;        *)
(* inadmissible instances end with a negative pad (rejected).               *)
(***************************************************************************)
EXTENDS FileFormat

(* ======================= the state machine ======================= *)
CONSTANTS Cases          \* a set of <<file, params>> pairs; the MC module supplies the enumerated domains

VARIABLES case,      \* <<file, params>>
          plan,      \* evaluated once per case: record lengths (writer), consumption and pads (reader), admissibility
          k, wOff, rCur, padsOK

vars == <<case, plan, k, wOff, rCur, padsOK>>

Admissible(c) == LET recs == Records(c[1], c[2]) IN
                 WellFormed([i \in 1..Len(recs) |-> S("r", recs[i].fields)])

Plan(c) == LET recs == Records(c[1], c[2]) IN
           [ lens |-> [i \in 1..Len(recs) |-> recs[i].len],
             cons |-> [i \in 1..Len(recs) |-> Consume(c[1], c[2], recs, i)],
             adm  |-> Admissible(c),
             total |-> Total(recs) ]

Init == /\ case \in Cases
        /\ plan = Plan(case)
        /\ k = 1 /\ wOff = 0 /\ rCur = 0 /\ padsOK = TRUE

Step == /\ k <= Len(plan.lens)
        /\ rCur'   = rCur + plan.cons[k][1]
        /\ padsOK' = (padsOK /\ \A x \in plan.cons[k][2] : x >= 0)
        /\ wOff' = wOff + plan.lens[k]
        /\ k' = k + 1
        /\ UNCHANGED <<case, plan>>

Done == k > Len(plan.lens) /\ UNCHANGED vars

Next == Step \/ Done
Spec == Init /\ [][Next]_vars

CursorAligned        == plan.adm => (rCur = wOff /\ padsOK)
InadmissibleRejected == (~ plan.adm /\ k > Len(plan.lens)) => ~ padsOK
EndsAtTotal          == (plan.adm /\ k > Len(plan.lens)) => rCur = plan.total
======================= the state machine ======================= *)
CONSTANTS Cases          \* a set of <<file, params>> pairs; the MC module supplies the enumerated domains

VARIABLES case, k, wOff, rCur, padsOK

vars == <<case, k, wOff, rCur, padsOK>>

CaseRecs == Records(case[1], case[2])

Init == /\ case \in Cases
        /\ k = 1 /\ wOff = 0 /\ rCur = 0 /\ padsOK = TRUE

Step == /\ k <= Len(CaseRecs)
        /\ LET c == Consume(case[1], case[2], CaseRecs, k) IN
              /\ rCur'   = rCur + c[1]
              /\ padsOK' = (padsOK /\ \A x \in c[2] : x >= 0)
        /\ wOff' = wOff + CaseRecs[k].len
        /\ k' = k + 1
        /\ UNCHANGED case

Done == k > Len(CaseRecs) /\ UNCHANGED vars

Next == Step \/ Done
Spec == Init /\ [][Next]_vars

Admissible(c) == WellFormed([i \in 1..Len(Records(c[1], c[2])) |-> S("r", Records(c[1], c[2])[i].fields)])

CursorAligned == Admissible(case) => (rCur = wOff /\ padsOK)
InadmissibleRejected == (~ Admissible(case) /\ k > Len(CaseRecs)) => ~ padsOK
EndsAtTotal == (Admissible(case) /\ k > Len(CaseRecs)) => rCur = Total(CaseRecs)
=============================================================================
