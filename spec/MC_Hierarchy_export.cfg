SPECIFICATION Spec
CONSTANTS
  Names = {"a", "b"}
  MaxNodes = 7
  MaxOps = 2
INVARIANT PathConsistent
INVARIANT Export
CHECK_DEADLOCK FALSE
