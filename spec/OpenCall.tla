------------------------------ MODULE OpenCall ------------------------------
(***************************************************************************)
(* The top-level pipeline of open_alos2 (io.py open):                      *)
(*   summary.txt -> volume directory -> SAR leader -> image 1 .. image k   *)
(*   -> assemble /summary /metadata /imagery -> return                     *)
(* with its failure modes (C18: a missing or truncated component file),    *)
(* and what the returned tree contains (C13: exactly one group per image   *)
(* in summary order, named by polarisation and scan, each owning its own   *)
(* file; /metadata = the record groups present in the leader; the trailer  *)
(* is never touched).                                                      *)
(*                                                                         *)
(* Byte positions of the leader / volume-directory truncation points come  *)
(* from FileFormat (record boundaries and +-1).                            *)
(***************************************************************************)
EXTENDS FileFormat, FiniteSets

CONSTANTS NoFaults,    \* BOOLEAN: explore only the fault-free pipeline (tree assembly, C13)
          Products,    \* set of product descriptions [imgs : Seq([pol, scan]), nmap : 0..1]
                       \* scan = "" for stripmap products, else e.g. "F3"
          StoreKinds,  \* how the store reports an object that is not there when a FILE is opened: "dir" (FileNotFoundError: local
                       \* directories, object stores), "deny" (PermissionError: no list permission), "mapping" (KeyError: zip / tar archives)
          TranslateImageKeyError   \* BOOLEAN: open_image turns that KeyError into FileNotFoundError (FALSE = the code before fix 7ac6177)

VARIABLES prod,        \* the product being opened
          store,       \* the kind of store the product lies in
          fault,       \* [file, kind, cut]  kind \in {"none", "missing", "truncated"}; cut = served length
          pc, idx, touched, groups, meta, outcome

vars == <<prod, store, fault, pc, idx, touched, groups, meta, outcome>>

K(p) == Len(p.imgs)
ImgFile(i) == "img" \o ToString(i)
Files(p) == {"summary", "vol", "led", "trl"} \cup { ImgFile(i) : i \in 1..K(p) }

LedParams(p) == [nmap |-> p.nmap, np |-> 3, attlen |-> 16384, nch |-> 2, f1 |-> 66, f2 |-> 100, f3 |-> 200, f4 |-> 300]
VolParams(p) == [nfp |-> K(p) + 2]

Boundaries(recs) == { Start(recs, k) : k \in 1..Len(recs) }
CutsOf(recs) == ( Boundaries(recs) \cup { b + 1 : b \in Boundaries(recs) } \cup { b - 1 : b \in Boundaries(recs) }
                  \cup { Total(recs) - 1 } ) \cap (0 .. Total(recs) - 1)

NoFault == [file |-> "none", kind |-> "none", cut |-> 0]
Faults(p) ==
       { NoFault }
  \cup { [file |-> f, kind |-> "missing", cut |-> 0] : f \in Files(p) }
  \cup { [file |-> "led", kind |-> "truncated", cut |-> c] : c \in CutsOf(LeaderRecords(LedParams(p))) }
  \cup { [file |-> "vol", kind |-> "truncated", cut |-> c] : c \in CutsOf(VolumeRecords(VolParams(p))) }
  \cup { [file |-> ImgFile(i), kind |-> "truncated", cut |-> -1] : i \in 1..K(p) }   \* byte grain: ImageIO.tla

GroupName(im) == IF im.scan = "" THEN im.pol ELSE im.pol \o "_scan" \o SubSeq(im.scan, 2, 2)
MetaGroups(p) == {"dataset_summary", "platform_position", "attitude", "radiometric_data", "data_quality_summary",
                  "transformations"} \cup (IF p.nmap = 1 THEN {"map_projection"} ELSE {})

Init == /\ prod \in Products
        /\ store \in StoreKinds
        /\ fault \in (IF NoFaults THEN {NoFault} ELSE Faults(prod))
        /\ pc = "summary" /\ idx = 1 /\ touched = {} /\ groups = << >> /\ meta = {} /\ outcome = "pending"

Bad(f)  == fault.file = f /\ fault.kind # "none"
Stage(f, next) ==
    /\ touched' = touched \cup {f}
    /\ IF Bad(f)
       THEN /\ outcome' = IF fault.kind = "missing" THEN "OSError" ELSE "error"
            /\ pc' = "done"
       ELSE /\ pc' = next /\ UNCHANGED outcome

\* summary, volume directory and leader are fetched through the MAPPER: whatever the store, a missing key is a KeyError there, and each of
\* the three readers turns it into an OSError.  Image files are OPENED through the file system: what a missing file raises is the store's
\* business (ImageMissingSignal) -- only the mapping-like stores need a translation.
ImageMissingSignal == IF store = "mapping" /\ ~TranslateImageKeyError THEN "KeyError" ELSE "OSError"
ReadSummary == pc = "summary" /\ Stage("summary", "vol") /\ UNCHANGED <<prod, store, fault, idx, groups, meta>>
ReadVolDir  == pc = "vol" /\ Stage("vol", "led") /\ UNCHANGED <<prod, store, fault, idx, groups, meta>>
ReadLeader  == /\ pc = "led" /\ Stage("led", "img")
               /\ meta' = IF Bad("led") THEN meta ELSE MetaGroups(prod)
               /\ UNCHANGED <<prod, store, fault, idx, groups>>
OpenImage   == /\ pc = "img" /\ idx <= K(prod)
               /\ touched' = touched \cup {ImgFile(idx)}
               /\ IF Bad(ImgFile(idx))
                  THEN /\ outcome' = IF fault.kind = "missing" THEN ImageMissingSignal ELSE "error"
                       /\ pc' = "done" /\ UNCHANGED <<groups, idx>>
                  ELSE /\ groups' = Append(groups, [name |-> GroupName(prod.imgs[idx]), file |-> ImgFile(idx)])
                       /\ idx' = idx + 1 /\ UNCHANGED <<outcome, pc>>
               /\ UNCHANGED <<prod, store, fault, meta>>
Assemble    == /\ pc = "img" /\ idx = K(prod) + 1
               /\ pc' = "return" /\ UNCHANGED <<prod, store, fault, idx, touched, groups, meta, outcome>>
Return      == /\ pc = "return"
               /\ outcome' = "tree" /\ pc' = "done"
               /\ UNCHANGED <<prod, store, fault, idx, touched, groups, meta>>
Done        == pc = "done" /\ UNCHANGED vars

Next == ReadSummary \/ ReadVolDir \/ ReadLeader \/ OpenImage \/ Assemble \/ Return \/ Done
Spec == Init /\ [][Next]_vars /\ WF_vars(Next)

\* ---- C18
FailStopFiles    == outcome = "tree" => (fault.kind = "none" \/ fault.file = "trl")
MissingIsOSError == (pc = "done" /\ fault.kind = "missing" /\ fault.file # "trl") => outcome = "OSError"
NoTrailerAccess  == "trl" \notin touched
Terminates       == <>(pc = "done")
\* ---- C13
DistinctNames(p) == \A i, j \in 1..K(p) : i # j => GroupName(p.imgs[i]) # GroupName(p.imgs[j])
\* the three children of the root, in this order; imagery children in summary order
RootChildren     == <<"summary", "metadata", "imagery">>
ExactlyKGroups   == outcome = "tree" => /\ Len(groups) = K(prod)
                                        /\ \A i \in 1..K(prod) : groups[i].name = GroupName(prod.imgs[i])
GroupOwnsItsFile == outcome = "tree" => \A i \in 1..K(prod) : groups[i].file = ImgFile(i)
MetaMatchesLeader == outcome = "tree" => meta = MetaGroups(prod)
=============================================================================
