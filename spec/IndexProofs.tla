---------------------------- MODULE IndexProofs ----------------------------
(***************************************************************************)
(* Machine-checked proofs (TLAPS) about the slice semantics of PyIndex.tla *)
(* for ALL axis lengths and ALL start / stop / step values (property C02:  *)
(* "slices with any start/stop/step including negative steps and empty     *)
(* results"): the clamped bounds lie in the ranges CPython guarantees and  *)
(* every selected position lies on the axis.  TLC evaluates the same       *)
(* definitions exhaustively for n <= 4 (5); the proofs remove the bound.   *)
(* The definitions are repeated verbatim from PyIndex.tla (tlapm cannot    *)
(* load its RECURSIVE operators); the harness compares the texts.          *)
(***************************************************************************)
EXTENDS Integers, TLAPS

Clamp(v, s, n) == IF v < 0 THEN (IF v + n < 0 THEN (IF s > 0 THEN 0 ELSE -1) ELSE v + n)
                  ELSE IF v >= n THEN (IF s > 0 THEN n ELSE n - 1) ELSE v
Count(lo, hi, s) == IF s > 0 THEN (IF lo < hi THEN (hi - lo - 1) \div s + 1 ELSE 0)
                             ELSE (IF hi < lo THEN (lo - hi - 1) \div (-s) + 1 ELSE 0)

LEMMA DivDef == \A a \in Int, b \in Nat \ {0} : b * (a \div b) <= a /\ a < b * (a \div b) + b
  OBVIOUS
LEMMA DivInt == \A a \in Int, b \in Nat \ {0} : a \div b \in Int
  OBVIOUS
LEMMA MulMono == \A a \in Nat, x \in Int, y \in Int : x <= y => a * x <= a * y
  OBVIOUS

THEOREM ClampRange == \A n \in Nat \ {0}, v \in Int, s \in Int \ {0} :
                         /\ s > 0 => Clamp(v, s, n) \in 0 .. n
                         /\ s < 0 => Clamp(v, s, n) \in -1 .. n - 1
  BY DEF Clamp

\* positive step: every selected position is on the axis
THEOREM ProgPos == \A n \in Nat \ {0} : \A lo \in 0 .. n, hi \in 0 .. n, s \in Nat \ {0} :
                      \A k \in 1 .. Count(lo, hi, s) : lo + (k - 1) * s \in 0 .. n - 1
<1> TAKE n \in Nat \ {0}
<1> TAKE lo \in 0 .. n, hi \in 0 .. n, s \in Nat \ {0}
<1> TAKE k \in 1 .. Count(lo, hi, s)
<1>1. CASE ~(lo < hi)
  <2>1. Count(lo, hi, s) = 0
    BY <1>1 DEF Count
  <2> QED
    BY <2>1
<1>2. CASE lo < hi
  <2> DEFINE q == (hi - lo - 1) \div s
  <2>1. q \in Int /\ s * q <= hi - lo - 1
    BY DivDef, DivInt
  <2>2. Count(lo, hi, s) = q + 1
    BY <1>2 DEF Count
  <2>3. k - 1 \in Int /\ 0 <= k - 1 /\ k - 1 <= q
    BY <2>1, <2>2
  <2>4. s * (k - 1) <= s * q /\ s * 0 <= s * (k - 1)
    BY <2>1, <2>3, MulMono
  <2>5. (k - 1) * s = s * (k - 1) /\ s * 0 = 0 /\ s * (k - 1) \in Int /\ s * q \in Int
    BY <2>1, <2>3
  <2> QED
    BY <2>1, <2>4, <2>5
<1> QED
  BY <1>1, <1>2

\* a slice never selects more positions than the axis has (positive step; the negative case is symmetric)
THEOREM CountBound == \A n \in Nat \ {0} : \A lo \in 0 .. n, hi \in 0 .. n, s \in Nat \ {0} : Count(lo, hi, s) \in 0 .. n
<1> TAKE n \in Nat \ {0}
<1> TAKE lo \in 0 .. n, hi \in 0 .. n, s \in Nat \ {0}
<1>1. CASE ~(lo < hi)
  BY <1>1 DEF Count
<1>2. CASE lo < hi
  <2> DEFINE q == (hi - lo - 1) \div s
  <2>1. q \in Int /\ s * q <= hi - lo - 1 /\ hi - lo - 1 < s * q + s
    BY DivDef, DivInt
  <2>2. q >= 0
    <3> SUFFICES ASSUME q <= -1 PROVE FALSE
      BY <2>1
    <3>1. s * q <= s * (-1)
      BY <2>1, MulMono
    <3>2. s * (-1) = -s /\ s * q \in Int
      BY <2>1
    <3>3. s * q + s <= 0
      BY <3>1, <3>2
    <3>4. hi - lo - 1 >= 0 /\ hi - lo - 1 \in Int
      BY <1>2
    <3> QED
      BY <2>1, <3>2, <3>3, <3>4
  <2>3. q * 1 <= q * s
    BY <2>1, <2>2, MulMono
  <2>4. q * 1 = q /\ q * s = s * q /\ s * q \in Int
    BY <2>1
  <2>5. Count(lo, hi, s) = q + 1
    BY <1>2 DEF Count
  <2> QED
    BY <2>1, <2>2, <2>3, <2>4, <2>5
<1> QED
  BY <1>1, <1>2

\* negative step s = -t
THEOREM ProgNeg == \A n \in Nat \ {0} : \A lo \in -1 .. n - 1, hi \in -1 .. n - 1, t \in Nat \ {0} :
                      \A k \in 1 .. Count(lo, hi, -t) : lo + (k - 1) * (-t) \in 0 .. n - 1
<1> TAKE n \in Nat \ {0}
<1> TAKE lo \in -1 .. n - 1, hi \in -1 .. n - 1, t \in Nat \ {0}
<1> TAKE k \in 1 .. Count(lo, hi, -t)
<1>0. ~(-t > 0) /\ -(-t) = t
  OBVIOUS
<1>1. CASE ~(hi < lo)
  <2>1. Count(lo, hi, -t) = 0
    BY <1>0, <1>1 DEF Count
  <2> QED
    BY <2>1
<1>2. CASE hi < lo
  <2> DEFINE q == (lo - hi - 1) \div t
  <2>1. q \in Int /\ t * q <= lo - hi - 1
    BY DivDef, DivInt
  <2>2. Count(lo, hi, -t) = q + 1
    BY <1>0, <1>2 DEF Count
  <2>3. k - 1 \in Int /\ 0 <= k - 1 /\ k - 1 <= q
    BY <2>1, <2>2
  <2>4. t * (k - 1) <= t * q /\ t * 0 <= t * (k - 1)
    BY <2>1, <2>3, MulMono
  <2>5. (k - 1) * (-t) = -(t * (k - 1)) /\ t * 0 = 0 /\ t * (k - 1) \in Int /\ t * q \in Int
    BY <2>1, <2>3
  <2> QED
    BY <2>1, <2>4, <2>5
<1> QED
  BY <1>1, <1>2
=============================================================================
