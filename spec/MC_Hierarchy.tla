---------------------------- MODULE MC_Hierarchy ----------------------------
EXTENDS Hierarchy, Json
\* every complete history is handed to the conformance harness with the projection the specification expects after each step
Export == ops < MaxOps \/ PrintT(ToJson(hist))
Depth == TLCGet("level") <= MaxOps + 1
=============================================================================
