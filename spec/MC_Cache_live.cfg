SPECIFICATION FairSpec
CONSTANTS
  Images = {"a"}
  Procs = {1, 2}
  Rpcs = {1}
  B = 2
  MaxOps = 3
  AllowCrash = FALSE
  AllowEnv = FALSE
  TornIsMiss = TRUE
PROPERTY EventuallyQuiet
CHECK_DEADLOCK FALSE
