SPECIFICATION Spec
CONSTANTS
  Names = {"a", "b"}
  MaxNodes = 7
  MaxOps = 3
INVARIANT TypeOK
INVARIANT ItemsMatch
INVARIANT PathConsistent
INVARIANT UrlInherited
INVARIANT WalkComplete
INVARIANT WalkInOrder
INVARIANT NamesUnique
PROPERTY LocalChange
CHECK_DEADLOCK FALSE
