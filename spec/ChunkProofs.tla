---------------------------- MODULE ChunkProofs ----------------------------
(***************************************************************************)
(* Machine-checked proofs (TLAPS: SMT / Zenon / Isabelle back ends) of the  *)
(* chunk arithmetic of Chunking.tla for ALL line counts and ALL positive    *)
(* records_per_chunk -- the unbounded counterpart of the ASSUME grid that   *)
(* TLC evaluates for n <= 40, rpc <= 44 (properties C01, C06, C11: "for any *)
(* image size, any positive records_per_chunk").                            *)
(* tlapm cannot load Chunking.tla (RECURSIVE operators over sequences), so   *)
(* the six arithmetic definitions are repeated here verbatim; the harness   *)
(* (checks/C06.py) refuses to run if their text differs from Chunking.tla.  *)
(***************************************************************************)
EXTENDS Integers, TLAPS

Min(a, b) == IF a < b THEN a ELSE b
CeilDiv(a, b) == (a + b - 1) \div b
NChunks(n, rpc)      == CeilDiv(n, rpc)
ChunkSize(n, rpc, i) == IF rpc * (i + 1) <= n THEN rpc ELSE n - rpc * i       \* i = 0 .. NChunks-1
SumFast(n, rpc, i)   == Min(n, rpc * i)                                       \* closed form (ASSUMEd equal below)
NormRpc(rpc, n) == IF rpc > n THEN n ELSE rpc                                 \* normalize_chunksize

\* the defining property of integer division by a positive number
LEMMA DivDef == \A a \in Int, b \in Nat \ {0} : b * (a \div b) <= a /\ a < b * (a \div b) + b
  OBVIOUS

LEMMA MulMono == \A a \in Nat, x \in Int, y \in Int : x <= y => a * x <= a * y
  OBVIOUS

LEMMA DivUnique == \A a \in Int, b \in Nat \ {0}, q \in Int : (b * q <= a /\ a < b * q + b) => a \div b = q
<1> TAKE a \in Int, b \in Nat \ {0}, q \in Int
<1>0. HAVE b * q <= a /\ a < b * q + b
<1> DEFINE d == a \div b
<1>1. d \in Int /\ b * d <= a /\ a < b * d + b
  BY DivDef
<1>2. q <= d
  <2> SUFFICES ASSUME q >= d + 1 PROVE FALSE
    BY <1>1
  <2>1. b * (d + 1) <= b * q
    BY <1>1, MulMono
  <2>2. b * (d + 1) = b * d + b
    BY <1>1
  <2>3. b * d + b <= b * q
    BY <2>1, <2>2
  <2>4. b * q <= a /\ a < b * d + b
    BY <1>0, <1>1
  <2>5. b * q \in Int /\ b * d \in Int
    BY <1>1
  <2> QED
    BY <2>3, <2>4, <2>5
<1>3. d <= q
  <2> SUFFICES ASSUME d >= q + 1 PROVE FALSE
    BY <1>1
  <2>0. q + 1 \in Int /\ d \in Int /\ b \in Nat /\ q + 1 <= d
    BY <1>1
  <2>1. b * (q + 1) <= b * d
    BY <2>0, MulMono
  <2>2. b * (q + 1) = b * q + b
    OBVIOUS
  <2>3. b * q + b <= b * d
    BY <2>1, <2>2
  <2>4. b * d <= a /\ a < b * q + b
    BY <1>0, <1>1
  <2>5. b * q \in Int /\ b * d \in Int
    BY <1>1
  <2> QED
    BY <2>3, <2>4, <2>5
<1> QED
  BY <1>1, <1>2, <1>3

THEOREM Cover == \A n \in Nat \ {0}, rpc \in Nat \ {0} : rpc * NChunks(n, rpc) >= n /\ rpc * (NChunks(n, rpc) - 1) < n
  BY DivDef DEF NChunks, CeilDiv

THEOREM SumAll == \A n \in Nat \ {0}, rpc \in Nat \ {0} : SumFast(n, rpc, NChunks(n, rpc)) = n
  BY Cover DEF SumFast, Min

THEOREM SizesInRange == \A n \in Nat \ {0}, rpc \in Nat \ {0} : \A i \in 0 .. NChunks(n, rpc) - 1 : ChunkSize(n, rpc, i) \in 1 .. rpc
<1> TAKE n \in Nat \ {0}, rpc \in Nat \ {0}
<1> TAKE i \in 0 .. NChunks(n, rpc) - 1
<1>0. NChunks(n, rpc) \in Int
  BY DEF NChunks, CeilDiv
<1>1. rpc * i <= rpc * (NChunks(n, rpc) - 1)
  BY <1>0, MulMono
<1>2. rpc * (NChunks(n, rpc) - 1) < n
  BY Cover
<1>3. rpc * i < n
  BY <1>0, <1>1, <1>2
<1>4. rpc * (i + 1) = rpc * i + rpc
  OBVIOUS
<1> QED
  BY <1>3, <1>4 DEF ChunkSize

\* the advertised chunk (normalize_chunksize) yields the same grouping as the raw value
THEOREM NormSame == \A n \in Nat \ {0}, rpc \in Nat \ {0} : NChunks(n, rpc) = NChunks(n, NormRpc(rpc, n))
<1> TAKE n \in Nat \ {0}, rpc \in Nat \ {0}
<1>1. CASE rpc <= n
  BY <1>1 DEF NormRpc
<1>2. CASE rpc > n
  <2>1. NormRpc(rpc, n) = n
    BY <1>2 DEF NormRpc
  <2>2. (n + n - 1) \div n = 1
    <3>1. n * 1 <= n + n - 1 /\ n + n - 1 < n * 1 + n
      OBVIOUS
    <3> QED
      BY <3>1, DivUnique
  <2>3. (n + rpc - 1) \div rpc = 1
    <3>1. rpc * 1 <= n + rpc - 1 /\ n + rpc - 1 < rpc * 1 + rpc
      BY <1>2
    <3> QED
      BY <3>1, DivUnique
  <2> QED
    BY <2>1, <2>2, <2>3 DEF NChunks, CeilDiv
<1> QED
  BY <1>1, <1>2
\* every line belongs to a group of the metadata pass / of the loads (C11: "one request per touched group")
THEOREM RowInChunk == \A n \in Nat \ {0}, rpc \in Nat \ {0} : \A r \in 0 .. n - 1 : (r \div rpc) \in 0 .. NChunks(n, rpc) - 1
<1> TAKE n \in Nat \ {0}, rpc \in Nat \ {0}
<1> TAKE r \in 0 .. n - 1
<1> DEFINE d == r \div rpc
<1> DEFINE k == NChunks(n, rpc)
<1>1. d \in Int /\ rpc * d <= r /\ r < rpc * d + rpc
  BY DivDef
<1>2. k \in Int /\ rpc * k >= n
  BY Cover DEF NChunks, CeilDiv
<1>3. d < k
  <2> SUFFICES ASSUME d >= k PROVE FALSE
    BY <1>1, <1>2
  <2>1. rpc * k <= rpc * d
    BY <1>1, <1>2, MulMono
  <2>2. rpc * k \in Int /\ rpc * d \in Int
    BY <1>1, <1>2
  <2> QED
    BY <1>1, <1>2, <2>1, <2>2
<1>4. d >= 0
  <2> SUFFICES ASSUME d <= -1 PROVE FALSE
    BY <1>1
  <2>1. rpc * d <= rpc * (-1)
    BY <1>1, MulMono
  <2>2. rpc * d \in Int /\ rpc * (-1) = -rpc
    BY <1>1
  <2> QED
    BY <1>1, <2>1, <2>2
<1> QED
  BY <1>1, <1>2, <1>3, <1>4
=============================================================================
