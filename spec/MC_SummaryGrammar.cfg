SPECIFICATION Spec
CONSTANT MaxLines = 3
INVARIANT OrderIndependent
INVARIANT ErrorSetExact
CHECK_DEADLOCK FALSE
