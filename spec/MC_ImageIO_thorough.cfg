SPECIFICATION Spec
CONSTANTS
  MaxN = 6
  MaxP = 2
  MaxRpc = 8
  PrefixLens = {192, 544}
  SampleSizes = {2, 8}
INVARIANT RangesExact
INVARIANT CellsExact
INVARIANT FailStop
INVARIANT Total
INVARIANT EncodingChunk
INVARIANT EnvAccepts
INVARIANT OrderKept
CHECK_DEADLOCK FALSE
