------------------------------- MODULE Cache -------------------------------
(***************************************************************************)
(* Life-cycle of the per-image JSON index cache (properties C07, C09, C10):*)
(* two cells per image -- `local` (user cache dir, keyed by the hash of    *)
(* the product root) and `adjacent` (<image>.index next to the image) --   *)
(* written by open_alos2(create_cache=True) (local only) and by the CLI    *)
(* (adjacent), read by open_alos2(use_cache=True), deleted or torn by the  *)
(* environment.  One action per linearisation point of                     *)
(* sar_image/__init__.py open_image, caching/__init__.py read_cache /      *)
(* create_cache and cli.py create_cache.                                   *)
(*                                                                         *)
(* A cell is a file of B blocks: exists + which blocks currently hold the  *)
(* bytes of the complete document.  `Trunc` empties it, `WriteBlk` fills   *)
(* one block, a crash leaves whatever was written (a prefix), a second     *)
(* writer truncating under a first one leaves a hole.  A cell is USABLE    *)
(* iff it exists and every block is written.  A reader that finds an       *)
(* existing but unusable cell must treat it as a miss (C09); the constant  *)
(* TornIsMiss = FALSE models the defective alternative (the decode error   *)
(* escapes) so that TLC can show the model is able to express the bug.     *)
(***************************************************************************)
EXTENDS Integers, Sequences, FiniteSets, TLC

CONSTANTS Images,        \* e.g. {"a", "b"}
          Procs,         \* e.g. {1} (histories) or {1, 2} (crash / concurrent writer)
          Rpcs,          \* records_per_chunk values, e.g. {1, 2}
          B,             \* blocks per index document
          MaxOps,        \* bound on the number of operations started (history length)
          AllowCrash,    \* BOOLEAN: processes may die at any point
          AllowEnv,      \* BOOLEAN: environment may delete / tear cells between operations
          TornIsMiss     \* BOOLEAN: TRUE = the design (unusable cache ignored); FALSE = decode error escapes

VARIABLES local, adjacent,     \* [Images -> cell]
          proc,                \* [Procs -> process state]
          ops,                 \* operations started so far
          results,             \* set of finished calls: [p, opts, kind, src]
          prodWrites, cacheWrites  \* sets of <<writer kind, cell, image>>: who wrote where (C10)

vars == <<local, adjacent, proc, ops, results, prodWrites, cacheWrites>>

Blocks == 1..B
Absent == [exists |-> FALSE, blk |-> [b \in Blocks |-> FALSE]]
Full   == [exists |-> TRUE,  blk |-> [b \in Blocks |-> TRUE]]
Usable(c)      == c.exists /\ \A b \in Blocks : c.blk[b]
Truncated(c)   == [exists |-> TRUE, blk |-> [b \in Blocks |-> FALSE]]
WithBlk(c, b)  == [c EXCEPT !.blk[b] = TRUE]
TornCells      == { [exists |-> TRUE, blk |-> [b \in Blocks |-> b <= k]] : k \in 0..B-1 }   \* every strict prefix

ImgSeq == CHOOSE s \in [1..Cardinality(Images) -> Images] : \A i, j \in 1..Cardinality(Images) : i # j => s[i] # s[j]
K == Cardinality(Images)

Idle == [pc |-> "idle", kind |-> "none", uc |-> FALSE, cc |-> FALSE, rpc |-> 0, i |-> 1, wb |-> 1,
         src |-> [m \in Images |-> "none"], failed |-> FALSE, snap |-> Absent]

Init == /\ local = [m \in Images |-> Absent] /\ adjacent = [m \in Images |-> Absent]
        /\ proc = [p \in Procs |-> Idle]
        /\ ops = 0 /\ results = {} /\ prodWrites = {} /\ cacheWrites = {}

Cur(p) == ImgSeq[proc[p].i]

\* ------------------------------------------------------------------ open_alos2
BeginOpen(p, uc, cc, rpc) ==
    /\ proc[p].pc = "idle" /\ ops < MaxOps
    /\ proc' = [proc EXCEPT ![p] = [Idle EXCEPT !.pc = IF uc THEN "isfile" ELSE "parse", !.kind = "open",
                                                !.uc = uc, !.cc = cc, !.rpc = rpc]]
    /\ ops' = ops + 1
    /\ UNCHANGED <<local, adjacent, results, prodWrites, cacheWrites>>

\* read_cache: local.is_file()
IsFileLocal(p) ==
    /\ proc[p].pc = "isfile"
    /\ proc' = [proc EXCEPT ![p].pc = IF local[Cur(p)].exists THEN "readlocal" ELSE "inmapper"]
    /\ UNCHANGED <<local, adjacent, ops, results, prodWrites, cacheWrites>>

Decode(p, cell, where) ==
    IF Usable(cell)
    THEN proc' = [proc EXCEPT ![p].src[Cur(p)] = where, ![p].pc = "nextimg"]
    ELSE IF TornIsMiss THEN proc' = [proc EXCEPT ![p].pc = "parse"]
         ELSE proc' = [proc EXCEPT ![p].failed = TRUE, ![p].pc = "finish"]

\* local.read_text() + decode (the file may have changed since is_file)
ReadLocal(p) ==
    /\ proc[p].pc = "readlocal"
    /\ IF local[Cur(p)].exists THEN Decode(p, local[Cur(p)], "local")
       ELSE proc' = [proc EXCEPT ![p].pc = "parse"]
    /\ UNCHANGED <<local, adjacent, ops, results, prodWrites, cacheWrites>>

\* `remote in mapper` and mapper[remote] + decode
ReadAdjacent(p) ==
    /\ proc[p].pc = "inmapper"
    /\ IF adjacent[Cur(p)].exists THEN Decode(p, adjacent[Cur(p)], "adjacent")
       ELSE proc' = [proc EXCEPT ![p].pc = "parse"]
    /\ UNCHANGED <<local, adjacent, ops, results, prodWrites, cacheWrites>>

\* read_metadata + transform_metadata (the whole metadata pass of ImageIO.tla)
Parse(p) ==
    /\ proc[p].pc = "parse"
    /\ proc' = [proc EXCEPT ![p].src[Cur(p)] = "parse",
                            ![p].pc = IF proc[p].cc /\ proc[p].kind = "open" THEN "mkdir"
                                      ELSE IF proc[p].kind = "cli" THEN "trunc" ELSE "nextimg"]
    /\ UNCHANGED <<local, adjacent, ops, results, prodWrites, cacheWrites>>

Mkdir(p) ==
    /\ proc[p].pc = "mkdir"
    /\ proc' = [proc EXCEPT ![p].pc = "trunc"]
    /\ UNCHANGED <<local, adjacent, ops, results, prodWrites, cacheWrites>>

\* write_text: open(O_TRUNC) then write; open_alos2 writes the LOCAL cell, the CLI the ADJACENT one
Trunc(p) ==
    /\ proc[p].pc = "trunc"
    /\ IF proc[p].kind = "open"
       THEN /\ local' = [local EXCEPT ![Cur(p)] = Truncated(@)]
            /\ cacheWrites' = cacheWrites \cup {<<"open", Cur(p)>>}
            /\ UNCHANGED <<adjacent, prodWrites>>
       ELSE /\ adjacent' = [adjacent EXCEPT ![Cur(p)] = Truncated(@)]
            /\ prodWrites' = prodWrites \cup {<<"cli", Cur(p)>>}
            /\ UNCHANGED <<local, cacheWrites>>
    /\ proc' = [proc EXCEPT ![p].pc = "write", ![p].wb = 1]
    /\ UNCHANGED <<ops, results>>

WriteBlk(p) ==
    /\ proc[p].pc = "write"
    /\ IF proc[p].kind = "open"
       THEN local' = [local EXCEPT ![Cur(p)] = WithBlk([@ EXCEPT !.exists = TRUE], proc[p].wb)] /\ UNCHANGED adjacent
       ELSE adjacent' = [adjacent EXCEPT ![Cur(p)] = WithBlk([@ EXCEPT !.exists = TRUE], proc[p].wb)] /\ UNCHANGED local
    /\ proc' = [proc EXCEPT ![p].wb = @ + 1, ![p].pc = IF proc[p].wb = B THEN "nextimg" ELSE "write"]
    /\ UNCHANGED <<ops, results, prodWrites, cacheWrites>>

NextImage(p) ==
    /\ proc[p].pc = "nextimg"
    /\ IF proc[p].kind = "cli" \/ proc[p].i = K
       THEN proc' = [proc EXCEPT ![p].pc = "finish"]
       ELSE proc' = [proc EXCEPT ![p].i = @ + 1, ![p].pc = IF proc[p].uc THEN "isfile" ELSE "parse"]
    /\ UNCHANGED <<local, adjacent, ops, results, prodWrites, cacheWrites>>

Finish(p) ==
    /\ proc[p].pc = "finish"
    /\ results' = results \cup {[p |-> p, kind |-> proc[p].kind, uc |-> proc[p].uc, cc |-> proc[p].cc, rpc |-> proc[p].rpc,
                                 outcome |-> IF proc[p].failed THEN "error" ELSE "ideal", src |-> proc[p].src]}
    /\ proc' = [proc EXCEPT ![p] = Idle]
    /\ UNCHANGED <<local, adjacent, ops, prodWrites, cacheWrites>>

\* ------------------------------------------------------------------ ceos-alos2-create-cache <image>
BeginCli(p, m, rpc) ==
    /\ proc[p].pc = "idle" /\ ops < MaxOps
    /\ proc' = [proc EXCEPT ![p] = [Idle EXCEPT !.pc = "parse", !.kind = "cli", !.rpc = rpc,
                                                !.i = CHOOSE k \in 1..K : ImgSeq[k] = m]]
    /\ ops' = ops + 1
    /\ UNCHANGED <<local, adjacent, results, prodWrites, cacheWrites>>

\* ------------------------------------------------------------------ faults and environment
Crash(p) ==
    /\ AllowCrash /\ proc[p].pc # "idle"
    /\ proc' = [proc EXCEPT ![p] = Idle]
    /\ UNCHANGED <<local, adjacent, ops, results, prodWrites, cacheWrites>>

Quiet == \A p \in Procs : proc[p].pc = "idle"
EnvDelete(m, which) ==
    /\ AllowEnv /\ Quiet /\ ops < MaxOps
    /\ IF which = "local" THEN local' = [local EXCEPT ![m] = Absent] /\ UNCHANGED adjacent
       ELSE adjacent' = [adjacent EXCEPT ![m] = Absent] /\ UNCHANGED local
    /\ ops' = ops + 1 /\ UNCHANGED <<proc, results, prodWrites, cacheWrites>>
EnvTear(m, which, c) ==
    /\ AllowEnv /\ Quiet /\ ops < MaxOps
    /\ IF which = "local" THEN local' = [local EXCEPT ![m] = c] /\ UNCHANGED adjacent
       ELSE adjacent' = [adjacent EXCEPT ![m] = c] /\ UNCHANGED local
    /\ ops' = ops + 1 /\ UNCHANGED <<proc, results, prodWrites, cacheWrites>>

Step(p) == \/ IsFileLocal(p) \/ ReadLocal(p) \/ ReadAdjacent(p) \/ Parse(p) \/ Mkdir(p) \/ Trunc(p) \/ WriteBlk(p)
           \/ NextImage(p) \/ Finish(p)

Next == \/ \E p \in Procs : \/ Step(p) \/ Crash(p)
                            \/ \E uc, cc \in BOOLEAN, r \in Rpcs : BeginOpen(p, uc, cc, r)
                            \/ \E m \in Images, r \in Rpcs : BeginCli(p, m, r)
        \/ \E m \in Images, w \in {"local", "adjacent"} : EnvDelete(m, w) \/ \E c \in TornCells : EnvTear(m, w, c)

Spec     == Init /\ [][Next]_vars
FairSpec == Spec /\ \A p \in Procs : WF_vars(Step(p))

\* ------------------------------------------------------------------ properties
\* C07 / C09 / C10: every finished open returned the ideal tree for ITS OWN rpc (never an error)
ResultIdeal == \A r \in results : r.kind = "open" => r.outcome = "ideal"
\* C07: with use_cache = FALSE no cache is consulted: every image was parsed
NoConsultWhenDisabled == \A r \in results : (r.kind = "open" /\ ~r.uc) => \A m \in Images : r.src[m] = "parse"
\* C07: a cache is used only if it was usable at the moment it was read; a cached image is not re-parsed
SrcKnown == \A r \in results : r.kind = "open" => \A m \in Images : r.src[m] \in {"parse", "local", "adjacent"}
\* C10: an open writes index files only into the user cache dir and only when asked; only the CLI writes next to the image
CacheWritesOnlyWhenAsked ==
    /\ \A p \in Procs : proc[p].pc \in {"mkdir", "trunc", "write"} /\ proc[p].kind = "open" => proc[p].cc
    /\ \A w \in prodWrites : w[1] = "cli"
    /\ \A w \in cacheWrites : w[1] = "open"
\* C09: after a crash-free open with create_cache, the local cells are usable again (checked as an action property)
RepairAfterCreate == [][\A p \in Procs : (proc[p].pc = "finish" /\ proc[p].kind = "open" /\ proc[p].cc /\ ~proc[p].failed
                                          /\ proc'[p].pc = "idle" /\ Cardinality(Procs) = 1)
                                          => \A m \in Images : proc[p].src[m] = "parse" => Usable(local[m])]_vars
\* liveness (no crash): every started call finishes
EventuallyQuiet == []<>Quiet
=============================================================================
