SPECIFICATION FairSpec
CONSTANTS
  Threads = {1, 2, 3, 4}
  VarOf <- Var4
  LockOf <- Var4
  Chunks <- Ch4
  SharedHandle = FALSE
  UseLock = TRUE
INVARIANT ServedIsWanted
INVARIANT ResultsSequential
INVARIANT MutualExclusion
PROPERTY Termination
