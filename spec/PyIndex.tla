------------------------------- MODULE PyIndex -------------------------------
(***************************************************************************)
(* Semantics of ONE-AXIS index expressions on an axis of length n          *)
(* (property C02): integers, slices with optional/negative/out-of-range    *)
(* start, stop, step (a transcription of CPython's PySlice_AdjustIndices), *)
(* integer arrays with negative entries, boolean masks.  The result is the *)
(* sequence of selected positions plus whether the axis is dropped, or     *)
(* "IndexError".  Optional values are sequences: << >> = None, <<v>> = v.  *)
(*                                                                         *)
(* The module is a tiny state machine (choose an expression, evaluate it)  *)
(* so that TLC enumerates the whole finite family, checks the algebraic    *)
(* invariants below on every point, and exports every point with its       *)
(* expected result: each becomes one implementation test.                  *)
(***************************************************************************)
EXTENDS Integers, Sequences, FiniteSets

None == << >>
Opt(S) == {None} \cup { <<v>> : v \in S }
IsNone(o) == o = None
Val(o) == o[1]

Step(s)        == IF IsNone(s) THEN 1 ELSE Val(s)
Clamp(v, s, n) == IF v < 0 THEN (IF v + n < 0 THEN (IF s > 0 THEN 0 ELSE -1) ELSE v + n)
                  ELSE IF v >= n THEN (IF s > 0 THEN n ELSE n - 1) ELSE v
Lo(a, s, n)    == IF IsNone(a) THEN (IF s > 0 THEN 0 ELSE n - 1) ELSE Clamp(Val(a), s, n)
Hi(b, s, n)    == IF IsNone(b) THEN (IF s > 0 THEN n ELSE -1)    ELSE Clamp(Val(b), s, n)
Count(lo, hi, s) == IF s > 0 THEN (IF lo < hi THEN (hi - lo - 1) \div s + 1 ELSE 0)
                             ELSE (IF hi < lo THEN (lo - hi - 1) \div (-s) + 1 ELSE 0)
SliceRows(a, b, s, n) == LET st == Step(s)  lo == Lo(a, st, n)  hi == Hi(b, st, n)
                         IN  [k \in 1 .. Count(lo, hi, st) |-> lo + (k - 1) * st]

Ok(rows, drop) == [rows |-> rows, drop |-> drop, err |-> ""]
Err(e)         == [rows |-> << >>, drop |-> FALSE, err |-> e]

EvalInt(i, n)   == IF -n <= i /\ i < n THEN Ok(<< (i + n) % n >>, TRUE) ELSE Err("IndexError")
EvalSlice(a, b, s, n) == IF ~IsNone(s) /\ Val(s) = 0 THEN Err("ValueError") ELSE Ok(SliceRows(a, b, s, n), FALSE)
EvalArray(xs, n) == IF \E k \in 1..Len(xs) : xs[k] < -n \/ xs[k] >= n THEN Err("IndexError")
                    ELSE Ok([k \in 1..Len(xs) |-> (xs[k] + n) % n], FALSE)
RECURSIVE MaskRows(_, _)
MaskRows(m, k) == IF k > Len(m) THEN << >> ELSE (IF m[k] THEN << k - 1 >> ELSE << >>) \o MaskRows(m, k + 1)
EvalMask(m, n)  == IF Len(m) # n THEN Err("IndexError") ELSE Ok(MaskRows(m, 1), FALSE)

Eval(ex, n) == CASE ex.kind = "int"   -> EvalInt(ex.i, n)
                 [] ex.kind = "slice" -> EvalSlice(ex.a, ex.b, ex.s, n)
                 [] ex.kind = "array" -> EvalArray(ex.xs, n)
                 [] ex.kind = "mask"  -> EvalMask(ex.m, n)

\* ------------------------------------------------------------------ the enumerated family
CONSTANTS MaxLen, MaxArr

Exprs(n) ==
       { [kind |-> "int", i |-> i] : i \in -n-1 .. n }
  \cup { [kind |-> "slice", a |-> a, b |-> b, s |-> s] :
             a \in Opt(-n-2 .. n+2), b \in Opt(-n-2 .. n+2), s \in Opt((-n-1 .. n+1) \ {0}) }
  \cup { [kind |-> "array", xs |-> xs] : xs \in UNION { [1..k -> -n .. n-1] : k \in 0..MaxArr } }
  \cup { [kind |-> "array", xs |-> << n >>], [kind |-> "array", xs |-> << -n-1 >>] }
  \cup { [kind |-> "mask", m |-> m] : m \in [1..n -> BOOLEAN] }

VARIABLES n, ex, res, pc
vars == <<n, ex, res, pc>>

Init == /\ n \in 1..MaxLen /\ ex \in Exprs(n) /\ res = Err("pending") /\ pc = "eval"
Evaluate == pc = "eval" /\ res' = Eval(ex, n) /\ pc' = "done" /\ UNCHANGED <<n, ex>>
Next == Evaluate \/ (pc = "done" /\ UNCHANGED vars)
Spec == Init /\ [][Next]_vars

\* ------------------------------------------------------------------ invariants (checked on every point)
Done == pc = "done"
InRange      == Done /\ res.err = "" => \A k \in 1..Len(res.rows) : res.rows[k] \in 0..n-1
DropOnlyInt  == Done /\ res.err = "" => (res.drop <=> ex.kind = "int")
\* the result of a slice is an arithmetic progression with the slice's step, maximal inside [0, n)
Progression  == Done /\ ex.kind = "slice" /\ res.err = "" =>
                   /\ \A k \in 1..Len(res.rows)-1 : res.rows[k+1] - res.rows[k] = Step(ex.s)
                   /\ Len(res.rows) <= n
\* negative and non-negative spellings of the same position agree
NegEquiv     == Done /\ ex.kind = "int" /\ res.err = "" /\ ex.i < 0 => res = EvalInt(ex.i + n, n)
\* a full reversed slice is the reverse of the full slice
Reverse      == Done /\ ex.kind = "slice" /\ IsNone(ex.a) /\ IsNone(ex.b) /\ ~IsNone(ex.s) /\ Val(ex.s) = -1 =>
                   res.rows = [k \in 1..n |-> n - k]
\* masks and arrays agree:  mask m  ==  array of the true positions
MaskIsArray  == Done /\ ex.kind = "mask" /\ res.err = "" => res.rows = EvalArray(MaskRows(ex.m, 1), n).rows
\* slicing twice composes:  rows(a:b:s)[::-1] = reverse(rows)  (used by the backend decomposition of negative steps)
Compose      == Done /\ ex.kind = "slice" /\ res.err = "" /\ Step(ex.s) < 0 /\ Len(res.rows) > 0 =>
                   LET last == res.rows[Len(res.rows)]  first == res.rows[1]
                       pos  == SliceRows(<<last>>, <<first + 1>>, <<-Step(ex.s)>>, n)
                   IN  [k \in 1..Len(pos) |-> pos[Len(pos) + 1 - k]] = res.rows
=============================================================================
