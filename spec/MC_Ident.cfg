SPECIFICATION Spec
INVARIANT TenCharacters
INVARIANT DecodingTotal
INVARIANT NearMissInvalid
INVARIANT OverAlphabet
INVARIANT GroupNameInjective
CHECK_DEADLOCK FALSE
