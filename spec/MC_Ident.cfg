SPECIFICATION Spec
INVARIANT TenCharacters
INVARIANT DecodingTotal
INVARIANT NearMissInvalid
INVARIANT GroupNameInjective
CHECK_DEADLOCK FALSE
