SPECIFICATION Spec
CONSTANT Products <- SmallProducts
CONSTANT StoreKinds = {"dir", "deny", "mapping"}
CONSTANT TranslateImageKeyError = FALSE
CONSTANT NoFaults = FALSE
INVARIANT FailStopFiles
INVARIANT MissingIsOSError
INVARIANT NoTrailerAccess
INVARIANT ExactlyKGroups
INVARIANT GroupOwnsItsFile
INVARIANT MetaMatchesLeader
PROPERTY Terminates
CHECK_DEADLOCK FALSE
