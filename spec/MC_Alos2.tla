----------------------------- MODULE MC_Alos2 -----------------------------
EXTENDS Alos2
TwoImages == <<"a", "b">>
OneImage  == <<"a">>
OneLoc    == {"P"}
TwoLocs   == {"P", "Q"}
MutSel == {"rows", "window"}
\* simulation: keep histories busy (an Open at least every few steps is ensured by the action mix itself)
DepthBound == TLCGet("level") <= MaxOps + 1
=============================================================================
