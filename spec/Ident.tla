------------------------------- MODULE Ident -------------------------------
(***************************************************************************)
(* The identifier language of ALOS-2 products (property C15, names of C13) *)
(* as string composition over the documented code tables:                  *)
(*   product id  = mode(3) look(1) level(3) option(1) projection(1) orbit  *)
(*   scene id    = "ALOS2" orbit(5 digits) frame(4 digits) "-" YYMMDD      *)
(*   scan info   = method(B|F) digit                                       *)
(*   file name   = TYPE ["-" pol] "-" scene id "-" product id ["-" scan]   *)
(* A slot holds a valid code or one of a few INVALID near-miss codes; the  *)
(* spec composes the string and knows the expected decoding (the table     *)
(* meanings) or that the string is outside the language -- without parsing *)
(* anything.  TLC enumerates the whole cross product, checks the           *)
(* invariants and exports every point for the conformance harness.         *)
(***************************************************************************)
EXTENDS Integers, Sequences, FiniteSets, TLC

Modes == << <<"SBS", "spotlight mode">>, <<"UBS", "ultra-fine mode single polarization">>, <<"UBD", "ultra-fine mode dual polarization">>,
            <<"HBS", "high-sensitive mode single polarization">>, <<"HBD", "high-sensitive mode dual polarization">>,
            <<"HBQ", "high-sensitive mode full (quad.) polarimetry">>, <<"FBS", "fine mode single polarization">>,
            <<"FBD", "fine mode dual polarization">>, <<"FBQ", "fine mode full (quad.) polarimetry">>,
            <<"WBS", "ScanSAR nominal 14MHz mode single polarization">>, <<"WBD", "ScanSAR nominal 14MHz mode dual polarization">>,
            <<"WWS", "ScanSAR nominal 28MHz mode single polarization">>, <<"WWD", "ScanSAR nominal 28MHz mode dual polarization">>,
            <<"VBS", "ScanSAR wide mode single polarization">>, <<"VBD", "ScanSAR wide mode dual polarization">> >>
Looks   == << <<"L", "left looking">>, <<"R", "right looking">> >>
Levels  == << <<"1.0", "level 1.0">>, <<"1.1", "level 1.1">>, <<"1.5", "level 1.5">>, <<"3.1", "level 3.1">> >>
Options == << <<"G", "geo-code">>, <<"R", "geo-reference">>, <<"_", "not specified">> >>
Projs   == << <<"U", "UTM">>, <<"P", "PS">>, <<"M", "MER">>, <<"L", "LCC">>, <<"_", "not specified">> >>
Orbits  == << <<"A", "ascending">>, <<"D", "descending">> >>
Methods == << <<"F", "full aperture_method">>, <<"B", "SPECAN method">> >>
Pols    == <<"HH", "HV", "VH", "VV">>

\* near-miss codes per slot: right shape, not in the table (and one of the wrong shape)
\* every beam x bandwidth x polarisation letter combination the table does NOT list (e.g. spotlight dual "SBD", ultra-fine quad "UBQ"):
\* the closest possible near-misses, plus wrong letters / case / length
BadModeSet == ({ a \o b \o c : a \in {"S", "U", "H", "F", "W", "V"}, b \in {"B", "W"}, c \in {"S", "D", "Q"} } \ { Modes[i][1] : i \in 1..Len(Modes) })
              \cup {"XBS", "WBX", "wbd", "WB"}
BadLevelSet == ({ a \o "." \o b : a \in {"1", "2", "3"}, b \in {"0", "1", "5"} } \ { Levels[i][1] : i \in 1..Len(Levels) }) \cup {"1.6", "3.5", "1,1", "11"}
BadLook   == <<"X", "l">>
BadOption == <<"X", "g">>
BadProj   == <<"X", "u", "Q">>
BadOrbit  == <<"X", "a">>

Codes(t) == [i \in 1..Len(t) |-> t[i][1]]
ToSet(s) == { s[i] : i \in 1..Len(s) }
Meaning(t, c) == (CHOOSE i \in 1..Len(t) : t[i][1] = c) 
Lookup(t, c) == t[Meaning(t, c)][2]

ProductId(s) == s.mode \o s.look \o s.level \o s.option \o s.proj \o s.orbit
ValidProduct(s) == /\ s.mode \in ToSet(Codes(Modes)) /\ s.look \in ToSet(Codes(Looks)) /\ s.level \in ToSet(Codes(Levels))
                   /\ s.option \in ToSet(Codes(Options)) /\ s.proj \in ToSet(Codes(Projs)) /\ s.orbit \in ToSet(Codes(Orbits))
DecodedProduct(s) == [observation_mode |-> Lookup(Modes, s.mode), observation_direction |-> Lookup(Looks, s.look),
                      processing_level |-> Lookup(Levels, s.level), processing_option |-> Lookup(Options, s.option),
                      map_projection |-> Lookup(Projs, s.proj), orbit_direction |-> Lookup(Orbits, s.orbit)]

AllSlots == [mode : ToSet(Codes(Modes)), look : ToSet(Codes(Looks)), level : ToSet(Codes(Levels)), option : ToSet(Codes(Options)),
             proj : ToSet(Codes(Projs)), orbit : ToSet(Codes(Orbits))]
Default == [mode |-> "WBD", look |-> "R", level |-> "1.5", option |-> "G", proj |-> "U", orbit |-> "D"]
\* one slot off at a time
NearMisses == { [Default EXCEPT !.mode = x] : x \in BadModeSet } \cup { [Default EXCEPT !.look = x] : x \in ToSet(BadLook) }
         \cup { [Default EXCEPT !.level = x] : x \in BadLevelSet } \cup { [Default EXCEPT !.option = x] : x \in ToSet(BadOption) }
         \cup { [Default EXCEPT !.proj = x] : x \in ToSet(BadProj) } \cup { [Default EXCEPT !.orbit = x] : x \in ToSet(BadOrbit) }

Scans == {""} \cup { m \o d : m \in {"B", "F"}, d \in {"0", "1", "2", "3", "4", "5", "6", "7", "8", "9"} }
ScanNumber(sc) == SubSeq(sc, 2, 2)
GroupName(pol, sc) == IF sc = "" THEN pol ELSE pol \o "_scan" \o ScanNumber(sc)

VARIABLES slots, pc
vars == <<slots, pc>>
Init == slots \in AllSlots \cup NearMisses /\ pc = "compose"
Step == pc = "compose" /\ pc' = "done" /\ UNCHANGED slots
Next == Step \/ (pc = "done" /\ UNCHANGED vars)
Spec == Init /\ [][Next]_vars

\* ---- invariants
TenCharacters   == ValidProduct(slots) => Len(ProductId(slots)) = 10
DecodingTotal   == ValidProduct(slots) => \A f \in DOMAIN DecodedProduct(slots) : DecodedProduct(slots)[f] # ""
\* composition is injective on valid slots: two different slot records never spell the same id
Injective       == \A t \in AllSlots : ProductId(t) = ProductId(slots) /\ ValidProduct(slots) => t = slots
NearMissInvalid == slots \in NearMisses => ~ValidProduct(slots)
\* the alphabet of the grammar: ASCII capitals, ASCII digits and the three separators -- every valid id is spelled with it, so a string
\* with ANY other character (a digit of another script, a lower-case or fullwidth letter) is outside the language whatever its shape
Alphabet == {"A", "B", "C", "D", "E", "F", "G", "H", "I", "J", "K", "L", "M", "N", "O", "P", "Q", "R", "S", "T", "U", "V", "W", "X", "Y", "Z",
             "0", "1", "2", "3", "4", "5", "6", "7", "8", "9", "-", ".", "_"}
OverAlphabet == ValidProduct(slots) => \A i \in 1..Len(ProductId(slots)) : SubSeq(ProductId(slots), i, i) \in Alphabet
\* the group name is unique per (polarisation, scan number); a scan-less image differs from scan 0
GroupNameInjective ==
    \A p1, p2 \in ToSet(Pols), s1, s2 \in Scans :
        GroupName(p1, s1) = GroupName(p2, s2) => (p1 = p2 /\ (IF s1 = "" \/ s2 = "" THEN s1 = s2 ELSE ScanNumber(s1) = ScanNumber(s2)))
=============================================================================
