--------------------------- MODULE Trace_CacheSys ---------------------------
(***************************************************************************)
(* The cache WRITERS at system-call grain (C09, C10), validated on traces  *)
(* recorded with strace from open_alos2(create_cache=True) and from        *)
(* ceos-alos2-create-cache.  It refines the writer of Cache.tla            *)
(*      Mkdir ; Trunc ; WriteBlk ... WriteBlk                              *)
(* into  mkdir* ; openat(O_TRUNC) ; write(off = current length)* ; close   *)
(* and also admits the other sound design, temp file + rename:             *)
(*      openat(tmp) ; write* ; close ; rename(tmp -> index)                *)
(* (an index is only ever INSTALLED complete).  What every design must     *)
(* keep is the abstraction the crash exploration relies on:                *)
(*   PrefixStates  at every call boundary an index file is absent or holds *)
(*                 a PREFIX of the document being written (sequential      *)
(*                 writes from offset 0, no holes, no second pass);        *)
(*   OnlyIndexes   nothing but directories, index files and (transient)    *)
(*                 temp files is created; nothing else is left at exit;    *)
(*   Complete      a writer that exits 0 leaves every index it opened      *)
(*                 complete.                                               *)
(* Lines (ndjson): hdr{tid, doclen: {file: n}} then events                 *)
(*   {e: mkdir|open|write|close|rename|unlink|rmdir|exit, f: <class>, ...} *)
(* where the harness has classified the path: "idx:<image>" (an index file *)
(* at its expected place), "dir", "tmp:<k>" (another file in an index      *)
(* directory), "other".  One total verdict per trace.                      *)
(***************************************************************************)
EXTENDS Integers, Sequences, FiniteSets, TLC, Json, IOUtils

Lines == ndJsonDeserialize(IOEnv.TRACE_FILE)

VARIABLES l, tid, len, doclen, bad, badLine
vars == <<l, tid, len, doclen, bad, badLine>>

Verdict == PrintT(<<"VERDICT", tid, IF bad = "" THEN "accepted" ELSE "rejected", badLine, bad>>)
Absent == -1
Ext(f, k, v) == [x \in DOMAIN f \cup {k} |-> IF x = k THEN v ELSE f[x]]
Len0(f) == IF f \in DOMAIN len THEN len[f] ELSE Absent
IsIdx(f) == f \in DOMAIN doclen
Fail(c) == IF bad = "" THEN bad' = c /\ badLine' = l ELSE UNCHANGED <<bad, badLine>>
Ok == UNCHANGED <<bad, badLine>>

Init == /\ l = 2 /\ Lines[1].e = "hdr" /\ tid = Lines[1].tid /\ doclen = Lines[1].doclen
        /\ len = [f \in {} |-> 0] /\ bad = "" /\ badLine = 0

Consume ==
    /\ l <= Len(Lines) /\ Lines[l].e # "hdr"
    /\ LET ev == Lines[l] IN
       CASE ev.e = "mkdir" -> (IF ev.f # "dir" THEN Fail("foreign-path") ELSE Ok) /\ UNCHANGED len
         [] ev.e = "open"  -> /\ len' = IF ev.trunc \/ Len0(ev.f) = Absent THEN Ext(len, ev.f, 0) ELSE len
                              /\ IF ev.f = "other" \/ ev.f = "dir" THEN Fail("foreign-path") ELSE Ok
         [] ev.e = "write" -> /\ len' = Ext(len, ev.f, IF ev.off + ev.n > Len0(ev.f) THEN ev.off + ev.n ELSE Len0(ev.f))
                              /\ IF ev.f = "other" THEN Fail("foreign-path")
                                 ELSE IF ev.off # Len0(ev.f) THEN Fail("non-prefix-state")        \* a hole or a second pass
                                 ELSE IF IsIdx(ev.f) /\ ev.off + ev.n > doclen[ev.f] THEN Fail("longer-than-document")
                                 ELSE Ok
         [] ev.e = "rename" -> /\ len' = Ext(Ext(len, ev.to, Len0(ev.f)), ev.f, Absent)
                               /\ IF ~IsIdx(ev.to) THEN Fail("foreign-path")
                                  ELSE IF Len0(ev.f) # doclen[ev.to] THEN Fail("incomplete-install") ELSE Ok
         [] ev.e \in {"unlink", "rmdir"} -> len' = Ext(len, ev.f, Absent) /\ Ok
         [] ev.e = "exit" -> /\ UNCHANGED len
                             /\ IF ev.status = 0 /\ \E f \in DOMAIN len : IsIdx(f) /\ len[f] # Absent /\ len[f] # doclen[f] THEN Fail("incomplete-at-exit")
                                ELSE IF \E f \in DOMAIN len : ~IsIdx(f) /\ f # "dir" /\ len[f] # Absent THEN Fail("leftover-files")
                                ELSE Ok
         [] OTHER -> UNCHANGED len /\ Ok
    /\ l' = l + 1 /\ UNCHANGED <<tid, doclen>>

NewTrace == /\ l <= Len(Lines) /\ Lines[l].e = "hdr" /\ Verdict
            /\ tid' = Lines[l].tid /\ doclen' = Lines[l].doclen /\ len' = [f \in {} |-> 0] /\ bad' = "" /\ badLine' = 0 /\ l' = l + 1
Fin == /\ l = Len(Lines) + 1 /\ Verdict /\ l' = l + 1 /\ UNCHANGED <<tid, len, doclen, bad, badLine>>
Next == Consume \/ NewTrace \/ Fin
Spec == Init /\ [][Next]_vars
=============================================================================
