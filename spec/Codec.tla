------------------------------- MODULE Codec -------------------------------
(***************************************************************************)
(* The JSON index as an algebra (property C08): abstract values of an      *)
(* image group -- attribute values (scalars, nested lists, nested tuples), *)
(* datetime / timedelta arrays (with NaT), shapes 0-d..2-d -- with the     *)
(* encoder / decoder of the design:                                        *)
(*   tuples are tagged  {"__type__": "tuple", "data": [...]}  before JSON  *)
(*   serialisation and untagged by the JSON object hook;                   *)
(*   datetime arrays are stored as a reference instant + integer offsets   *)
(*   (in the array's own unit), timedelta arrays as integers;              *)
(*   arrays are stored flattened-by-nesting with their dtype string.       *)
(* TLC enumerates every abstract value of the bounded family and checks    *)
(*   RoundTrip:  Decode(Encode(v)) = v.                                    *)
(* RefFirstElement = TRUE models the defective alternative (reference =    *)
(* obj[0] whatever it is, 1-d only) so TLC can show the model expresses    *)
(* the loss (NaT first element, 0-d and empty arrays).                     *)
(***************************************************************************)
EXTENDS Integers, Sequences, FiniteSets, TLC

CONSTANTS MaxDepth, RefFirstElement

NaT == -1000000   \* sentinel (TLC cannot mix strings and integers in one set)
Scalars == {"int:0", "int:7", "str:s", "str:", "bool:True", "float:NaN"}

\* ---- attribute values: scalars, lists and tuples nested up to MaxDepth
RECURSIVE AttrVals(_)
AttrVals(d) ==
    IF d = 0 THEN { [k |-> "s", v |-> x] : x \in Scalars }
    ELSE LET sub == AttrVals(d - 1)
             seqs == {<< >>} \cup { <<a>> : a \in sub } \cup { <<a, b>> : a \in sub, b \in {[k |-> "s", v |-> "int:0"], [k |-> "t", v |-> << >>]} }
         IN  sub \cup { [k |-> "l", v |-> s] : s \in seqs } \cup { [k |-> "t", v |-> s] : s \in seqs }

\* JSON documents: scalar | list | object (function from strings)
RECURSIVE EncAttr(_)
EncAttr(a) ==
    CASE a.k = "s" -> [j |-> "scalar", v |-> a.v]
      [] a.k = "l" -> [j |-> "list", v |-> [i \in 1..Len(a.v) |-> EncAttr(a.v[i])]]
      [] a.k = "t" -> [j |-> "obj", type |-> "tuple", data |-> [j |-> "list", v |-> [i \in 1..Len(a.v) |-> EncAttr(a.v[i])]]]

RECURSIVE DecAttr(_)
DecAttr(d) ==
    CASE d.j = "scalar" -> [k |-> "s", v |-> d.v]
      [] d.j = "list"   -> [k |-> "l", v |-> [i \in 1..Len(d.v) |-> DecAttr(d.v[i])]]
      [] d.j = "obj"    -> IF d.type = "tuple" THEN [k |-> "t", v |-> [i \in 1..Len(d.data.v) |-> DecAttr(d.data.v[i])]]
                           ELSE [k |-> "s", v |-> "opaque"]

\* ---- datetime arrays: flat sequence of instants (small ints) or NaT, with a shape
Instants == {NaT, 0, 1, 5}
Shapes == { << >>, <<0>>, <<1>>, <<2>>, <<1, 2>>, <<2, 1>>, <<0, 2>> }
RECURSIVE Prod(_)
Prod(s) == IF s = << >> THEN 1 ELSE Head(s) * Prod(Tail(s))
DtArrays == UNION { { [shape |-> sh, flat |-> f] : f \in [1..Prod(sh) -> Instants] } : sh \in Shapes }

FirstValid(f) == IF \E i \in 1..Len(f) : f[i] # NaT
                 THEN f[CHOOSE i \in 1..Len(f) : f[i] # NaT /\ \A j \in 1..i-1 : f[j] = NaT]
                 ELSE 0                                                   \* epoch
EncDt(a) ==
    IF RefFirstElement
    THEN (IF Len(a.shape) # 1 \/ Len(a.flat) = 0 THEN [err |-> "IndexError"]
          ELSE LET ref == a.flat[1] IN
               [err |-> "", shape |-> a.shape, ref |-> ref,
                off |-> [i \in 1..Len(a.flat) |-> IF a.flat[i] = NaT \/ ref = NaT THEN NaT ELSE a.flat[i] - ref]])
    ELSE LET ref == FirstValid(a.flat) IN
         [err |-> "", shape |-> a.shape, ref |-> ref,
          off |-> [i \in 1..Len(a.flat) |-> IF a.flat[i] = NaT THEN NaT ELSE a.flat[i] - ref]]
DecDt(e) == IF e.err # "" THEN [shape |-> << >>, flat |-> <<-999>>]
            ELSE [shape |-> e.shape, flat |-> [i \in 1..Len(e.off) |-> IF e.off[i] = NaT \/ e.ref = NaT THEN NaT ELSE e.ref + e.off[i]]]

\* ---- the enumerating state machine
VARIABLES v, out, pc
vars == <<v, out, pc>>
Family == { [c |-> "attr", x |-> a] : a \in AttrVals(MaxDepth) } \cup { [c |-> "dt", x |-> a] : a \in DtArrays }
Init == v \in Family /\ out = [c |-> "none"] /\ pc = "go"
Go == /\ pc = "go"
      /\ out' = IF v.c = "attr" THEN [c |-> "attr", x |-> DecAttr(EncAttr(v.x))] ELSE [c |-> "dt", x |-> DecDt(EncDt(v.x))]
      /\ pc' = "done" /\ UNCHANGED v
Next == Go \/ (pc = "done" /\ UNCHANGED vars)
Spec == Init /\ [][Next]_vars

RoundTrip == pc = "done" => out = v
TuplesStayTuples == pc = "done" /\ v.c = "attr" => out.x.k = v.x.k
=============================================================================
