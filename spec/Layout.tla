------------------------------- MODULE Layout -------------------------------
(***************************************************************************)
(* The JAXA ALOS-2 CEOS product format as TLA+ data: every record type of  *)
(* the volume directory, SAR leader, SAR image and SAR trailer files as a  *)
(* sequence of fields                                                      *)
(*     F(name, width, kind, unit, exp10, enumTable, role)                  *)
(*     S(name, <<fields>>)                      nested structure           *)
(*     A(name, count, dim, element)             repeated element           *)
(*                                                                         *)
(* kinds:  "ai" ASCII integer   "af" ASCII float   "ac" ASCII complex      *)
(*         "s" padded ASCII text   "u8" "u16" "u32" "u64" big-endian       *)
(*         "flag" binary boolean   "ydms" (year, day-of-year, ms) 3 x u32  *)
(*         "ydus" microseconds of day u64   "bytes" raw   "pixels" samples *)
(* exp10:  the documented scale factor is 10^exp10                         *)
(* roles:  "value" (nullable when ASCII)  "count" "length" "code"          *)
(*         "datetime" (the format requires these to be filled)             *)
(*         "spare" (blank / spare / reserved area)  "preamble"  "pixels"   *)
(*                                                                         *)
(* PROVENANCE.  There is no copy of the JAXA format description in the     *)
(* sandbox.  The field tables below were generated ONCE by                 *)
(* tools/bootstrap_layout.py from the construct declarations of the pinned *)
(* commit, reviewed by hand, and are FROZEN: no check regenerates them and *)
(* no check reads a construct declaration of /repo to build an expectation.*)
(* The independent anchors are the fixed CEOS record sizes asserted in the *)
(* ASSUMEs at the end (evaluated by TLC at every start-up).                *)
(***************************************************************************)
EXTENDS Integers, Sequences, TLC

F(n, w, k, u, e, t, r) == [n |-> n, w |-> w, k |-> k, u |-> u, e |-> e, t |-> t, r |-> r]
S(n, f)                == [n |-> n, k |-> "struct", f |-> f]
A(n, c, d, el)         == [n |-> n, k |-> "array", c |-> c, d |-> d, el |-> el]

Preamble == S("preamble", <<
    F("record_sequence_number", 4, "u32", "", 0, "", "preamble"),
    F("first_record_subtype", 1, "u8", "", 0, "", "preamble"),
    F("record_type", 1, "u8", "", 0, "", "preamble"),
    F("second_record_subtype", 1, "u8", "", 0, "", "preamble"),
    F("third_record_subtype", 1, "u8", "", 0, "", "preamble"),
    F("record_length", 4, "u32", "", 0, "", "preamble")
>>)

RECURSIVE Size(_), SizeSeq(_)
Size(x) == CASE x.k = "struct" -> SizeSeq(x.f)
             [] x.k = "array"  -> x.c * Size(x.el)
             [] OTHER          -> x.w
SizeSeq(fs) == IF fs = <<>> THEN 0 ELSE Size(Head(fs)) + SizeSeq(Tail(fs))

Join(a, b) == IF a = "" THEN b ELSE IF b = "" THEN a ELSE a \o "." \o b

(* Flat(fields, base, prefix): the leaves in file order with dotted path and  *)
(* offset; an array stays one entry carrying count, stride and the flattened  *)
(* element (offsets relative to the element start).                           *)
RECURSIVE Flat(_, _, _)
Flat(fs, base, prefix) ==
    IF fs = <<>> THEN <<>>
    ELSE LET x    == Head(fs)
             here == CASE x.k = "struct" -> Flat(x.f, base, Join(prefix, x.n))
                       [] x.k = "array"  ->
                            << [p |-> Join(prefix, x.n), k |-> "array", off |-> base, c |-> x.c, d |-> x.d,
                                stride |-> Size(x.el),
                                el |-> IF x.el.k = "struct" THEN Flat(x.el.f, 0, "")
                                       ELSE Flat(<< [x.el EXCEPT !.n = ""] >>, 0, "")] >>
                       [] OTHER -> << [p |-> Join(prefix, x.n), off |-> base, w |-> x.w, k |-> x.k, u |-> x.u,
                                       e |-> x.e, t |-> x.t, r |-> x.r] >>
         IN  here \o Flat(Tail(fs), base + Size(x), prefix)

(* all widths are non-negative (an inadmissible count/length makes a pad negative) *)
RECURSIVE WellFormed(_)
WellFormed(fs) ==
    \A i \in 1..Len(fs) :
        LET x == fs[i] IN
        CASE x.k = "struct" -> WellFormed(x.f)
          [] x.k = "array"  -> x.c >= 0 /\ WellFormed(<<x.el>>)
          [] OTHER          -> x.w >= 0

\* ---- generated once by tools/bootstrap_layout.py from the pinned commit, then frozen ----
EnumTables ==
  "motion_compensation_indicator" :> << <<"no_compensation", "0">>, <<"on_board_compensation", "1">>, <<"in_processor_compensation", "10">>, <<"both", "11">> >> @@
  "base_band_conversion_flag" :> << <<"no", "NO">>, <<"off", "OFF">>, <<"on", "ON">>, <<"yes", "YES">> >> @@
  "range_compression_flag" :> << <<"no", "NO">>, <<"off", "OFF">>, <<"on", "ON">>, <<"yes", "YES">> >> @@
  "echo_tracker_status" :> << <<"no", "NO">>, <<"off", "OFF">>, <<"on", "ON">>, <<"yes", "YES">> >> @@
  "weighting_function_in_azimuth" :> << <<"rectangle", "1">> >> @@
  "weighting_function_in_range" :> << <<"rectangle", "1">> >> @@
  "clutter_lock_applied_flag" :> << <<"no", "NO">>, <<"off", "OFF">>, <<"on", "ON">>, <<"yes", "YES">> >> @@
  "auto_focusing_applied_flag" :> << <<"no", "NO">>, <<"off", "OFF">>, <<"on", "ON">>, <<"yes", "YES">> >> @@
  "orbital_elements_designator" :> << <<"preliminary", "0">>, <<"decision", "1">>, <<"high_precision", "2">> >> @@
  "calibration_mode_data_location_flag" :> << <<"no_calibration", "0">>, <<"side_of_observation_start", "1">>, <<"side_of_observation_end", "2">>, <<"side_of_observation_start_and_end", "3">> >> @@
  "sar_channel_id" :> << <<"single_polarization", "1">>, <<"dual_polarization", "2">>, <<"full_polarization", "4">> >> @@
  "sar_channel_code" :> << <<"L", "0">>, <<"S", "1">>, <<"C", "2">>, <<"X", "3">>, <<"KU", "4">>, <<"KA", "5">> >> @@
  "transmitted_pulse_polarization" :> << <<"horizontal", "0">>, <<"vertical", "1">> >> @@
  "received_pulse_polarization" :> << <<"horizontal", "0">>, <<"vertical", "1">> >> @@
  "chirp_type_designator" :> << <<"linear_fm_chirp", "0">>, <<"phase_modulators", "1">> >> @@
  "platform_position_parameters_update_flag" :> << <<"repeat", "0">>, <<"update", "1">> >>

VolumeDescriptorFields == <<
  Preamble,
  F("ascii_ebcdic_flag", 2, "s", "", 0, "", "value"),
  F("blanks", 2, "s", "", 0, "", "spare"),
  F("superstructure_format_control_document_id", 12, "s", "", 0, "", "value"),
  F("superstructure_format_control_document_revision_level", 2, "s", "", 0, "", "value"),
  F("superstructure_record_format_revision_level", 2, "s", "", 0, "", "value"),
  F("software_release_and_revision_level", 12, "s", "", 0, "", "value"),
  F("physical_volume_id", 16, "s", "", 0, "", "value"),
  F("logical_volume_id", 16, "s", "", 0, "", "value"),
  F("volume_set_id", 16, "s", "", 0, "", "value"),
  F("total_number_of_physical_volumes_in_logical_volume", 2, "ai", "", 0, "", "value"),
  F("physical_volume_sequence_number_of_the_first_tape", 2, "ai", "", 0, "", "value"),
  F("physical_volume_sequence_number_of_the_last_tape", 2, "ai", "", 0, "", "value"),
  F("physical_volume_sequence_number_of_the_current_tape", 2, "ai", "", 0, "", "value"),
  F("file_number_in_the_logical_volume", 4, "ai", "", 0, "", "value"),
  F("logical_volume_within_a_volume_set", 4, "ai", "", 0, "", "value"),
  F("logical_volume_number_within_physical_volume", 4, "ai", "", 0, "", "value"),
  F("logical_volume_creation_datetime", 16, "s", "", 0, "", "datetime"),
  F("logical_volume_generation_country", 12, "s", "", 0, "", "value"),
  F("logical_volume_generating_agency", 8, "s", "", 0, "", "value"),
  F("logical_volume_generating_facility", 12, "s", "", 0, "", "value"),
  F("number_of_file_pointer_records", 4, "ai", "", 0, "", "count"),
  F("number_of_text_records_in_volume_directory", 4, "ai", "", 0, "", "value"),
  F("spare", 92, "s", "", 0, "", "spare"),
  F("local_use_segment", 100, "s", "", 0, "", "spare")
>>

FilePointerFields == <<
  Preamble,
  F("ascii_ebcdic_flag", 2, "s", "", 0, "", "value"),
  F("blanks", 2, "s", "", 0, "", "spare"),
  F("referenced_file_number", 4, "ai", "", 0, "", "value"),
  F("referenced_file_name_id", 16, "s", "", 0, "", "value"),
  F("referenced_file_class", 28, "s", "", 0, "", "value"),
  F("referenced_file_class_code", 4, "s", "", 0, "", "value"),
  F("referenced_file_data_type", 28, "s", "", 0, "", "value"),
  F("referenced_file_data_type_code", 4, "s", "", 0, "", "value"),
  F("number_of_records_in_referenced_file", 8, "ai", "", 0, "", "value"),
  F("length_of_the_first_record_in_referenced_file", 8, "ai", "", 0, "", "value"),
  F("maximum_record_length_in_referenced_file", 8, "ai", "", 0, "", "value"),
  F("referenced_file_record_length_type", 12, "s", "", 0, "", "value"),
  F("referenced_file_record_length_type_code", 4, "s", "", 0, "", "value"),
  F("number_of_the_physical_volume_set_containing_the_first_record_of_the_file", 2, "ai", "", 0, "", "value"),
  F("number_of_the_physical_volume_set_containing_the_last_record_of_the_file", 2, "ai", "", 0, "", "value"),
  F("record_number_of_the_first_record_appearing_on_this_physical_volume", 8, "ai", "", 0, "", "value"),
  F("record_number_of_the_last_record_appearing_on_this_physical_volume", 8, "ai", "", 0, "", "value"),
  F("spare", 100, "s", "", 0, "", "spare"),
  F("local_use_segment", 100, "s", "", 0, "", "spare")
>>

TextRecordFields == <<
  Preamble,
  F("ascii_ebcdic_flag", 2, "s", "", 0, "", "value"),
  F("blanks", 2, "s", "", 0, "", "spare"),
  F("product_id", 40, "s", "", 0, "", "value"),
  F("location_and_datetime_of_product_creation", 60, "s", "", 0, "", "value"),
  F("physical_tape_id", 40, "s", "", 0, "", "value"),
  F("scene_id", 40, "s", "", 0, "", "value"),
  F("scene_location_id", 40, "s", "", 0, "", "value"),
  F("blanks", 124, "s", "", 0, "", "spare")
>>

LeaderDescriptorFields == <<
  Preamble,
  F("ascii_ebcdic_flag", 2, "s", "", 0, "", "value"),
  F("blanks", 2, "s", "", 0, "", "spare"),
  F("format_control_document_id", 12, "s", "", 0, "", "value"),
  F("format_control_document_revision_level", 2, "s", "", 0, "", "value"),
  F("record_format_revision_level", 2, "s", "", 0, "", "value"),
  F("software_release_and_revision_number", 12, "s", "", 0, "", "value"),
  F("file_number", 4, "ai", "", 0, "", "value"),
  F("file_id", 16, "s", "", 0, "", "value"),
  F("record_sequence_and_location_type_flag", 4, "s", "", 0, "", "value"),
  F("sequence_number_of_location", 8, "ai", "", 0, "", "value"),
  F("field_length_of_sequence_number", 4, "ai", "", 0, "", "value"),
  F("record_code_and_location_type_flag", 4, "s", "", 0, "", "value"),
  F("location_of_record_code", 8, "ai", "", 0, "", "value"),
  F("field_length_of_record_code", 4, "ai", "", 0, "", "value"),
  F("record_length_and_location_type_flag", 4, "s", "", 0, "", "value"),
  F("location_of_record_length", 8, "ai", "", 0, "", "value"),
  F("field_length_of_record_length", 4, "ai", "", 0, "", "value"),
  F("blanks1", 68, "s", "", 0, "", "spare"),
  S("dataset_summary", <<
    F("number_of_records", 6, "ai", "", 0, "", "count"),
    F("record_length", 6, "ai", "", 0, "", "length")
  >>),
  S("map_projection", <<
    F("number_of_records", 6, "ai", "", 0, "", "count"),
    F("record_length", 6, "ai", "", 0, "", "length")
  >>),
  S("platform_position", <<
    F("number_of_records", 6, "ai", "", 0, "", "count"),
    F("record_length", 6, "ai", "", 0, "", "length")
  >>),
  S("attitude", <<
    F("number_of_records", 6, "ai", "", 0, "", "count"),
    F("record_length", 6, "ai", "", 0, "", "length")
  >>),
  S("radiometric_data", <<
    F("number_of_records", 6, "ai", "", 0, "", "count"),
    F("record_length", 6, "ai", "", 0, "", "length")
  >>),
  S("radiometric_compensation", <<
    F("number_of_records", 6, "ai", "", 0, "", "count"),
    F("record_length", 6, "ai", "", 0, "", "length")
  >>),
  S("data_quality_summary", <<
    F("number_of_records", 6, "ai", "", 0, "", "count"),
    F("record_length", 6, "ai", "", 0, "", "length")
  >>),
  S("data_histogram", <<
    F("number_of_records", 6, "ai", "", 0, "", "count"),
    F("record_length", 6, "ai", "", 0, "", "length")
  >>),
  S("range_spectra", <<
    F("number_of_records", 6, "ai", "", 0, "", "count"),
    F("record_length", 6, "ai", "", 0, "", "length")
  >>),
  S("dem_descriptor", <<
    F("number_of_records", 6, "ai", "", 0, "", "count"),
    F("record_length", 6, "ai", "", 0, "", "length")
  >>),
  S("radar_parameter_update", <<
    F("number_of_records", 6, "ai", "", 0, "", "count"),
    F("record_length", 6, "ai", "", 0, "", "length")
  >>),
  S("annotation_data", <<
    F("number_of_records", 6, "ai", "", 0, "", "count"),
    F("record_length", 6, "ai", "", 0, "", "length")
  >>),
  S("detail_processing", <<
    F("number_of_records", 6, "ai", "", 0, "", "count"),
    F("record_length", 6, "ai", "", 0, "", "length")
  >>),
  S("calibration", <<
    F("number_of_records", 6, "ai", "", 0, "", "count"),
    F("record_length", 6, "ai", "", 0, "", "length")
  >>),
  S("gcp", <<
    F("number_of_records", 6, "ai", "", 0, "", "count"),
    F("record_length", 6, "ai", "", 0, "", "length")
  >>),
  F("spare", 60, "s", "", 0, "", "spare"),
  S("facility_related_data_1", <<
    F("number_of_records", 6, "ai", "", 0, "", "count"),
    F("record_length", 8, "ai", "", 0, "", "length")
  >>),
  S("facility_related_data_2", <<
    F("number_of_records", 6, "ai", "", 0, "", "count"),
    F("record_length", 8, "ai", "", 0, "", "length")
  >>),
  S("facility_related_data_3", <<
    F("number_of_records", 6, "ai", "", 0, "", "count"),
    F("record_length", 8, "ai", "", 0, "", "length")
  >>),
  S("facility_related_data_4", <<
    F("number_of_records", 6, "ai", "", 0, "", "count"),
    F("record_length", 8, "ai", "", 0, "", "length")
  >>),
  S("facility_related_data_5", <<
    F("number_of_records", 6, "ai", "", 0, "", "count"),
    F("record_length", 8, "ai", "", 0, "", "length")
  >>),
  F("blanks2", 230, "s", "", 0, "", "spare")
>>

DatasetSummaryFields == <<
  Preamble,
  F("dataset_summary_records_sequence_number", 4, "ai", "", 0, "", "value"),
  F("sar_channel_id", 4, "s", "", 0, "", "value"),
  F("scene_id", 32, "s", "", 0, "", "value"),
  F("number_of_scene_reference", 16, "s", "", 0, "", "value"),
  F("scene_center_time", 32, "s", "", 0, "", "datetime"),
  F("spare1", 16, "s", "", 0, "", "spare"),
  F("geodetic_latitude", 16, "af", "deg", 0, "", "value"),
  F("geodetic_longitude", 16, "af", "deg", 0, "", "value"),
  F("processed_scene_center_true_heading", 16, "af", "deg", 0, "", "value"),
  F("ellipsoid_designator", 16, "s", "", 0, "", "value"),
  F("ellipsoid_semimajor_axis", 16, "af", "km", 0, "", "value"),
  F("ellipsoid_semiminor_axis", 16, "af", "km", 0, "", "value"),
  F("earth_mass", 16, "af", "kg", 24, "", "value"),
  F("gravitational_constant", 16, "af", "m^3 / s^2", -14, "", "value"),
  F("ellipsoid_j2_parameter", 16, "af", "", 0, "", "value"),
  F("ellipsoid_j3_parameter", 16, "af", "", 0, "", "value"),
  F("ellipsoid_j4_parameter", 16, "af", "", 0, "", "value"),
  F("spare2", 16, "s", "", 0, "", "spare"),
  F("average_terrain_height_above_ellipsoid_at_scene_center", 16, "af", "", 0, "", "value"),
  F("scene_center_line_number", 8, "ai", "", 0, "", "value"),
  F("scene_center_pixel_number", 8, "ai", "", 0, "", "value"),
  F("processing_scene_length", 16, "af", "km", 0, "", "value"),
  F("processing_scene_width", 16, "af", "km", 0, "", "value"),
  F("spare3", 16, "s", "", 0, "", "spare"),
  F("number_of_sar_channel", 4, "ai", "", 0, "", "value"),
  F("spare4", 4, "s", "", 0, "", "spare"),
  F("sensor_platform_mission_identifier", 16, "s", "", 0, "", "value"),
  F("sensor_id_and_operation_mode", 32, "s", "", 0, "", "value"),
  F("orbit_number_or_flight_line_indicator", 8, "ai", "", 0, "", "value"),
  F("sensor_platform_geodetic_latitude_at_nadir_corresponding_to_scene_center", 8, "af", "deg", 0, "", "value"),
  F("sensor_platform_geodetic_longitude_at_nadir_corresponding_to_scene_center", 8, "af", "deg", 0, "", "value"),
  F("sensor_platform_heading_at_nadir_corresponding_to_scene_center", 8, "af", "deg", 0, "", "value"),
  F("sensor_clock_angle_as_measured_relative_to_sensor_platform_flight_direction", 8, "af", "deg", 0, "", "value"),
  F("incidence_angle_at_scene_center", 8, "af", "deg", 0, "", "value"),
  F("spare5", 8, "s", "", 0, "", "spare"),
  F("nominal_radar_wavelength", 16, "af", "m", 0, "", "value"),
  F("motion_compensation_indicator", 2, "ai", "", 0, "motion_compensation_indicator", "code"),
  F("range_pulse_code", 16, "s", "", 0, "", "value"),
  S("range_pulse_amplitude_coefficients", <<
    F("coefficient_1", 16, "af", "", 0, "", "value"),
    F("coefficient_2", 16, "af", "", 0, "", "value"),
    F("coefficient_3", 16, "af", "", 0, "", "value"),
    F("coefficient_4", 16, "af", "", 0, "", "value"),
    F("coefficient_5", 16, "af", "", 0, "", "value")
  >>),
  S("range_pulse_phase_coefficients", <<
    F("coefficient_1", 16, "af", "", 0, "", "value"),
    F("coefficient_2", 16, "af", "", 0, "", "value"),
    F("coefficient_3", 16, "af", "", 0, "", "value"),
    F("coefficient_4", 16, "af", "", 0, "", "value"),
    F("coefficient_5", 16, "af", "", 0, "", "value")
  >>),
  F("down_linked_data_chirp_extraction_index", 8, "ai", "", 0, "", "value"),
  F("spare6", 8, "s", "", 0, "", "spare"),
  F("sampling_rate", 16, "af", "MHz", 0, "", "value"),
  F("range_gate", 16, "af", "µs", 0, "", "value"),
  F("range_pulse_width", 16, "af", "µs", 0, "", "value"),
  F("base_band_conversion_flag", 4, "s", "", 0, "base_band_conversion_flag", "code"),
  F("range_compression_flag", 4, "s", "", 0, "range_compression_flag", "code"),
  F("receiver_gain_for_like_polarized_at_early_edge_at_the_start_of_the_image", 16, "af", "", 0, "", "value"),
  F("receiver_gain_for_cross_polarized_at_early_edge_at_the_start_of_the_image", 16, "af", "", 0, "", "value"),
  F("quantization_in_bits_per_channel", 8, "ai", "", 0, "", "value"),
  F("quantized_descriptor", 12, "s", "", 0, "", "value"),
  F("dc_bias_for_I_component", 16, "af", "", 0, "", "value"),
  F("dc_bias_for_Q_component", 16, "af", "", 0, "", "value"),
  F("gain_imbalance_for_I_and_Q", 16, "af", "", 0, "", "value"),
  F("spare7", 16, "af", "", 0, "", "spare"),
  F("spare8", 16, "af", "", 0, "", "spare"),
  F("electronic_boresight", 16, "af", "", 0, "", "value"),
  F("mechanical_boresight", 16, "af", "", 0, "", "value"),
  F("echo_tracker_status", 4, "s", "", 0, "echo_tracker_status", "code"),
  F("prf", 16, "af", "mHz", 0, "", "value"),
  F("two_way_antenna_beam_width_elevation", 16, "af", "deg", 0, "", "value"),
  F("two_way_antenna_beam_width_azimuth", 16, "af", "deg", 0, "", "value"),
  F("satellite_encoded_binary_time_code", 16, "ai", "", 0, "", "value"),
  F("satellite_clock_time", 32, "s", "", 0, "", "value"),
  F("satellite_clock_increment", 16, "ai", "ns", 0, "", "value"),
  F("processing_facility_id", 16, "s", "", 0, "", "value"),
  F("processing_system_id", 8, "s", "", 0, "", "value"),
  F("processing_version_id", 8, "s", "", 0, "", "value"),
  F("processing_code_of_processing_facility", 16, "s", "", 0, "", "value"),
  F("product_level_code", 16, "s", "", 0, "", "value"),
  F("product_type_specifier", 32, "s", "", 0, "", "value"),
  F("processing_algorithm_id", 32, "s", "", 0, "", "value"),
  F("number_of_looks_in_azimuth", 16, "af", "", 0, "", "value"),
  F("number_of_looks_in_range", 16, "af", "", 0, "", "value"),
  F("bandwidth_per_look_in_azimuth", 16, "af", "Hz", 0, "", "value"),
  F("bandwidth_per_look_in_range", 16, "af", "Hz", 0, "", "value"),
  F("bandwidth_in_azimuth", 16, "af", "Hz", 0, "", "value"),
  F("bandwidth_in_range", 16, "af", "kHz", 0, "", "value"),
  F("weighting_function_in_azimuth", 32, "s", "", 0, "weighting_function_in_azimuth", "code"),
  F("weighting_function_in_range", 32, "s", "", 0, "weighting_function_in_range", "code"),
  F("data_input_source", 16, "s", "", 0, "", "value"),
  F("resolution_in_ground_range", 16, "af", "m", 0, "", "value"),
  F("resolution_in_azimuth", 16, "af", "m", 0, "", "value"),
  F("radiometric_bias", 16, "af", "", 0, "", "value"),
  F("radiometric_gain", 16, "af", "", 0, "", "value"),
  S("along_track_doppler_frequency_center", <<
    F("constant_term_at_early_edge_of_the_image", 16, "af", "Hz", 0, "", "value"),
    F("linear_coefficient_terms_at_early_edge_of_the_image", 16, "af", "Hz/px", 0, "", "value"),
    F("quadratic_coefficient_terms_at_early_edge_of_the_image", 16, "af", "Hz/px^2", 0, "", "value")
  >>),
  F("spare9", 16, "s", "", 0, "", "spare"),
  S("cross_track_doppler_frequency_center", <<
    F("constant_term_at_early_edge_of_the_image", 16, "af", "Hz", 0, "", "value"),
    F("linear_coefficient_terms_at_early_edge_of_the_image", 16, "af", "Hz/px", 0, "", "value"),
    F("quadratic_coefficient_terms_at_early_edge_of_the_image", 16, "af", "Hz/px^2", 0, "", "value")
  >>),
  F("time_direction_indicator_along_pixel_direction", 8, "s", "", 0, "", "value"),
  F("time_direction_indicator_along_line_direction", 8, "s", "", 0, "", "value"),
  S("along_track_doppler_frequency_rate", <<
    F("constant_terms_at_early_edge_of_the_image", 16, "af", "Hz/s", 0, "", "value"),
    F("linear_coefficient_at_early_edge_of_the_image", 16, "af", "Hz/s/px", 0, "", "value"),
    F("quadratic_coefficient_at_early_edge_of_the_image", 16, "af", "Hz/s/px^2", 0, "", "value")
  >>),
  F("spare10", 16, "s", "", 0, "", "spare"),
  S("cross_track_doppler_frequency_rate", <<
    F("constant_terms_at_early_edge_of_the_image", 16, "af", "Hz/s", 0, "", "value"),
    F("linear_coefficient_at_early_edge_of_the_image", 16, "af", "Hz/s/px", 0, "", "value"),
    F("quadratic_coefficient_at_early_edge_of_the_image", 16, "af", "Hz/s/px^2", 0, "", "value")
  >>),
  F("spare11", 16, "s", "", 0, "", "spare"),
  F("line_content_indicator", 8, "s", "", 0, "", "value"),
  F("clutter_lock_applied_flag", 4, "s", "", 0, "clutter_lock_applied_flag", "code"),
  F("auto_focusing_applied_flag", 4, "s", "", 0, "auto_focusing_applied_flag", "code"),
  F("line_spacing", 16, "af", "m", 0, "", "value"),
  F("pixel_spacing", 16, "af", "m", 0, "", "value"),
  F("processor_range_compression_designator", 16, "s", "", 0, "", "value"),
  F("doppler_frequency_approximately_constant_coefficient_term", 16, "af", "Hz", 0, "", "value"),
  F("doppler_frequency_approximately_linear_coefficient_term", 16, "af", "Hz/km", 0, "", "value"),
  F("calibration_mode_data_location_flag", 4, "ai", "", 0, "", "code"),
  S("calibration_at_the_side_of_start", <<
    F("start_line_number", 8, "ai", "", 0, "", "value"),
    F("end_line_number", 8, "ai", "", 0, "", "value")
  >>),
  S("calibration_at_the_side_of_end", <<
    F("start_line_number", 8, "ai", "", 0, "", "value"),
    F("end_line_number", 8, "ai", "", 0, "", "value")
  >>),
  F("prf_switching_indicator", 4, "ai", "", 0, "", "value"),
  F("line_number_of_prf_switching", 8, "ai", "", 0, "", "value"),
  F("direction_of_a_beam_center_in_a_scene_center", 16, "af", "deg", 0, "", "value"),
  F("yaw_steering_mode_flag", 4, "ai", "", 0, "", "value"),
  F("parameter_table_number_of_automatically_setting", 4, "ai", "", 0, "", "value"),
  F("nominal_off_nadir_angle", 16, "af", "", 0, "", "value"),
  F("antenna_beam_number", 4, "ai", "", 0, "", "value"),
  F("spare12", 28, "s", "", 0, "", "spare"),
  S("incidence_angle", <<
    F("constant_term", 20, "af", "rad", 0, "", "value"),
    F("linear_term", 20, "af", "rad/km", 0, "", "value"),
    F("quadratic_term", 20, "af", "rad/km^2", 0, "", "value"),
    F("cubic_term", 20, "af", "rad/km^3", 0, "", "value"),
    F("fourth_term", 20, "af", "rad/km^4", 0, "", "value"),
    F("fifth_term", 20, "af", "rad/km^5", 0, "", "value")
  >>),
  S("image_annotation_segment", <<
    F("number_of_annotation_points", 8, "ai", "", 0, "", "value"),
    F("spare", 8, "s", "", 0, "", "spare"),
    A("annotations", 64, "annotation", S("el", <<
      F("line_number_of_annotation_start", 8, "ai", "", 0, "", "value"),
      F("pixel_number_of_annotation_start", 8, "ai", "", 0, "", "value"),
      F("annotation_text", 16, "s", "", 0, "", "value")
    >>)),
    F("system_reserve", 26, "s", "", 0, "", "spare")
  >>)
>>

MapProjectionFields == <<
  Preamble,
  F("blanks", 16, "s", "", 0, "", "spare"),
  S("map_projection_general_information", <<
    F("map_projection_type", 32, "s", "", 0, "", "value"),
    F("number_of_pixels_per_line", 16, "ai", "", 0, "", "value"),
    F("number_of_lines", 16, "ai", "", 0, "", "value"),
    F("inter_line_distance_in_output_scene", 16, "af", "m", 0, "", "value"),
    F("inter_pixel_distance_in_output_scene", 16, "af", "m", 0, "", "value"),
    F("angle_between_projection_aixs_from_true_north_at_processed_scene_center", 16, "af", "deg", 0, "", "value"),
    F("actual_platform_orbital_inclination", 16, "af", "deg", 0, "", "value"),
    F("actual_ascending_node", 16, "af", "deg", 0, "", "value"),
    F("distance_of_platform_at_input_scene_center_from_geocenter", 16, "af", "m", 0, "", "value"),
    F("geodetic_altitude_of_the_platform_relative_to_the_ellipsoid", 16, "af", "m", 0, "", "value"),
    F("actual_ground_speed_at_nadir_at_input_scene_center_time", 16, "af", "m/s", 0, "", "value"),
    F("platform_headings", 16, "af", "deg", 0, "", "value")
  >>),
  S("map_projection_ellipsoid_parameters", <<
    F("reference_ellipsoid", 32, "s", "", 0, "", "value"),
    F("semimajor_axis", 16, "af", "m", 0, "", "value"),
    F("semiminor_axis", 16, "af", "m", 0, "", "value"),
    S("datum_shift_parameters", <<
      F("dx", 16, "af", "m", 0, "", "value"),
      F("dy", 16, "af", "m", 0, "", "value"),
      F("dz", 16, "af", "m", 0, "", "value"),
      F("rotation_angle_1", 16, "af", "deg", 0, "", "value"),
      F("rotation_angle_2", 16, "af", "deg", 0, "", "value"),
      F("rotation_angle_3", 16, "af", "deg", 0, "", "value")
    >>),
    F("scale_factor", 16, "af", "", 0, "", "value")
  >>),
  F("map_projection_designator", 32, "s", "", 0, "", "code"),
  S("utm_projection", <<
    F("type", 32, "s", "", 0, "", "value"),
    F("zone_number", 4, "s", "", 0, "", "value"),
    S("map_origin", <<
      F("false_easting", 16, "af", "m", 0, "", "value"),
      F("false_northing", 16, "af", "m", 0, "", "value")
    >>),
    S("center_of_projection", <<
      F("longitude", 16, "af", "deg", 0, "", "value"),
      F("latitude", 16, "af", "deg", 0, "", "value")
    >>),
    F("blanks1", 16, "s", "", 0, "", "spare"),
    F("blanks2", 16, "s", "", 0, "", "spare"),
    F("scale_factor", 16, "af", "", 0, "", "value")
  >>),
  S("ups_projection", <<
    F("type", 32, "s", "", 0, "", "value"),
    S("center_of_projection", <<
      F("longitude", 16, "af", "deg", 0, "", "value"),
      F("latitude", 16, "af", "deg", 0, "", "value")
    >>),
    F("scale_factor", 16, "af", "", 0, "", "value")
  >>),
  S("national_system_projection", <<
    F("projection_descriptor", 32, "s", "", 0, "", "value"),
    S("map_origin", <<
      F("false_easting", 16, "af", "m", 0, "", "value"),
      F("false_northing", 16, "af", "m", 0, "", "value")
    >>),
    S("center_of_projection", <<
      F("longitude", 16, "af", "deg", 0, "", "value"),
      F("latitude", 16, "af", "deg", 0, "", "value")
    >>),
    S("standard_parallel", <<
      F("phi1", 16, "af", "deg", 0, "", "value"),
      F("phi2", 16, "af", "deg", 0, "", "value")
    >>),
    S("standard_parallel2", <<
      F("param1", 16, "af", "deg", 0, "", "value"),
      F("param2", 16, "af", "deg", 0, "", "value")
    >>),
    S("central_meridian", <<
      F("param1", 16, "af", "deg", 0, "", "value"),
      F("param2", 16, "af", "deg", 0, "", "value"),
      F("param3", 16, "af", "deg", 0, "", "value")
    >>),
    F("blanks", 64, "s", "", 0, "", "spare")
  >>),
  S("corner_points", <<
    S("projected", <<
      S("top_left_corner", <<
        F("northing", 16, "af", "km", 0, "", "value"),
        F("easting", 16, "af", "km", 0, "", "value")
      >>),
      S("top_right_corner", <<
        F("northing", 16, "af", "km", 0, "", "value"),
        F("easting", 16, "af", "km", 0, "", "value")
      >>),
      S("bottom_right_corner", <<
        F("northing", 16, "af", "km", 0, "", "value"),
        F("easting", 16, "af", "km", 0, "", "value")
      >>),
      S("bottom_left_corner", <<
        F("northing", 16, "af", "km", 0, "", "value"),
        F("easting", 16, "af", "km", 0, "", "value")
      >>)
    >>),
    S("geographic", <<
      S("top_left_corner", <<
        F("latitude", 16, "af", "deg", 0, "", "value"),
        F("longitude", 16, "af", "deg", 0, "", "value")
      >>),
      S("top_right_corner", <<
        F("latitude", 16, "af", "deg", 0, "", "value"),
        F("longitude", 16, "af", "deg", 0, "", "value")
      >>),
      S("bottom_right_corner", <<
        F("latitude", 16, "af", "deg", 0, "", "value"),
        F("longitude", 16, "af", "deg", 0, "", "value")
      >>),
      S("bottom_left_corner", <<
        F("latitude", 16, "af", "deg", 0, "", "value"),
        F("longitude", 16, "af", "deg", 0, "", "value")
      >>)
    >>),
    S("terrain_heights_relative_to_ellipsoid", <<
      F("top_left_corner", 16, "af", "deg", 0, "", "value"),
      F("top_right_corner", 16, "af", "deg", 0, "", "value"),
      F("bottom_right_corner", 16, "af", "deg", 0, "", "value"),
      F("bottom_left_corner", 16, "af", "deg", 0, "", "value")
    >>)
  >>),
  S("conversion_coefficients", <<
    S("map_projection_to_pixels", <<
      F("A11", 20, "af", "", 0, "", "value"),
      F("A12", 20, "af", "", 0, "", "value"),
      F("A13", 20, "af", "", 0, "", "value"),
      F("A14", 20, "af", "", 0, "", "value"),
      F("A21", 20, "af", "", 0, "", "value"),
      F("A22", 20, "af", "", 0, "", "value"),
      F("A23", 20, "af", "", 0, "", "value"),
      F("A24", 20, "af", "", 0, "", "value")
    >>),
    S("pixels_to_map_projection", <<
      F("B11", 20, "af", "", 0, "", "value"),
      F("B12", 20, "af", "", 0, "", "value"),
      F("B13", 20, "af", "", 0, "", "value"),
      F("B14", 20, "af", "", 0, "", "value"),
      F("B21", 20, "af", "", 0, "", "value"),
      F("B22", 20, "af", "", 0, "", "value"),
      F("B23", 20, "af", "", 0, "", "value"),
      F("B24", 20, "af", "", 0, "", "value")
    >>)
  >>),
  F("blanks", 36, "s", "", 0, "", "spare")
>>

PlatformPositionFields == <<
  Preamble,
  F("orbital_elements_designator", 32, "s", "", 0, "orbital_elements_designator", "code"),
  S("orbital_elements", <<
    S("position", <<
      F("x", 16, "af", "m", 0, "", "value"),
      F("y", 16, "af", "m", 0, "", "value"),
      F("z", 16, "af", "m", 0, "", "value")
    >>),
    S("velocity", <<
      F("x", 16, "af", "m/s", 0, "", "value"),
      F("y", 16, "af", "m/s", 0, "", "value"),
      F("z", 16, "af", "m/s", 0, "", "value")
    >>)
  >>),
  F("number_of_data_points", 4, "ai", "", 0, "", "count"),
  S("datetime_of_first_point", <<
    F("date", 12, "s", "", 0, "", "datetime"),
    F("day_of_year", 4, "ai", "", 0, "", "datetime"),
    F("seconds_of_day", 22, "af", "", 0, "", "datetime")
  >>),
  F("time_interval_between_data_points", 22, "af", "s", 0, "", "value"),
  F("reference_coordinate_system", 64, "s", "", 0, "", "value"),
  F("greenwich_mean_hour_angle", 22, "af", "deg", 0, "", "value"),
  S("nominal_error", <<
    S("position", <<
      F("along_track", 16, "af", "m", 0, "", "value"),
      F("across_track", 16, "af", "m", 0, "", "value"),
      F("radial", 16, "af", "m", 0, "", "value")
    >>),
    S("velocity", <<
      F("along_track", 16, "af", "m/s", 0, "", "value"),
      F("across_track", 16, "af", "m/s", 0, "", "value"),
      F("radial", 16, "af", "m/s", 0, "", "value")
    >>)
  >>),
  A("positions", 28, "positions", S("el", <<
    S("position", <<
      F("x", 22, "af", "m", 0, "", "value"),
      F("y", 22, "af", "m", 0, "", "value"),
      F("z", 22, "af", "m", 0, "", "value")
    >>),
    S("velocity", <<
      F("x", 22, "af", "m/s", 0, "", "value"),
      F("y", 22, "af", "m/s", 0, "", "value"),
      F("z", 22, "af", "m/s", 0, "", "value")
    >>)
  >>)),
  F("blanks1", 18, "s", "", 0, "", "spare"),
  F("occurrence_flag_of_a_leap_second", 1, "ai", "", 0, "", "code"),
  F("blanks2", 579, "s", "", 0, "", "spare")
>>

AttitudeFields(np, len) == <<
  Preamble,
  F("number_of_points", 4, "ai", "", 0, "", "count"),
  A("data_points", np, "points", S("el", <<
    S("time", <<
      F("day_of_year", 4, "ai", "", 0, "", "datetime"),
      F("millisecond_of_day", 8, "ai", "", 0, "", "datetime")
    >>),
    S("attitude", <<
      F("pitch_error", 4, "ai", "", 0, "", "code"),
      F("roll_error", 4, "ai", "", 0, "", "code"),
      F("yaw_error", 4, "ai", "", 0, "", "code"),
      F("pitch", 14, "af", "deg", 0, "", "value"),
      F("roll", 14, "af", "deg", 0, "", "value"),
      F("yaw", 14, "af", "deg", 0, "", "value")
    >>),
    S("rates", <<
      F("pitch_error", 4, "ai", "", 0, "", "code"),
      F("roll_error", 4, "ai", "", 0, "", "code"),
      F("yaw_error", 4, "ai", "", 0, "", "code"),
      F("pitch", 14, "af", "deg/s", 0, "", "value"),
      F("roll", 14, "af", "deg/s", 0, "", "value"),
      F("yaw", 14, "af", "deg/s", 0, "", "value")
    >>)
  >>)),
  F("blanks", len - 16 - 120 * np, "s", "", 0, "", "spare")
>>

RadiometricFields == <<
  Preamble,
  F("radiometric_data_records_sequence_number", 4, "ai", "", 0, "", "value"),
  F("number_of_radiometric_fields", 4, "ai", "", 0, "", "value"),
  F("calibration_factor", 16, "af", "", 0, "", "value"),
  S("distortion_matrix", <<
    S("transmission", <<
      F("dt11", 32, "ac", "", 0, "", "value"),
      F("dt12", 32, "ac", "", 0, "", "value"),
      F("dt21", 32, "ac", "", 0, "", "value"),
      F("dt22", 32, "ac", "", 0, "", "value")
    >>),
    S("reception", <<
      F("dr11", 32, "ac", "", 0, "", "value"),
      F("dr12", 32, "ac", "", 0, "", "value"),
      F("dr21", 32, "ac", "", 0, "", "value"),
      F("dr22", 32, "ac", "", 0, "", "value")
    >>)
  >>),
  F("blanks", 9568, "s", "", 0, "", "spare")
>>

DataQualityFields(nch) == <<
  Preamble,
  F("record_number", 4, "ai", "", 0, "", "value"),
  F("sar_channel_id", 4, "s", "", 0, "", "value"),
  F("date_of_the_last_calibration_update", 6, "s", "", 0, "", "value"),
  F("number_of_channels", 4, "ai", "", 0, "", "count"),
  S("absolute_radiometric_data_quality", <<
    F("islr", 16, "af", "dB", 0, "", "value"),
    F("pslr", 16, "af", "dB", 0, "", "value"),
    F("azimuth_ambiguity_rate", 16, "af", "", 0, "", "value"),
    F("range_ambiguity_rate", 16, "af", "", 0, "", "value"),
    F("estimate_of_snr", 16, "af", "dB", 0, "", "value"),
    F("ber", 16, "af", "dB", 0, "", "value"),
    F("slant_range_resolution", 16, "af", "m", 0, "", "value"),
    F("azimuth_resolution", 16, "af", "m", 0, "", "value"),
    F("radiometric_resolution", 16, "af", "dB", 0, "", "value"),
    F("instantaneous_dynamic_range", 16, "af", "dB", 0, "", "value"),
    S("nominal_absolute_radiometric_calibration_uncertainty", <<
      F("magnitude", 16, "af", "dB", 0, "", "value"),
      F("phase", 16, "af", "deg", 0, "", "value")
    >>)
  >>),
  S("relative_radiometric_quality", <<
    A("nominal_relative_radiometric_calibration_uncertainty", nch, "channel", S("el", <<
      F("magnitude", 16, "af", "dB", 0, "", "value"),
      F("phase", 16, "af", "deg", 0, "", "value")
    >>)),
    F("blanks", 512 - 32 * nch, "s", "", 0, "", "spare")
  >>),
  S("absolute_geometric_quality", <<
    S("absolute_location_error", <<
      F("along_track", 16, "af", "m", 0, "", "value"),
      F("across_track", 16, "af", "m", 0, "", "value")
    >>),
    S("geometric_distortion_scale", <<
      F("line_direction", 16, "af", "", 0, "", "value"),
      F("pixel_direction", 16, "af", "", 0, "", "value")
    >>),
    F("geometric_distortion_skew", 16, "af", "", 0, "", "value"),
    F("scene_orientation_error", 16, "af", "", 0, "", "value")
  >>),
  S("relative_geometric_quality", <<
    A("relative_misregistration_error", nch, "channel", S("el", <<
      F("along_track", 16, "af", "m", 0, "", "value"),
      F("across_track", 16, "af", "m", 0, "", "value")
    >>)),
    F("blanks", 790 - 32 * nch, "s", "", 0, "", "spare")
  >>)
>>

FacilityFields(len) == <<
  Preamble,
  F("record_sequence_number", 4, "ai", "", 0, "", "code"),
  F("blanks", 50, "s", "", 0, "", "spare"),
  F("raw_file_data", len - 66, "s", "", 0, "", "value")
>>

Facility5Fields == <<
  Preamble,
  F("record_sequence_number", 4, "ai", "", 0, "", "code"),
  S("conversion_from_map_projection_to_pixel", <<
    A("a", 10, "coeff", F("el", 20, "af", "", 0, "", "value")),
    A("b", 10, "coeff", F("el", 20, "af", "", 0, "", "value"))
  >>),
  F("calibration_mode_data_location_flag", 4, "ai", "", 0, "calibration_mode_data_location_flag", "code"),
  S("calibration_at_upper_image", <<
    F("start_line_number", 8, "ai", "", 0, "", "value"),
    F("end_line_number", 8, "ai", "", 0, "", "value")
  >>),
  S("calibration_at_bottom_image", <<
    F("start_line_number", 8, "ai", "", 0, "", "value"),
    F("end_line_number", 8, "ai", "", 0, "", "value")
  >>),
  F("prf_switching_flag", 4, "ai", "", 0, "", "code"),
  F("start_line_number_of_prf_switching", 8, "ai", "", 0, "", "value"),
  F("blanks1", 8, "s", "", 0, "", "spare"),
  S("number_of_loss_lines", <<
    F("level1.0", 8, "ai", "", 0, "", "value"),
    F("others", 8, "ai", "", 0, "", "value")
  >>),
  F("blanks2", 312, "s", "", 0, "", "spare"),
  F("system_reserve", 224, "s", "", 0, "", "spare"),
  S("conversion_from_pixel_to_geographic", <<
    A("a", 25, "coeff", F("el", 20, "af", "", 0, "", "value")),
    A("b", 25, "coeff", F("el", 20, "af", "", 0, "", "value")),
    F("origin_pixel", 20, "af", "", 0, "", "value"),
    F("origin_line", 20, "af", "", 0, "", "value")
  >>),
  S("conversion_from_geographic_to_pixel", <<
    A("c", 25, "coeff", F("el", 20, "af", "", 0, "", "value")),
    A("d", 25, "coeff", F("el", 20, "af", "", 0, "", "value")),
    F("origin_latitude", 20, "af", "", 0, "", "value"),
    F("origin_longitude", 20, "af", "", 0, "", "value")
  >>),
  F("blanks", 1896, "s", "", 0, "", "spare")
>>

ImageDescriptorFields == <<
  Preamble,
  F("ascii_ebcdic_flag", 2, "s", "", 0, "", "value"),
  F("blanks1", 2, "s", "", 0, "", "spare"),
  F("format_control_document_id", 12, "s", "", 0, "", "value"),
  F("format_control_document_revision_level", 2, "s", "", 0, "", "value"),
  F("file_design_descriptor_revision_letter", 2, "s", "", 0, "", "value"),
  F("software_release_and_revision_number", 12, "s", "", 0, "", "value"),
  F("file_number", 4, "ai", "", 0, "", "value"),
  F("file_id", 16, "s", "", 0, "", "value"),
  F("record_sequence_and_location_type_flag", 4, "s", "", 0, "", "value"),
  F("location_sequence_number", 8, "ai", "", 0, "", "value"),
  F("field_length_of_sequence_number", 4, "ai", "", 0, "", "value"),
  F("record_code_and_location_type_flag", 4, "s", "", 0, "", "value"),
  F("record_code_location", 8, "ai", "", 0, "", "value"),
  F("record_code_field_length", 4, "ai", "", 0, "", "value"),
  F("record_length_and_location_type_flag", 4, "s", "", 0, "", "value"),
  F("record_length_location", 8, "ai", "", 0, "", "value"),
  F("record_length_field_length", 4, "ai", "", 0, "", "value"),
  F("reserved1", 1, "s", "", 0, "", "spare"),
  F("reserved2", 1, "s", "", 0, "", "spare"),
  F("reserved3", 1, "s", "", 0, "", "spare"),
  F("reserved4", 1, "s", "", 0, "", "spare"),
  F("blanks6", 64, "s", "", 0, "", "spare"),
  F("number_of_sar_data_records", 6, "ai", "", 0, "", "count"),
  F("sar_data_record_length", 6, "ai", "", 0, "", "length"),
  F("reserved5", 24, "s", "", 0, "", "spare"),
  S("sample_group_data", <<
    F("bit_length_per_sample", 4, "ai", "", 0, "", "value"),
    F("number_of_samples_per_data_group", 4, "ai", "", 0, "", "value"),
    F("number_of_bytes_per_data_group", 4, "ai", "", 0, "", "value"),
    F("justification_and_order_of_samples_within_data_group", 4, "s", "", 0, "", "value")
  >>),
  S("sar_related_data_in_the_record", <<
    F("number_of_sar_channels", 4, "ai", "", 0, "", "value"),
    F("number_of_lines_per_dataset", 8, "ai", "", 0, "", "count"),
    F("number_of_left_border_pixels_per_line", 4, "ai", "", 0, "", "value"),
    F("number_of_data_groups_per_line", 8, "ai", "", 0, "", "count"),
    F("number_of_right_border_pixels_per_line", 4, "ai", "", 0, "", "value"),
    F("number_of_top_border_lines", 4, "ai", "", 0, "", "value"),
    F("number_of_bottom_border_lines", 4, "ai", "", 0, "", "value"),
    F("interleaving_id", 4, "s", "", 0, "", "value")
  >>),
  S("record_data_in_the_file", <<
    F("number_of_physical_records_per_line", 2, "ai", "", 0, "", "value"),
    F("number_of_physical_records_per_multichannel_line_in_this_file", 2, "ai", "", 0, "", "value"),
    F("number_of_bytes_of_prefix_data_per_record", 4, "ai", "", 0, "", "value"),
    F("number_of_bytes_of_sar_data_per_record", 8, "ai", "", 0, "", "value"),
    F("number_of_bytes_of_suffix_data_per_record", 4, "ai", "", 0, "", "value"),
    F("prefix_suffix_repeat_flag", 4, "s", "", 0, "", "value")
  >>),
  S("prefix_suffix_data_locators", <<
    F("sample_data_line_number_locator", 8, "s", "", 0, "", "value"),
    F("sar_channel_number_locator", 8, "s", "", 0, "", "value"),
    F("time_of_sar_data_line_locator", 8, "s", "", 0, "", "value"),
    F("left_fill_count_locator", 8, "s", "", 0, "", "value"),
    F("right_fill_count_locator", 8, "s", "", 0, "", "value"),
    F("pad_pixels_present_indicator", 4, "s", "", 0, "", "value"),
    F("blanks", 28, "s", "", 0, "", "spare"),
    F("sar_data_line_quality_code_locator", 8, "s", "", 0, "", "value"),
    F("calibration_information_field_locator", 8, "s", "", 0, "", "value"),
    F("gain_values_field_locator", 8, "s", "", 0, "", "value"),
    F("bias_values_field_locator", 8, "s", "", 0, "", "value"),
    F("sar_data_format_type_indicator", 28, "s", "", 0, "", "value"),
    F("sar_data_format_type_code", 4, "s", "", 0, "", "code"),
    F("number_of_left_fill_bits_within_pixel", 4, "ai", "", 0, "", "value"),
    F("number_of_right_fill_bits_within_pixel", 4, "ai", "", 0, "", "value"),
    F("maximum_data_range_of_pixel", 8, "ai", "", 0, "", "value"),
    F("number_of_burst_data", 4, "ai", "", 0, "", "value"),
    F("number_of_lines_per_burst", 4, "ai", "", 0, "", "value")
  >>),
  S("scansar_burst_data_information", <<
    F("number_of_overlap_lines_with_adjacent_bursts", 4, "ai", "", 0, "", "value"),
    F("blanks", 260, "s", "", 0, "", "spare")
  >>)
>>

SignalLineFields(ndata) == <<
  Preamble,
  F("sar_image_data_line_number", 4, "u32", "", 0, "", "value"),
  F("sar_image_data_record_index", 4, "u32", "", 0, "", "value"),
  F("actual_count_of_left_fill_pixels", 4, "u32", "", 0, "", "value"),
  F("actual_count_of_data_pixels", 4, "u32", "", 0, "", "value"),
  F("actual_count_of_right_fill_pixels", 4, "u32", "", 0, "", "value"),
  F("sensor_parameters_update_flag", 4, "u32", "", 0, "", "value"),
  F("sensor_acquisition_date", 12, "ydms", "", 0, "", "value"),
  F("sar_channel_id", 2, "u16", "", 0, "sar_channel_id", "value"),
  F("sar_channel_code", 2, "u16", "", 0, "sar_channel_code", "value"),
  F("transmitted_pulse_polarization", 2, "u16", "", 0, "transmitted_pulse_polarization", "value"),
  F("received_pulse_polarization", 2, "u16", "", 0, "received_pulse_polarization", "value"),
  F("prf", 4, "u32", "mHz", 0, "", "value"),
  F("scan_id", 4, "u32", "", 0, "", "value"),
  F("onboard_range_compressed_flag", 2, "flag", "", 0, "", "value"),
  F("chirp_type_designator", 2, "u16", "", 0, "chirp_type_designator", "value"),
  F("chirp_length", 4, "u32", "ns", 0, "", "value"),
  F("chirp_constant_coefficient", 4, "u32", "Hz", 0, "", "value"),
  F("chirp_linear_coefficient", 4, "u32", "Hz/µs", 0, "", "value"),
  F("chirp_quadratic_coefficient", 4, "u32", "Hz/µs^2", 0, "", "value"),
  F("sensor_acquisition_date_microseconds", 8, "ydus", "", 0, "", "value"),
  F("receiver_gain", 4, "u32", "dB", 0, "", "value"),
  F("invalid_line_flag", 4, "flag", "", 0, "", "value"),
  S("elevation_angle_at_nadir_of_antenna", <<
    F("electronic", 4, "u32", "deg", 0, "", "value"),
    F("mechanic", 4, "u32", "deg", 0, "", "value")
  >>),
  S("antenna_squint_angle", <<
    F("electronic", 4, "u32", "deg", 0, "", "value"),
    F("mechanic", 4, "u32", "deg", 0, "", "value")
  >>),
  F("slant_range_to_first_data_sample", 4, "u32", "m", 0, "", "value"),
  F("data_record_window_position", 4, "u32", "ns", 0, "", "value"),
  F("blanks1", 4, "u32", "", 0, "", "spare"),
  F("platform_position_parameters_update_flag", 4, "u32", "", 0, "platform_position_parameters_update_flag", "value"),
  F("platform_latitude", 4, "u32", "deg", -6, "", "value"),
  F("platform_longitude", 4, "u32", "deg", -6, "", "value"),
  F("platform_altitude", 4, "u32", "deg", 0, "", "value"),
  F("platform_ground_speed", 4, "u32", "cm/s", 0, "", "value"),
  S("platform_velocity", <<
    F("x", 4, "u32", "cm/s", 0, "", "value"),
    F("y", 4, "u32", "cm/s", 0, "", "value"),
    F("z", 4, "u32", "cm/s", 0, "", "value")
  >>),
  S("platform_acceleration", <<
    F("x", 4, "u32", "cm/s^2", 0, "", "value"),
    F("y", 4, "u32", "cm/s^2", 0, "", "value"),
    F("z", 4, "u32", "cm/s^2", 0, "", "value")
  >>),
  F("platform_track_angle", 4, "u32", "deg", -6, "", "value"),
  F("platform_true_track_angle", 4, "u32", "deg", -6, "", "value"),
  S("platform_attitude", <<
    F("pitch", 4, "u32", "deg", -6, "", "value"),
    F("roll", 4, "u32", "deg", -6, "", "value"),
    F("yaw", 4, "u32", "deg", -6, "", "value")
  >>),
  F("latitude_of_first_pixel", 4, "u32", "deg", -6, "", "value"),
  F("latitude_of_center_pixel", 4, "u32", "deg", -6, "", "value"),
  F("latitude_of_last_pixel", 4, "u32", "deg", -6, "", "value"),
  F("longitude_of_first_pixel", 4, "u32", "deg", -6, "", "value"),
  F("longitude_of_center_pixel", 4, "u32", "deg", -6, "", "value"),
  F("longitude_of_last_pixel", 4, "u32", "deg", -6, "", "value"),
  F("burst_number", 4, "u32", "", 0, "", "value"),
  F("line_number_in_this_burst", 4, "u32", "", 0, "", "value"),
  F("blanks2", 60, "bytes", "", 0, "", "spare"),
  F("alos2_frame_number", 4, "u32", "", 0, "", "value"),
  F("palsar_auxiliary_data", 256, "bytes", "", 0, "", "value"),
  F("data", ndata, "pixels", "", 0, "", "pixels")
>>

ProcessedLineFields(ndata) == <<
  Preamble,
  F("sar_image_data_line_number", 4, "u32", "", 0, "", "value"),
  F("sar_image_data_record_index", 4, "u32", "", 0, "", "value"),
  F("actual_count_of_left_fill_pixels", 4, "u32", "", 0, "", "value"),
  F("actual_count_of_data_pixels", 4, "u32", "", 0, "", "value"),
  F("actual_count_of_right_fill_pixels", 4, "u32", "", 0, "", "value"),
  F("sensor_parameters_update_flag", 4, "u32", "", 0, "", "value"),
  F("sensor_acquisition_date", 12, "ydms", "", 0, "", "value"),
  F("sar_channel_id", 2, "u16", "", 0, "sar_channel_id", "value"),
  F("sar_channel_code", 2, "u16", "", 0, "sar_channel_code", "value"),
  F("transmitted_pulse_polarization", 2, "u16", "", 0, "transmitted_pulse_polarization", "value"),
  F("received_pulse_polarization", 2, "u16", "", 0, "received_pulse_polarization", "value"),
  F("prf", 4, "u32", "mHz", 0, "", "value"),
  F("scan_id", 4, "u32", "", 0, "", "value"),
  F("slant_range_to_first_pixel", 4, "u32", "m", 0, "", "value"),
  F("slant_range_to_mid_pixel", 4, "u32", "m", 0, "", "value"),
  F("slant_range_to_last_pixel", 4, "u32", "m", 0, "", "value"),
  F("doppler_centroid_value_at_first_pixel", 4, "u32", "Hz", -3, "", "value"),
  F("doppler_centroid_value_at_mid_pixel", 4, "u32", "Hz", -3, "", "value"),
  F("doppler_centroid_value_at_last_pixel", 4, "u32", "Hz", -3, "", "value"),
  F("azimuth_fm_rate_of_first_pixel", 4, "u32", "Hz/ms", 0, "", "value"),
  F("azimuth_fm_rate_of_mid_pixel", 4, "u32", "Hz/ms", 0, "", "value"),
  F("azimuth_fm_rate_of_last_pixel", 4, "u32", "Hz/ms", 0, "", "value"),
  F("look_angle_of_nadir", 4, "u32", "deg", -6, "", "value"),
  F("azimuth_squint_angle", 4, "u32", "deg", -6, "", "value"),
  F("blanks1", 20, "bytes", "", 0, "", "spare"),
  F("geographic_reference_parameter_update_flag", 4, "u32", "", 0, "", "value"),
  F("latitude_of_first_pixel", 4, "u32", "deg", -6, "", "value"),
  F("latitude_of_center_pixel", 4, "u32", "deg", -6, "", "value"),
  F("latitude_of_last_pixel", 4, "u32", "deg", -6, "", "value"),
  F("longitude_of_first_pixel", 4, "u32", "deg", -6, "", "value"),
  F("longitude_of_center_pixel", 4, "u32", "deg", -6, "", "value"),
  F("longitude_of_last_pixel", 4, "u32", "deg", -6, "", "value"),
  F("northing_of_first_pixel", 4, "u32", "m", 0, "", "value"),
  F("blanks2", 4, "bytes", "", 0, "", "spare"),
  F("northing_of_last_pixel", 4, "u32", "m", 0, "", "value"),
  F("easting_of_first_pixel", 4, "u32", "m", 0, "", "value"),
  F("blanks3", 4, "bytes", "", 0, "", "spare"),
  F("easting_of_last_pixel", 4, "u32", "m", 0, "", "value"),
  F("line_heading", 4, "u32", "deg", -6, "", "value"),
  F("blanks4", 8, "bytes", "", 0, "", "spare"),
  F("data", ndata, "pixels", "", 0, "", "pixels")
>>

TrailerDescriptorFields(nlow) == <<
  Preamble,
  F("ascii_ebcdic_code", 2, "s", "", 0, "", "value"),
  F("blanks1", 2, "s", "", 0, "", "spare"),
  F("format_control_document_id", 12, "s", "", 0, "", "value"),
  F("format_control_document_revision_number", 2, "s", "", 0, "", "value"),
  F("record_format_revision_level", 2, "s", "", 0, "", "value"),
  F("software_release_and_revision_number", 12, "s", "", 0, "", "value"),
  F("file_number", 4, "ai", "", 0, "", "value"),
  F("file_id", 16, "s", "", 0, "", "value"),
  F("record_sequence_and_location_type_flag", 4, "s", "", 0, "", "value"),
  F("sequence_number_of_location", 8, "ai", "", 0, "", "value"),
  F("field_length_of_sequence_number", 4, "ai", "", 0, "", "value"),
  F("record_code_and_location_type_flag", 4, "s", "", 0, "", "value"),
  F("location_of_record_code", 8, "ai", "", 0, "", "value"),
  F("field_length_of_record_code", 4, "ai", "", 0, "", "value"),
  F("record_length_and_location_type_flag", 4, "s", "", 0, "", "value"),
  F("location_of_record_length", 8, "ai", "", 0, "", "value"),
  F("field_length_of_record_length", 4, "ai", "", 0, "", "value"),
  F("blanks1", 68, "s", "", 0, "", "spare"),
  S("dataset_summary", <<
    F("number_of_records", 6, "ai", "", 0, "", "count"),
    F("record_length", 6, "ai", "", 0, "", "length")
  >>),
  S("map_projection", <<
    F("number_of_records", 6, "ai", "", 0, "", "count"),
    F("record_length", 6, "ai", "", 0, "", "length")
  >>),
  S("platform_position", <<
    F("number_of_records", 6, "ai", "", 0, "", "count"),
    F("record_length", 6, "ai", "", 0, "", "length")
  >>),
  S("attitude", <<
    F("number_of_records", 6, "ai", "", 0, "", "count"),
    F("record_length", 6, "ai", "", 0, "", "length")
  >>),
  S("radiometric_data", <<
    F("number_of_records", 6, "ai", "", 0, "", "count"),
    F("record_length", 6, "ai", "", 0, "", "length")
  >>),
  S("radiometric_compensation", <<
    F("number_of_records", 6, "ai", "", 0, "", "count"),
    F("record_length", 6, "ai", "", 0, "", "length")
  >>),
  S("data_quality_summary", <<
    F("number_of_records", 6, "ai", "", 0, "", "count"),
    F("record_length", 6, "ai", "", 0, "", "length")
  >>),
  S("data_histogram", <<
    F("number_of_records", 6, "ai", "", 0, "", "count"),
    F("record_length", 6, "ai", "", 0, "", "length")
  >>),
  S("range_spectra", <<
    F("number_of_records", 6, "ai", "", 0, "", "count"),
    F("record_length", 6, "ai", "", 0, "", "length")
  >>),
  S("dem_descriptor", <<
    F("number_of_records", 6, "ai", "", 0, "", "count"),
    F("record_length", 6, "ai", "", 0, "", "length")
  >>),
  S("radar_parameter_update", <<
    F("number_of_records", 6, "ai", "", 0, "", "count"),
    F("record_length", 6, "ai", "", 0, "", "length")
  >>),
  S("annotation_data", <<
    F("number_of_records", 6, "ai", "", 0, "", "count"),
    F("record_length", 6, "ai", "", 0, "", "length")
  >>),
  S("detail_processing", <<
    F("number_of_records", 6, "ai", "", 0, "", "count"),
    F("record_length", 6, "ai", "", 0, "", "length")
  >>),
  S("calibration", <<
    F("number_of_records", 6, "ai", "", 0, "", "count"),
    F("record_length", 6, "ai", "", 0, "", "length")
  >>),
  S("gcp", <<
    F("number_of_records", 6, "ai", "", 0, "", "count"),
    F("record_length", 6, "ai", "", 0, "", "length")
  >>),
  F("spare", 60, "s", "", 0, "", "spare"),
  S("facility_related_data_1", <<
    F("number_of_records", 6, "ai", "", 0, "", "count"),
    F("record_length", 8, "ai", "", 0, "", "length")
  >>),
  S("facility_related_data_2", <<
    F("number_of_records", 6, "ai", "", 0, "", "count"),
    F("record_length", 8, "ai", "", 0, "", "length")
  >>),
  S("facility_related_data_3", <<
    F("number_of_records", 6, "ai", "", 0, "", "count"),
    F("record_length", 8, "ai", "", 0, "", "length")
  >>),
  S("facility_related_data_4", <<
    F("number_of_records", 6, "ai", "", 0, "", "count"),
    F("record_length", 8, "ai", "", 0, "", "length")
  >>),
  S("facility_related_data_5", <<
    F("number_of_records", 6, "ai", "", 0, "", "count"),
    F("record_length", 8, "ai", "", 0, "", "length")
  >>),
  F("number_of_low_resolution_images", 6, "ai", "", 0, "", "count"),
  A("low_resolution_image_sizes", nlow, "low_res_image", S("el", <<
    F("record_length", 8, "ai", "", 0, "", "length"),
    F("number_of_pixels", 6, "ai", "", 0, "", "value"),
    F("number_of_lines", 6, "ai", "", 0, "", "value"),
    F("number_of_bytes_per_one_sample", 6, "ai", "", 0, "", "value")
  >>)),
  F("blanks", 224 - 26 * nlow, "s", "", 0, "", "spare")
>>

(***************************************************************************)
(* Fixed CEOS record sizes: the independent anchors of the table.          *)
(***************************************************************************)
PrefixSignal    == SizeSeq(SignalLineFields(0))
PrefixProcessed == SizeSeq(ProcessedLineFields(0))

ASSUME SizeSeq(VolumeDescriptorFields) = 360
ASSUME SizeSeq(FilePointerFields) = 360
ASSUME SizeSeq(TextRecordFields) = 360
ASSUME SizeSeq(LeaderDescriptorFields) = 720
ASSUME SizeSeq(DatasetSummaryFields) = 4096
ASSUME SizeSeq(MapProjectionFields) = 1620
ASSUME SizeSeq(PlatformPositionFields) = 4680
ASSUME \A np \in 1..136 : SizeSeq(AttitudeFields(np, 16384)) = 16384 /\ WellFormed(AttitudeFields(np, 16384))
ASSUME ~ WellFormed(AttitudeFields(137, 16384))
ASSUME SizeSeq(RadiometricFields) = 9860
ASSUME \A nch \in 1..16 : SizeSeq(DataQualityFields(nch)) = 1620 /\ WellFormed(DataQualityFields(nch))
ASSUME ~ WellFormed(DataQualityFields(17))
ASSUME \A len \in {66, 67, 100, 1000, 5000, 325000} : SizeSeq(FacilityFields(len)) = len /\ WellFormed(FacilityFields(len))
ASSUME ~ WellFormed(FacilityFields(65))
ASSUME SizeSeq(Facility5Fields) = 5000
ASSUME SizeSeq(ImageDescriptorFields) = 720
ASSUME PrefixSignal = 544
ASSUME PrefixProcessed = 192
ASSUME \A nlow \in 0..7 : SizeSeq(TrailerDescriptorFields(nlow)) = 720 /\ WellFormed(TrailerDescriptorFields(nlow))
=============================================================================
