SPECIFICATION SpecH
CONSTANTS
  Images = {"a"}
  Procs = {1, 2}
  Rpcs = {1}
  B = 2
  MaxOps = 2
  AllowCrash = FALSE
  AllowEnv = FALSE
  TornIsMiss = TRUE
INVARIANT AtomicSources
CHECK_DEADLOCK FALSE
