SPECIFICATION TSpec
CONSTANTS
  MaxN = 1
  MaxP = 1
  MaxRpc = 1
  PrefixLens = {192}
  SampleSizes = {2}
POSTCONDITION Consumed
CHECK_DEADLOCK FALSE
