---------------------------- MODULE SummaryGrammar ----------------------------
(***************************************************************************)
(* summary.txt (property C14): a text of lines  Sec_Key="value".           *)
(* A summary is a sequence of abstract lines [sec, key, val, bad]; `bad`   *)
(* names a grammar violation ("" = well formed).  Parse either reports     *)
(* EXACTLY the set of malformed line numbers (0-based, as the error        *)
(* messages number them) or returns the section -> key -> value map; the   *)
(* roles of the product files follow the NUMBER in the key                 *)
(* (...ProductFileName01 = volume directory, 02 = leader, last = trailer,  *)
(* the others = images in number order), never the line order.            *)
(* TLC checks OrderIndependent over all permutations of small summaries    *)
(* and ErrorSetExact over all corruption subsets.  Conv is the documented  *)
(* conversion table handed to the conformance harness.                     *)
(***************************************************************************)
EXTENDS Integers, Sequences, FiniteSets, TLC

Corruptions == <<"no-underscore", "short-section", "digit-section", "no-equals", "no-open-quote", "no-close-quote", "trailing-garbage",
                 "trailing-space", "leading-space", "empty-line", "single-quotes", "cut-behind-open-quote", "cut-behind-equals">>

\* key pattern -> conversion class (first match wins); "*" = any other key of the section
Conv == <<
  <<"scs", "SceneID", "scene-id">>, <<"scs", "SceneShift", "int">>, <<"scs", "*", "str">>,
  <<"pds", "ProductID", "product-id">>, <<"pds", "ResamplingMethod", "resampling">>, <<"pds", "UTM_ZoneNo", "int">>,
  <<"pds", "MapDirection", "str">>, <<"pds", "OrbitDataPrecision", "str">>, <<"pds", "AttitudeDataPrecision", "str">>, <<"pds", "*", "float">>,
  <<"img", "*DateTime*", "datetime">>, <<"img", "*", "float">>,
  <<"pdi", "*ProductFileName*", "file">>, <<"pdi", "Cnt*", "dropped">>, <<"pdi", "NoOfPixels_*", "shape">>, <<"pdi", "NoOfLines_*", "shape">>,
  <<"pdi", "ProductFormat", "str">>, <<"pdi", "BitPixel", "int">>, <<"pdi", "ProductDataSize", "float">>, <<"pdi", "*", "str">>,
  <<"ach", "*", "na-if-empty">>, <<"rad", "*", "str">>, <<"odi", "*", "str">>,
  <<"lbi", "ObservationDate", "date">>, <<"lbi", "ProcessFacility", "facility">>, <<"lbi", "*", "str">> >>

SectionNames == << <<"odi", "ordering_information">>, <<"scs", "scene_specification">>, <<"pds", "product_specification">>,
                   <<"img", "image_information">>, <<"pdi", "product_information">>, <<"ach", "autocheck">>,
                   <<"rad", "result_information">>, <<"lbi", "label_information">> >>
Resampling == << <<"NN", "nearest-neighbor">>, <<"BL", "bilinear">>, <<"CC", "cubic convolution">> >>
Facilities == << <<"SCMO", "spacecraft control mission operation system">>, <<"EICS", "earth intelligence collection and sharing system">> >>

Sections == {"scs", "pds", "pdi", "ach"}
Keys == {"A", "B", "File01", "File02", "File03"}
GoodLines == { [sec |-> s, key |-> k, val |-> v, bad |-> ""] : s \in Sections, k \in {"A", "B"}, v \in {"x", ""} }
          \cup { [sec |-> "pdi", key |-> k, val |-> k, bad |-> ""] : k \in {"File01", "File02", "File03"} }
BadLines  == { [sec |-> "scs", key |-> "A", val |-> "x", bad |-> c] : c \in {"no-underscore", "no-close-quote", "trailing-garbage"} }

IsFile(l) == l.key \in {"File01", "File02", "File03"}
ErrorSet(lines) == { i - 1 : i \in { j \in 1..Len(lines) : lines[j].bad # "" } }

\* file roles from the number in the key
FileKeys(lines) == { lines[i].key : i \in { j \in 1..Len(lines) : IsFile(lines[j]) } }
Rank(k, ks) == Cardinality({ x \in ks : x < k })          \* order of the zero-padded number = string order
KeyOrder(a, b) == CASE a = b -> FALSE [] a = "File01" -> TRUE [] b = "File01" -> FALSE [] a = "File02" -> TRUE [] OTHER -> FALSE
RankOf(k, ks) == Cardinality({ x \in ks : KeyOrder(x, k) })
Roles(lines) == LET ks == FileKeys(lines) n == Cardinality(ks) IN
                { <<k, IF RankOf(k, ks) = 0 THEN "volume_directory" ELSE IF RankOf(k, ks) = 1 THEN "sar_leader"
                       ELSE IF RankOf(k, ks) = n - 1 THEN "sar_trailer" ELSE "sar_imagery">> : k \in ks }

Parse(lines) == IF ErrorSet(lines) # {} THEN [err |-> ErrorSet(lines), map |-> {}, roles |-> {}]
                ELSE [err |-> {}, map |-> { <<lines[i].sec, lines[i].key, lines[i].val>> : i \in 1..Len(lines) }, roles |-> Roles(lines)]

CONSTANT MaxLines
Perms(n) == { p \in [1..n -> 1..n] : \A i, j \in 1..n : i # j => p[i] # p[j] }
UniqueKeys(lines) == \A i, j \in 1..Len(lines) : i # j => <<lines[i].sec, lines[i].key>> # <<lines[j].sec, lines[j].key>>

VARIABLES text, perm, pc
vars == <<text, perm, pc>>
Summaries == UNION { { s \in [1..n -> GoodLines \cup BadLines] : UniqueKeys(s) } : n \in 1..MaxLines }
Init == text \in Summaries /\ perm \in Perms(Len(text)) /\ pc = "parse"
Step == pc = "parse" /\ pc' = "done" /\ UNCHANGED <<text, perm>>
Next == Step \/ (pc = "done" /\ UNCHANGED vars)
Spec == Init /\ [][Next]_vars

Permuted == [i \in 1..Len(text) |-> text[perm[i]]]
\* the parsed map and the file roles do not depend on the order of the lines
OrderIndependent == ErrorSet(text) = {} => (Parse(Permuted).map = Parse(text).map /\ Parse(Permuted).roles = Parse(text).roles)
\* a malformed summary reports exactly the malformed lines, wherever they stand
ErrorSetExact    == /\ Cardinality(Parse(text).err) = Cardinality({ i \in 1..Len(text) : text[i].bad # "" })
                    /\ \A i \in 1..Len(text) : (text[i].bad # "") <=> ((i - 1) \in Parse(text).err)
                    /\ Parse(Permuted).err = { j - 1 : j \in { k \in 1..Len(text) : text[perm[k]].bad # "" } }
=============================================================================
