---------------------------- MODULE MC_Calendar ----------------------------
EXTENDS Calendar, Json, IOUtils, SequencesExt
ASSUME "INSTANTS_FILE" \in DOMAIN IOEnv => JsonSerialize(IOEnv.INSTANTS_FILE, SetToSeq({ Encoded(i) : i \in Instants }))
ASSUME DaysBeforeYear(2020) = 7305 /\ DayNumberYmd(2020, 2, 29) = 7364 /\ DayNumber(2020, 60) = 7364
=============================================================================
