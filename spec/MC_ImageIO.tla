---------------------------- MODULE MC_ImageIO ----------------------------
EXTENDS ImageIO, Json, IOUtils, SequencesExt

\* hand the enumerated family (geometries, truncation points, selections) to the conformance harness
GeomCases == LET q == SetToSeq(Geoms) IN
             [i \in 1..Len(q) |-> [geom |-> q[i], cuts |-> SetToSeq(Cuts(q[i]) \ {Full(q[i])}),
                                   full |-> Full(q[i]),
                                   sels |-> SetToSeq({ s.rows : s \in {x \in Selections(q[i].n) : x.kind = "slice"} })]]
ASSUME "GEOMS_FILE" \in DOMAIN IOEnv => JsonSerialize(IOEnv.GEOMS_FILE, GeomCases)
=============================================================================
