SPECIFICATION Spec
CONSTANTS
  MaxLen = 4
  MaxArr = 2
INVARIANT InRange
INVARIANT DropOnlyInt
INVARIANT Progression
INVARIANT NegEquiv
INVARIANT Reverse
INVARIANT MaskIsArray
INVARIANT Compose
CHECK_DEADLOCK FALSE
