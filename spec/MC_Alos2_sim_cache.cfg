SPECIFICATION Spec
CONSTANTS
  Images <- TwoImages
  Locs <- OneLoc
  Versions = {0, 1}
  Rpcs = {1, 2, 3}
  Slots = {1, 2}
  MaxOps = 12
  EnvRedeliver = TRUE
  EnvDamage = FALSE
  EnvCaches = TRUE
  EnvCacheDir = TRUE
  UserLoads = FALSE
  UserCopies = FALSE
  UseCli = TRUE
INVARIANT TypeOK
INVARIANT FailStop
INVARIANT MissingIsOSError
INVARIANT TrailerIrrelevant
INVARIANT NoConsultWhenDisabled
INVARIANT RefreshWorks
INVARIANT RepairAfterCreate
INVARIANT JudgedIsCurrent
INVARIANT UnjudgedHasCause
PROPERTY WritesOnlyWhenAsked
PROPERTY TreesKeepIdentity
CHECK_DEADLOCK FALSE
