---------------------------- MODULE LoadsProofs ----------------------------
(***************************************************************************)
(* Unbounded counterpart of the TLC runs of Loads.tla (C19): for ANY set   *)
(* of threads and ANY numbers of chunks, when every load opens a handle of *)
(* its own (SharedHandle = FALSE -- what array.py does), every read is     *)
(* served from the offset its own thread sought, with or without the lock. *)
(* Checked by tlapm (SMT / Zenon / Isabelle / PTL); TLC only visits 2-4    *)
(* threads.                                                                *)
(***************************************************************************)
EXTENDS Loads, SequenceTheorems, TLAPS

ASSUME NoShare == SharedHandle = FALSE
ASSUME ThreadsNat == Threads \subseteq Nat
ASSUME ChunksNat == Chunks \in [Threads -> Nat]

States == {"start", "locked", "opened", "seeked", "closing", "closed", "done"}

IInv == /\ tpc \in [Threads -> States]
        /\ ci \in [Threads -> Nat]
        /\ got \in [Threads -> Seq(Int)]
        /\ hpos \in [Handles -> Int]
        /\ \A t \in Threads : ci[t] >= 1 /\ Len(got[t]) = ci[t] - 1
        /\ \A t \in Threads : \A k \in 1..Len(got[t]) : got[t][k] = Off(t, k)
        /\ \A t \in Threads : tpc[t] = "seeked" => hpos[H(t)] = Off(t, ci[t])

LEMMA HIn == \A t \in Threads : H(t) \in Handles
  BY DEF Handles
LEMMA HInj == \A a, b \in Threads : H(a) = H(b) => a = b
  BY NoShare DEF H
LEMMA OffInt == \A t \in Threads : \A c \in Int : Off(t, c) \in Int
  BY ThreadsNat DEF Off

LEMMA InitInv == Init => IInv
  <1> SUFFICES ASSUME Init PROVE IInv OBVIOUS
  <1>1 tpc \in [Threads -> States] BY DEF Init, States
  <1>2 ci \in [Threads -> Nat] BY DEF Init
  <1>3 got \in [Threads -> Seq(Int)] BY DEF Init
  <1>4 hpos \in [Handles -> Int] BY DEF Init
  <1>5 \A t \in Threads : ci[t] >= 1 /\ Len(got[t]) = ci[t] - 1 BY DEF Init
  <1>6 \A t \in Threads : \A k \in 1..Len(got[t]) : got[t][k] = Off(t, k) BY DEF Init
  <1>7 \A t \in Threads : tpc[t] = "seeked" => hpos[H(t)] = Off(t, ci[t]) BY DEF Init
  <1> QED BY <1>1, <1>2, <1>3, <1>4, <1>5, <1>6, <1>7 DEF IInv

LEMMA StepInv == IInv /\ [Next]_vars => IInv'
  <1> SUFFICES ASSUME IInv, [Next]_vars PROVE IInv' OBVIOUS
  <1> USE DEF IInv
  <1>1 ASSUME NEW t \in Threads, Acquire(t) PROVE IInv'
    BY <1>1 DEF Acquire, States
  <1>2 ASSUME NEW t \in Threads, FOpen(t) PROVE IInv'
    <2>1 tpc' \in [Threads -> States] BY <1>2 DEF FOpen, States
    <2>2 hpos' \in [Handles -> Int] BY <1>2, HIn DEF FOpen
    <2>3 \A u \in Threads : tpc'[u] = "seeked" => hpos'[H(u)] = Off(u, ci'[u])
      <3> SUFFICES ASSUME NEW u \in Threads, tpc'[u] = "seeked" PROVE hpos'[H(u)] = Off(u, ci'[u]) OBVIOUS
      <3>1 u # t BY <1>2 DEF FOpen
      <3>2 H(u) # H(t) BY <3>1, HInj
      <3>3 tpc[u] = "seeked" BY <1>2, <3>1 DEF FOpen
      <3> QED BY <1>2, <3>2, <3>3, HIn DEF FOpen
    <2> QED BY <1>2, <2>1, <2>2, <2>3 DEF FOpen
  <1>3 ASSUME NEW t \in Threads, Seek(t) PROVE IInv'
    <2>1 tpc' \in [Threads -> States] BY <1>3 DEF Seek, States
    <2>2 hpos' \in [Handles -> Int] BY <1>3, HIn, OffInt DEF Seek
    <2>3 \A u \in Threads : tpc'[u] = "seeked" => hpos'[H(u)] = Off(u, ci'[u])
      <3> SUFFICES ASSUME NEW u \in Threads, tpc'[u] = "seeked" PROVE hpos'[H(u)] = Off(u, ci'[u]) OBVIOUS
      <3>1 CASE u = t BY <1>3, <3>1, HIn DEF Seek
      <3>2 CASE u # t
        <4>1 H(u) # H(t) BY <3>2, HInj
        <4>2 tpc[u] = "seeked" BY <1>3, <3>2 DEF Seek
        <4> QED BY <1>3, <4>1, <4>2, HIn DEF Seek
      <3> QED BY <3>1, <3>2
    <2> QED BY <1>3, <2>1, <2>2, <2>3 DEF Seek
  <1>4 ASSUME NEW t \in Threads, Read(t) PROVE IInv'
    <2>0 hpos[H(t)] = Off(t, ci[t]) /\ hpos[H(t)] \in Int BY <1>4, HIn DEF Read
    <2>1 tpc' \in [Threads -> States] BY <1>4 DEF Read, States
    <2>2 ci' \in [Threads -> Nat] BY <1>4 DEF Read
    <2>3 got' \in [Threads -> Seq(Int)] BY <1>4, <2>0, AppendProperties DEF Read
    <2>4 hpos' \in [Handles -> Int] BY <1>4, HIn DEF Read, Size
    <2>5 \A u \in Threads : ci'[u] >= 1 /\ Len(got'[u]) = ci'[u] - 1
      <3> SUFFICES ASSUME NEW u \in Threads PROVE ci'[u] >= 1 /\ Len(got'[u]) = ci'[u] - 1 OBVIOUS
      <3>1 CASE u = t
        <4>1 got[t] \in Seq(Int) /\ hpos[H(t)] \in Int /\ ci[t] \in Nat BY <2>0
        <4>2 Len(Append(got[t], hpos[H(t)])) = Len(got[t]) + 1 BY <4>1, AppendProperties
        <4>3 got'[t] = Append(got[t], hpos[H(t)]) /\ ci'[t] = ci[t] + 1 BY <1>4 DEF Read
        <4>4 Len(got[t]) = ci[t] - 1 /\ ci[t] >= 1 OBVIOUS
        <4> QED BY <3>1, <4>1, <4>2, <4>3, <4>4
      <3>2 CASE u # t BY <1>4, <3>2 DEF Read
      <3> QED BY <3>1, <3>2
    <2>6 \A u \in Threads : \A k \in 1..Len(got'[u]) : got'[u][k] = Off(u, k)
      <3> SUFFICES ASSUME NEW u \in Threads, NEW k \in 1..Len(got'[u]) PROVE got'[u][k] = Off(u, k) OBVIOUS
      <3>1 CASE u # t BY <1>4, <3>1 DEF Read
      <3>2 CASE u = t
        <4>1 got'[t] = Append(got[t], hpos[H(t)]) BY <1>4 DEF Read
        <4>2 Len(got'[t]) = Len(got[t]) + 1 BY <4>1, <2>0, AppendProperties
        <4>3 CASE k <= Len(got[t])
          <5>1 got[t] \in Seq(Int) /\ hpos[H(t)] \in Int BY <2>0
          <5>2 k \in 1..Len(got[t]) BY <4>3
          <5>3 Append(got[t], hpos[H(t)])[k] = got[t][k] BY <5>1, <5>2, AppendProperties
          <5>4 got[t][k] = Off(t, k) BY <5>2
          <5> QED BY <4>1, <5>3, <5>4, <3>2
        <4>4 CASE k = Len(got[t]) + 1 BY <4>1, <4>4, <2>0, <3>2, AppendProperties
        <4> QED BY <4>2, <4>3, <4>4, <3>2
      <3> QED BY <3>1, <3>2
    <2>7 \A u \in Threads : tpc'[u] = "seeked" => hpos'[H(u)] = Off(u, ci'[u])
      <3> SUFFICES ASSUME NEW u \in Threads, tpc'[u] = "seeked" PROVE hpos'[H(u)] = Off(u, ci'[u]) OBVIOUS
      <3>1 u # t BY <1>4 DEF Read
      <3>2 H(u) # H(t) BY <3>1, HInj
      <3>3 tpc[u] = "seeked" /\ ci'[u] = ci[u] BY <1>4, <3>1 DEF Read
      <3> QED BY <1>4, <3>2, <3>3, HIn DEF Read
    <2> QED BY <2>1, <2>2, <2>3, <2>4, <2>5, <2>6, <2>7
  <1>5 ASSUME NEW t \in Threads, FClose(t) PROVE IInv'
    BY <1>5 DEF FClose, States
  <1>6 ASSUME NEW t \in Threads, Release(t) PROVE IInv'
    BY <1>6 DEF Release, States
  <1>7 CASE UNCHANGED vars BY <1>7 DEF vars
  <1> QED BY <1>1, <1>2, <1>3, <1>4, <1>5, <1>6, <1>7 DEF Next

LEMMA InvServed == IInv => ServedIsWanted
  BY DEF IInv, ServedIsWanted

THEOREM PrivateHandlesSafe == Spec => []ServedIsWanted
  <1>1 Init => IInv BY InitInv
  <1>2 IInv /\ [Next]_vars => IInv' BY StepInv
  <1>3 IInv => ServedIsWanted BY InvServed
  <1> QED BY <1>1, <1>2, <1>3, PTL DEF Spec
=============================================================================
