----------------------------- MODULE Hierarchy -----------------------------
(***************************************************************************)
(* The in-memory group tree every reader of the package builds and         *)
(* to_datatree() walks (ceos_alos2/hierarchy.py: Group.__post_init__,      *)
(* _adjust_item, __setitem__, decouple, subtree; ceos_alos2/io.py nests    *)
(* the image groups below "/imagery" and everything below "/").            *)
(*                                                                         *)
(* A group VALUE is a function from positions (sequences of item names,    *)
(* <<>> = the group itself) to nodes [path, url, items]: `path` is the     *)
(* string the object carries in its .path attribute, `url` the string in   *)
(* .url (NoUrl = None), `items` the insertion-ordered <<name, kind>> pairs *)
(* of its dict (kind "g" group / "v" variable).  One action per mutating   *)
(* entry point: constructing a group around existing values, and           *)
(* g[name] = value on any group reachable from the held root.  What the    *)
(* code does -- an inserted group is COPIED and re-pathed recursively, a   *)
(* missing url is inherited from the new parent, assigning to an existing  *)
(* name keeps its slot in the order -- is modelled as it is.               *)
(*                                                                         *)
(* Properties (C13: the set, order and paths of the groups of the returned *)
(* tree): every node's path is the join of the root's path and its         *)
(* position; the walk `subtree` lists every group exactly once, parents    *)
(* first, siblings in insertion order; an insertion never changes nodes    *)
(* outside the assigned slot.                                              *)
(***************************************************************************)
EXTENDS Integers, Sequences, FiniteSets, TLC

CONSTANTS Names,        \* item names, e.g. {"a", "b"}
          MaxNodes,     \* bound on the number of groups in the held tree
          MaxOps        \* bound on the history length

NoUrl  == "none"
NoPath == "none"         \* Group(path=None, ...)

\* posixpath.join(p, n) for a name without slashes
Join(p, n) == IF p = "/" THEN "/" \o n ELSE p \o "/" \o n

Front(s) == SubSeq(s, 1, Len(s) - 1)
Last(s)  == s[Len(s)]
IsPrefix(p, s) == Len(p) <= Len(s) /\ SubSeq(s, 1, Len(p)) = p
Drop(s, k)     == SubSeq(s, k + 1, Len(s))

RECURSIVE PathFrom(_, _)
PathFrom(base, pos) == IF pos = <<>> THEN base ELSE Join(PathFrom(base, Front(pos)), Last(pos))

ItemNames(node) == { node.items[i][1] : i \in 1..Len(node.items) }
Kind(node, n) == LET i == CHOOSE j \in 1..Len(node.items) : node.items[j][1] = n IN node.items[i][2]

\* the value `v` as it sits below a parent with path pp / url pu under the name n (_adjust_item): copied, re-pathed, url inherited
RECURSIVE UrlIn(_, _, _)
UrlIn(v, pu, pos) == IF v[pos].url # NoUrl THEN v[pos].url ELSE IF pos = <<>> THEN pu ELSE UrlIn(v, pu, Front(pos))
Adjust(v, pp, pu, n) ==
    [pos \in DOMAIN v |-> [path |-> PathFrom(Join(pp, n), pos), url |-> UrlIn(v, pu, pos), items |-> v[pos].items]]

\* positions of `v` moved below the prefix `at`
Graft(v, at) == [pos \in { at \o q : q \in DOMAIN v } |-> v[Drop(pos, Len(at))]]
Merge(f, g)  == [x \in (DOMAIN f) \cup (DOMAIN g) |-> IF x \in DOMAIN g THEN g[x] ELSE f[x]]
Without(f, at) == [x \in { y \in DOMAIN f : ~IsPrefix(at, y) } |-> f[x]]     \* the subtree below `at` (inclusive) removed

\* insertion order of a dict: assigning to an existing key keeps its slot, a new key goes last
PutItem(items, n, k) ==
    IF \E i \in 1..Len(items) : items[i][1] = n
    THEN [i \in 1..Len(items) |-> IF items[i][1] = n THEN <<n, k>> ELSE items[i]]
    ELSE Append(items, <<n, k>>)

\* g[pos][n] = v   (v a group value)  /  = a variable
SetGroup(g, pos, n, v) ==
    LET cut  == Without(g, pos \o <<n>>)
        base == [cut EXCEPT ![pos].items = PutItem(g[pos].items, n, "g")]
    IN  Merge(base, Graft(Adjust(v, g[pos].path, g[pos].url, n), pos \o <<n>>))
SetVar(g, pos, n) ==
    LET cut == Without(g, pos \o <<n>>) IN [cut EXCEPT ![pos].items = PutItem(g[pos].items, n, "v")]

\* Group(path=p, url=u, data={}) and Group(path=p, url=u, data={n: v}) -- __post_init__
Empty(p, u) == (<<>> :> [path |-> IF p = NoPath THEN "/" ELSE p, url |-> u, items |-> <<>>])
Around(p, u, n, v) == SetGroup(Empty(p, u), <<>>, n, v)

\* Group.subtree: this group, then the subtrees of its group items in insertion order (the order to_datatree registers nodes in)
RECURSIVE Walk(_, _)
RECURSIVE WalkItems(_, _, _)
WalkItems(g, pos, i) ==
    IF i > Len(g[pos].items) THEN <<>>
    ELSE (IF g[pos].items[i][2] = "g" THEN Walk(g, pos \o <<g[pos].items[i][1]>>) ELSE <<>>) \o WalkItems(g, pos, i + 1)
Walk(g, pos) == <<pos>> \o WalkItems(g, pos, 1)
Subtree(g) == Walk(g, <<>>)

\* ------------------------------------------------------------------ templates the caller inserts (built with the same constructor)
Leaf(u)  == Empty(NoPath, u)
T == [ leaf    |-> Leaf(NoUrl),
       leafu   |-> Leaf("u2"),
       named   |-> SetVar(Around("x", NoUrl, "a", Leaf(NoUrl)), <<>>, "v"),            \* path "x": {a: group, v: variable}
       deep    |-> Around(NoPath, "u2", "b", Around("deep", NoUrl, "a", Leaf("u3"))) ]   \* urls given at two levels
Templates == DOMAIN T

VARIABLES held,     \* the tree the caller holds
          ops,      \* operations so far
          hist      \* history: <<operation, arguments, projection of `held` afterwards>> (exported to the conformance harness)
vars == <<held, ops, hist>>

Proj(g) == [i \in 1..Len(Subtree(g)) |-> LET pos == Subtree(g)[i] IN
                [pos |-> pos, path |-> g[pos].path, url |-> g[pos].url, items |-> g[pos].items]]

Inits == { [p |-> NoPath, u |-> "u1"], [p |-> "/", u |-> NoUrl], [p |-> "top", u |-> "u1"] }
Init == \E c \in Inits : /\ held = Empty(c.p, c.u)
                         /\ ops = 0
                         /\ hist = << [op |-> "new", path |-> c.p, url |-> c.u, proj |-> Proj(Empty(c.p, c.u))] >>

Record(op, g) == /\ held' = g /\ ops' = ops + 1 /\ hist' = Append(hist, op @@ [proj |-> Proj(g)])

DoSetGroup(pos, n, t) ==
    /\ ops < MaxOps
    /\ LET g == SetGroup(held, pos, n, T[t]) IN
         /\ Cardinality(DOMAIN g) <= MaxNodes
         /\ Record([op |-> "setgroup", pos |-> pos, name |-> n, tmpl |-> t], g)
DoSetVar(pos, n) ==
    /\ ops < MaxOps
    /\ Record([op |-> "setvar", pos |-> pos, name |-> n], SetVar(held, pos, n))
\* nest the whole tree below a new root (io.open: Group("/imagery", ..., data={name: group}) then Group("/", data={"imagery": ...}))
DoWrap(p, u, n) ==
    /\ ops < MaxOps
    /\ LET g == Around(p, u, n, held) IN
         /\ Cardinality(DOMAIN g) <= MaxNodes
         /\ Record([op |-> "wrap", path |-> p, url |-> u, name |-> n], g)
\* take one subgroup out and go on with it (group[name] hands out the object that sits in the tree)
DoDescend(n) ==
    /\ ops < MaxOps /\ <<n>> \in DOMAIN held
    /\ Record([op |-> "descend", name |-> n], [q \in { Drop(x, 1) : x \in { y \in DOMAIN held : IsPrefix(<<n>>, y) } } |-> held[<<n>> \o q]])

Next == \/ \E pos \in DOMAIN held, n \in Names, t \in Templates : DoSetGroup(pos, n, t)
        \/ \E pos \in DOMAIN held, n \in Names : DoSetVar(pos, n)
        \/ \E p \in {NoPath, "/", "/imagery"}, u \in {NoUrl, "u9"}, n \in Names : DoWrap(p, u, n)
        \/ \E n \in Names : DoDescend(n)
Spec == Init /\ [][Next]_vars

\* ------------------------------------------------------------------ properties
TypeOK == /\ <<>> \in DOMAIN held
          /\ \A pos \in DOMAIN held : pos = <<>> \/ Front(pos) \in DOMAIN held                       \* prefix closed
\* the items of a node and the positions below it say the same thing
ItemsMatch == \A pos \in DOMAIN held : \A n \in Names :
                 (pos \o <<n>> \in DOMAIN held) <=> (n \in ItemNames(held[pos]) /\ Kind(held[pos], n) = "g")
\* every group carries the path that leads to it from the root it is held by
PathConsistent == \A pos \in DOMAIN held : held[pos].path = PathFrom(held[<<>>].path, pos)
\* a group below a parent that has a url has a url (None is inherited away on insertion)
UrlInherited == \A pos \in DOMAIN held : pos # <<>> /\ held[Front(pos)].url # NoUrl => held[pos].url # NoUrl
\* the walk lists every group exactly once, parents before children
WalkComplete == LET w == Subtree(held) IN
                  /\ { w[i] : i \in 1..Len(w) } = DOMAIN held /\ Len(w) = Cardinality(DOMAIN held)
                  /\ \A i, j \in 1..Len(w) : IsPrefix(w[i], w[j]) /\ w[i] # w[j] => i < j
\* siblings appear in the insertion order of their parent's items
WalkInOrder == LET w == Subtree(held)
                   idx(p) == CHOOSE i \in 1..Len(w) : w[i] = p
                   slot(pos, n) == CHOOSE i \in 1..Len(held[pos].items) : held[pos].items[i][1] = n
               IN  \A pos \in DOMAIN held : \A a, b \in Names :
                     (pos \o <<a>> \in DOMAIN held /\ pos \o <<b>> \in DOMAIN held /\ slot(pos, a) < slot(pos, b)) => idx(pos \o <<a>>) < idx(pos \o <<b>>)
\* names are unique among the items of a group (a dict)
NamesUnique == \A pos \in DOMAIN held : \A i, j \in 1..Len(held[pos].items) : held[pos].items[i][1] = held[pos].items[j][1] => i = j

\* g[pos][n] = ... changes nothing outside the assigned slot, and keeps the order of the other items
LocalChange ==
    [][ \A pos \in DOMAIN held, n \in Names :
          (ops' = ops + 1 /\ hist'[Len(hist')].op \in {"setgroup", "setvar"} /\ hist'[Len(hist')].pos = pos /\ hist'[Len(hist')].name = n) =>
             /\ \A q \in DOMAIN held : ~IsPrefix(pos \o <<n>>, q) => (q \in DOMAIN held' /\ held'[q].path = held[q].path /\ held'[q].url = held[q].url
                                                                     /\ (q # pos => held'[q].items = held[q].items))
             /\ LET old == held[pos].items new == held'[pos].items IN
                  /\ Len(new) \in {Len(old), Len(old) + 1}
                  /\ \A i \in 1..Len(old) : new[i][1] = old[i][1]
    ]_vars
=============================================================================
