---------------------------- MODULE MC_Ident ----------------------------
EXTENDS Ident, Json, IOUtils, SequencesExt
Point(s) == [id |-> ProductId(s), valid |-> ValidProduct(s), slots |-> s, decoded |-> IF ValidProduct(s) THEN DecodedProduct(s) ELSE [none |-> ""]]
ASSUME "IDS_FILE" \in DOMAIN IOEnv => JsonSerialize(IOEnv.IDS_FILE, [products |-> SetToSeq({ Point(s) : s \in AllSlots \cup NearMisses }),
             scans |-> SetToSeq({ [scan |-> sc, pol |-> p, group |-> GroupName(p, sc)] : sc \in Scans, p \in ToSet(Pols) }),
             methods |-> Methods])
=============================================================================
