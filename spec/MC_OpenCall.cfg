SPECIFICATION Spec
CONSTANT Products <- SmallProducts
INVARIANT FailStopFiles
INVARIANT MissingIsOSError
INVARIANT NoTrailerAccess
INVARIANT ExactlyKGroups
INVARIANT GroupOwnsItsFile
INVARIANT MetaMatchesLeader
PROPERTY Terminates
CHECK_DEADLOCK FALSE
