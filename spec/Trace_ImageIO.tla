--------------------------- MODULE Trace_ImageIO ---------------------------
(***************************************************************************)
(* Validation of I/O traces RECORDED FROM THE REAL CODE (tracing           *)
(* filesystem + public-API results) against                                *)
(*   - the ENVELOPE (ImageIOEnv!Observe): the verdict (accepted/rejected,  *)
(*     with the first violated clause and its line), and                   *)
(*   - the DESIGN (ImageIO actions): an event the Design cannot explain    *)
(*     is reported as drift (informational, never a violation).            *)
(* Many traces are batched in one ndjson file: a "hdr" line starts a trace *)
(* and carries its geometry (ground truth from the synthesiser).           *)
(* One verdict line per trace is printed; the POSTCONDITION only asserts   *)
(* that the batch was consumed to the end (machinery check).               *)
(***************************************************************************)
EXTENDS ImageIO, Json, IOUtils, TLCExt

Lines == ndJsonDeserialize(IOEnv.TRACE_FILE)

VARIABLES l,        \* next line to consume (1-based)
          tid,      \* id of the current trace
          rg,       \* geometry of the current trace (from its header)
          renv,     \* envelope observer state over the LOGGED events
          badLine,  \* line (within the batch) of the first rejected event, 0 = none
          drift     \* line of the first event the Design could not explain, 0 = none

tvars == <<l, tid, rg, renv, badLine, drift>>

GeomOf(hd) == [n |-> hd.n, p |-> hd.p, prefix |-> hd.prefix, bps |-> hd.bps, rpc |-> hd.rpc, flen |-> hd.flen, img |-> Img]

Verdict == PrintT(<<"VERDICT", tid, IF renv.bad = "" THEN "accepted" ELSE "rejected", badLine, renv.bad, drift>>)

DesignReset(hd) ==
    /\ g = GeomOf(hd) /\ sel = NoSel
    /\ pc = "begin" /\ pos = 0 /\ ci = 0 /\ ranges = << >> /\ outcome = "pending"
    /\ tasks = << >> /\ cells = << >> /\ seekTo = -1
    /\ io = << >> /\ env = EnvInit /\ h = 0

TInit == /\ l = 2 /\ Lines[1].e = "hdr"
         /\ tid = Lines[1].tid /\ rg = GeomOf(Lines[1]) /\ renv = EnvInit /\ badLine = 0 /\ drift = 0
         /\ DesignReset(Lines[1])

\* does the Design event dev describe the logged event lev ?
Same(dev, lev) ==
    /\ dev.e = lev.e
    /\ CASE dev.e = "read"   -> dev.pos = lev.pos /\ dev.req = lev.req /\ dev.got = lev.got
         [] dev.e = "seek"   -> dev.off = lev.off
         [] dev.e = "opened" -> dev.outcome = lev.outcome
         [] dev.e = "begin_load" -> TRUE
         [] dev.e = "loaded" -> TRUE
         [] OTHER -> TRUE

DesignStep(lev) == Next /\ pc # "done" /\ Len(io') = Len(io) + 1 /\ Same(io'[Len(io')], lev)

\* a further load on the same opened image: the Design restarts its load phase with the logged backend rows
DesignReload(lev) ==
    /\ pc = "done" /\ outcome = "ok" /\ lev.e = "begin_load"
    /\ sel' = [kind |-> lev.kind, rows |-> lev.brows]
    /\ tasks' = Touched(g, lev.brows, << >>) /\ cells' = << >>
    /\ pc' = "lopen"
    /\ Emit([e |-> "begin_load", rows |-> lev.brows])
    /\ UNCHANGED <<g, pos, ci, ranges, outcome, seekTo, h>>

DesignFirstLoad(lev) ==
    /\ pc = "lbegin" /\ lev.e = "begin_load"
    /\ sel' = [kind |-> lev.kind, rows |-> lev.brows]
    /\ tasks' = Touched(g, lev.brows, << >>)
    /\ pc' = "lopen"
    /\ Emit([e |-> "begin_load", rows |-> lev.brows])
    /\ UNCHANGED <<g, pos, ci, ranges, outcome, cells, seekTo, h>>

\* the Design's Finish goes to "lbegin" only when a selection is pending: in trace mode every ok open may be followed by loads
DesignFinish(lev) ==
    /\ pc \in {"finish", "failed"} /\ lev.e = "opened"
    /\ LET ok == pc = "finish" /\ Len(ranges) = g.n IN
          /\ outcome' = IF ok THEN "ok" ELSE "error"
          /\ (IF ok THEN "ok" ELSE "error") = lev.outcome
          /\ Emit([e |-> "opened", outcome |-> IF ok THEN "ok" ELSE "error", shape |-> <<g.n, g.p>>, expect |-> "any"])
          /\ pc' = IF ok THEN "lbegin" ELSE "done"
    /\ UNCHANGED <<g, sel, pos, ci, ranges, tasks, cells, seekTo, h>>

DesignLReturn(lev) ==
    /\ pc = "lreturn" /\ lev.e = "loaded"
    /\ Emit([e |-> "loaded", outcome |-> "equal"])
    /\ pc' = "done"
    /\ UNCHANGED <<g, sel, pos, ci, ranges, outcome, tasks, cells, seekTo, h>>

Explain(lev) == \/ DesignFinish(lev) \/ DesignFirstLoad(lev) \/ DesignReload(lev) \/ DesignLReturn(lev)
                \/ (lev.e \notin {"opened", "begin_load", "loaded"} /\ DesignStep(lev))

DesignVars == <<g, sel, pc, pos, ci, ranges, outcome, tasks, cells, seekTo, io, env, h>>

Consume ==
    /\ l <= Len(Lines)
    /\ Lines[l].e # "hdr"
    /\ LET lev == Lines[l]
           nenv == Observe(renv, lev, rg)
       IN /\ renv' = nenv
          /\ badLine' = IF badLine = 0 /\ nenv.bad # "" THEN l ELSE badLine
          /\ IF lev.e = "fault"          \* an injected transient fault: the Design (fault-free) stops applying, without being drift (-1)
             THEN UNCHANGED DesignVars /\ drift' = (IF drift = 0 THEN -1 ELSE drift)
             ELSE IF lev.e = "cat" \/ drift # 0
             THEN UNCHANGED DesignVars /\ UNCHANGED drift
             ELSE IF ENABLED Explain(lev)
                  THEN Explain(lev) /\ UNCHANGED drift
                  ELSE UNCHANGED DesignVars /\ drift' = l
    /\ l' = l + 1
    /\ UNCHANGED <<tid, rg>>

NewTrace ==
    /\ l <= Len(Lines)
    /\ Lines[l].e = "hdr"
    /\ Verdict
    /\ tid' = Lines[l].tid /\ rg' = GeomOf(Lines[l]) /\ renv' = EnvInit /\ badLine' = 0 /\ drift' = 0
    /\ g' = GeomOf(Lines[l]) /\ sel' = NoSel
    /\ pc' = "begin" /\ pos' = 0 /\ ci' = 0 /\ ranges' = << >> /\ outcome' = "pending"
    /\ tasks' = << >> /\ cells' = << >> /\ seekTo' = -1
    /\ io' = << >> /\ env' = EnvInit /\ h' = 0
    /\ l' = l + 1

Fin == /\ l = Len(Lines) + 1
       /\ Verdict
       /\ l' = l + 1
       /\ UNCHANGED <<tid, rg, renv, badLine, drift>> /\ UNCHANGED DesignVars

TNext == Consume \/ NewTrace \/ Fin
TSpec == TInit /\ [][TNext]_<<DesignVars, tvars>>

Consumed == TLCGet("stats").diameter = Len(Lines) + 1       \* one state per consumed line + the final verdict state
=============================================================================
