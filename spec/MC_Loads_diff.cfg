SPECIFICATION FairSpec
CONSTANTS
  Threads = {1, 2}
  VarOf <- DiffVar2
  LockOf <- DiffVar2
  Chunks <- Ch2
  SharedHandle = FALSE
  UseLock = TRUE
INVARIANT ServedIsWanted
INVARIANT ResultsSequential
INVARIANT MutualExclusion
PROPERTY Termination
