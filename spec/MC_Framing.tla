---------------------------- MODULE MC_Framing ----------------------------
EXTENDS Framing, Json, IOUtils, SequencesExt

DefLeader == [nmap |-> 1, np |-> 22, attlen |-> 16384, nch |-> 2, f1 |-> 325000, f2 |-> 511000, f3 |-> 3072, f4 |-> 728000]

FacLens == {66, 67, 100, 1000, 5000}

\* one dimension at a time around the default instance, plus the full cross of the four facility lengths
LeaderQuick ==
       { [DefLeader EXCEPT !.np = n] : n \in 1..136 }
  \cup { [DefLeader EXCEPT !.np = 1, !.attlen = 136] }
  \cup { [DefLeader EXCEPT !.np = n, !.attlen = 16 + 120 * n] : n \in {1, 2, 135, 136} }
  \cup { [DefLeader EXCEPT !.nch = c] : c \in 1..16 }
  \cup { [DefLeader EXCEPT !.nmap = m] : m \in 0..1 }
  \cup { [DefLeader EXCEPT !.f1 = a, !.f2 = b, !.f3 = c, !.f4 = d] : a \in FacLens, b \in FacLens, c \in FacLens, d \in FacLens }
\* inadmissible neighbours: one point / channel too many, one byte too short
LeaderBad ==
       { [DefLeader EXCEPT !.np = 137], [DefLeader EXCEPT !.np = 2, !.attlen = 136], [DefLeader EXCEPT !.nch = 17] }
  \cup { [DefLeader EXCEPT !.f1 = 65], [DefLeader EXCEPT !.f4 = 65] }
LeaderThorough ==
  { [nmap |-> m, np |-> n, attlen |-> 16384, nch |-> c, f1 |-> a, f2 |-> 66, f3 |-> b, f4 |-> 5000] :
        m \in 0..1, n \in 1..136, c \in 1..16, a \in {66, 1000}, b \in {67, 5000} }

VolumeAll  == { [nfp |-> n] : n \in 0..12 }
\* low-resolution images of 4, 8, ... bytes; and images of DIFFERENT sample sizes whose lengths leave the following image at an odd offset
\* or at 2 mod 4 (an image is decoded from the bytes its entry declares, whatever lies before it)
TrailerAll == { [nlow |-> n, lens |-> [i \in 1..n |-> 4 * i]] : n \in 0..7 }
         \cup { [nlow |-> 3, lens |-> <<3, 8, 6>>], [nlow |-> 4, lens |-> <<6, 4, 3, 8>>], [nlow |-> 2, lens |-> <<5, 4>>], [nlow |-> 5, lens |-> <<2, 4, 1, 2, 8>>] }
ImageAll   == { [kind |-> kd, n |-> n, ndata |-> d, bps |-> b] : kd \in {"signal", "processed"}, n \in 0..3, d \in {8, 16}, b \in {2, 8} }

QuickCases ==
       { <<"leader", p>> : p \in LeaderQuick \cup LeaderBad }
  \cup { <<"volume", p>> : p \in VolumeAll }
  \cup { <<"trailer", p>> : p \in TrailerAll }
  \cup { <<"image", p>> : p \in ImageAll }
IsAdm(c) == Admissible(c)
Tag(cs) == LET q == SetToSeq(cs) IN [i \in 1..Len(q) |-> [file |-> q[i][1], p |-> q[i][2], adm |-> IsAdm(q[i])]]
ThoroughCases == QuickCases \cup { <<"leader", p>> : p \in LeaderThorough }
\* hand the enumerated instances to the conformance harness (spec -> code direction)
ASSUME "CASES_FILE" \in DOMAIN IOEnv =>
         JsonSerialize(IOEnv.CASES_FILE, Tag(IF IOEnv.CASES_TIER = "thorough" THEN ThoroughCases ELSE QuickCases))
=============================================================================
